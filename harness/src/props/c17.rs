//! C17 — packet framing: the reader accepts every legal framing, the writer emits only legal.
//!
//! Correspondence ops (model: RpgpModel/Framing.lean):
//!   frame fmt=<0|1> tag=<n> kind=fixed|indet|partial [form=<n>] [segs=k,k,..] body=<seed>:<len>
//!         rest=<len> trunc=<n>
//!       both sides build the stream (harness: src/frame.rs, model: frameFixedAs/framePartial),
//!       the model runs `deframe`, the harness runs PacketParser::next_ref + PacketBodyReader.
//!   deframe data=<hex>      raw (mutated / random / library-written) streams
//!   emit tag=11 k=<n> hdr=<hex> body=<seed>:<len>   MessageBuilder(from_reader, partial chunk 2^k)
//!       output versus the model's `emitPartial`
//!
//! Oracle (property text): same body whichever legal framing; illegal framings (partial on a
//! non-data tag, first chunk < 512, body shorter than declared) => error; library-written
//! streams are legal and their lengths match the bytes that follow.

use std::io::Read;

use pgp::composed::MessageBuilder;
use pgp::packet::PacketParser;
use pgp::types::PacketLength;
use rand::Rng;

use crate::ctx::{guarded, hx, Ctx};
use crate::frame::{self, cksum, pattern};
use crate::io::ScheduledReader;

pub const DATA_TAGS: [u8; 5] = [8, 9, 11, 18, 20];

/// run the real reader over `data`: header, body to the end, rest of the stream
pub fn real_deframe(data: &[u8]) -> (String, Option<(Vec<u8>, Vec<u8>)>) {
    let r = guarded(|| {
        let mut src: &[u8] = data;
        let mut parser = PacketParser::new(&mut src);
        match parser.next_ref() {
            None => ("none".to_string(), None),
            Some(Err(_)) => ("err".to_string(), None),
            Some(Ok(mut body)) => {
                let h = body.packet_header();
                let mut b = Vec::new();
                match body.read_to_end(&mut b) {
                    Err(_) => ("err".to_string(), None),
                    Ok(_) => {
                        let inner = body.into_inner();
                        let mut rest = Vec::new();
                        let _ = inner.read_to_end(&mut rest);
                        let fmt = match h.version() {
                            pgp::types::PacketHeaderVersion::New => 1,
                            pgp::types::PacketHeaderVersion::Old => 0,
                        };
                        let tag: u8 = h.tag().into();
                        let kind = match h.packet_length() {
                            PacketLength::Fixed(n) => format!("f{n}"),
                            PacketLength::Partial(n) => format!("p{n}"),
                            PacketLength::Indeterminate => "i".to_string(),
                        };
                        (format!("ok:{fmt}:{tag}:{kind}:{}:{}", cksum(&b), cksum(&rest)), Some((b, rest)))
                    }
                }
            }
        }
    });
    match r {
        Ok(v) => v,
        Err(_) => ("panic".to_string(), None),
    }
}

/// the same, but the parser pulls its input through a `BufReader` of the given capacity over a
/// source delivering `chunk`-sized reads (buffer refills fall inside headers and length fields)
pub fn real_deframe_buffered(data: &[u8], cap: usize, chunk: usize) -> String {
    let r = guarded(|| {
        let src = ScheduledReader::new(data, &vec![chunk.max(1); data.len() / chunk.max(1) + 2]);
        let mut br = std::io::BufReader::with_capacity(cap.max(1), src);
        let mut parser = PacketParser::new(&mut br);
        match parser.next_ref() {
            None => "none".to_string(),
            Some(Err(_)) => "err".to_string(),
            Some(Ok(mut body)) => {
                let h = body.packet_header();
                let mut b = Vec::new();
                match body.read_to_end(&mut b) {
                    Err(_) => "err".to_string(),
                    Ok(_) => {
                        let inner = body.into_inner();
                        let mut rest = Vec::new();
                        let _ = inner.read_to_end(&mut rest);
                        let fmt = match h.version() {
                            pgp::types::PacketHeaderVersion::New => 1,
                            pgp::types::PacketHeaderVersion::Old => 0,
                        };
                        let tag: u8 = h.tag().into();
                        let kind = match h.packet_length() {
                            PacketLength::Fixed(n) => format!("f{n}"),
                            PacketLength::Partial(n) => format!("p{n}"),
                            PacketLength::Indeterminate => "i".to_string(),
                        };
                        format!("ok:{fmt}:{tag}:{kind}:{}:{}", cksum(&b), cksum(&rest))
                    }
                }
            }
        }
    });
    r.unwrap_or_else(|_| "panic".to_string())
}

/// a slice that counts what the parser has consumed (shared with the caller)
struct CountSlice<'a> {
    data: &'a [u8],
    pos: std::rc::Rc<std::cell::Cell<usize>>,
}

impl Read for CountSlice<'_> {
    fn read(&mut self, buf: &mut [u8]) -> std::io::Result<usize> {
        let p = self.pos.get();
        let n = buf.len().min(self.data.len() - p);
        buf[..n].copy_from_slice(&self.data[p..p + n]);
        self.pos.set(p + n);
        Ok(n)
    }
}

impl std::io::BufRead for CountSlice<'_> {
    fn fill_buf(&mut self) -> std::io::Result<&[u8]> {
        Ok(&self.data[self.pos.get()..])
    }
    fn consume(&mut self, amt: usize) {
        self.pos.set((self.pos.get() + amt).min(self.data.len()));
    }
}

/// the real packet iterator over a whole stream, at the framing level (`next_ref`, every body read
/// to its end): `fmt.tag.cksum;...;end|eof|err`, the format of the model op `stream`
pub fn real_stream(data: &[u8]) -> String {
    let r = guarded(|| {
        let pos = std::rc::Rc::new(std::cell::Cell::new(0usize));
        let mut parser = PacketParser::new(CountSlice { data, pos: pos.clone() });
        let mut items: Vec<String> = Vec::new();
        loop {
            let before = pos.get();
            match parser.next_ref() {
                None => {
                    items.push(if before == data.len() { "end" } else { "eof" }.to_string());
                    break;
                }
                Some(Err(_)) => {
                    items.push("err".to_string());
                    break;
                }
                Some(Ok(mut body)) => {
                    let h = body.packet_header();
                    let mut b = Vec::new();
                    if body.read_to_end(&mut b).is_err() {
                        items.push("err".to_string());
                        break;
                    }
                    let fmt = match h.version() {
                        pgp::types::PacketHeaderVersion::New => 1,
                        pgp::types::PacketHeaderVersion::Old => 0,
                    };
                    let tag: u8 = h.tag().into();
                    items.push(format!("{fmt}.{tag}.{}", cksum(&b)));
                }
            }
            if items.len() > 64 {
                items.push("runaway".to_string());
                break;
            }
        }
        items.join(";")
    });
    match r {
        Ok(v) => format!("ok:{v}"),
        Err(_) => "panic".to_string(),
    }
}

/// random streams of framed packets (any tag, any legal framing, bodies that look like packets),
/// some of them damaged: split by the model and by the real iterator
fn run_streams(ctx: &mut Ctx) {
    let n = ctx.pick(400, 6000);
    for i in 0..n {
        let count = ctx.rng.gen_range(1..=6usize);
        let mut stream: Vec<u8> = Vec::new();
        let mut made: Vec<(u8, Vec<u8>)> = Vec::new();
        for j in 0..count {
            let last = j + 1 == count;
            let tag: u8 = match ctx.rng.gen_range(0..10) {
                0..=3 => *[1u8, 2, 3, 4, 5, 6, 7, 13, 14, 17, 10, 21].get(ctx.rng.gen_range(0..12)).unwrap(),
                4..=6 => DATA_TAGS[ctx.rng.gen_range(0..5)],
                _ => ctx.rng.gen_range(0..64u8),
            };
            // bodies: patterns, or framed packets (so that a mis-split would find plausible headers)
            let mut body: Vec<u8> = match ctx.rng.gen_range(0..4) {
                0 => pattern(i + j, ctx.rng.gen_range(0..40usize)),
                1 => {
                    let inner = frame::frame_fixed(true, 13, 1, b"smuggled").unwrap_or_default();
                    let k = ctx.rng.gen_range(0..4usize);
                    (0..k).flat_map(|_| inner.clone()).collect()
                }
                2 => pattern(i * 3 + j, ctx.rng.gen_range(180..270usize)),
                _ => Vec::new(),
            };
            let kind = ctx.rng.gen_range(0..10);
            let framed = if kind < 2 && DATA_TAGS.contains(&tag) {
                // legal partial framing: first chunk 512 (or 1024), further chunks any power of two
                let first = ctx.rng.gen_range(9..=10u8);
                body = pattern(i + 7 * j, (1usize << first) + ctx.rng.gen_range(0..700usize));
                let mut segs = vec![first];
                let mut left = body.len() - (1usize << first);
                while left > 0 && ctx.rng.gen_bool(0.6) {
                    let k = ctx.rng.gen_range(0..=8u8);
                    if (1usize << k) > left { break; }
                    segs.push(k);
                    left -= 1usize << k;
                }
                frame::frame_partial(tag, &segs, &body)
            } else if kind == 2 && last && tag < 16 {
                Some(frame::frame_indet(tag, &body))
            } else {
                let new_format = tag >= 16 || ctx.rng.gen_bool(0.6);
                let form = if new_format { [1u8, 2, 5][ctx.rng.gen_range(0..3)] } else { [0u8, 1, 2][ctx.rng.gen_range(0..3)] };
                frame::frame_fixed(new_format, tag, form, &body).or_else(|| frame::frame_fixed(new_format, tag, if new_format { 5 } else { 2 }, &body))
            };
            let Some(f) = framed else { continue };
            stream.extend_from_slice(&f);
            made.push((tag, body));
        }
        // damage
        let damage = ctx.rng.gen_range(0..10);
        let mut damaged = false;
        if !stream.is_empty() {
            match damage {
                0 => { let cut = ctx.rng.gen_range(0..stream.len()); stream.truncate(cut); damaged = true; }
                1 => { let p = ctx.rng.gen_range(0..stream.len().min(8)); stream[p] ^= 1 << ctx.rng.gen_range(0..8); damaged = true; }
                2 => { stream.push(ctx.rng.gen()); damaged = true; }
                _ => {}
            }
        }
        let got = real_stream(&stream);
        ctx.case(format!("stream data={}", hx(&stream)), got.clone());
        ctx.stat(if damaged { "stream:damaged" } else { "stream:intact" });
        if !damaged {
            // the property, without the model: the packets that went in come out, in order, whole
            let want: Vec<String> = made.iter().map(|(t, b)| format!("{t}.{}", cksum(b))).collect();
            let have: Vec<String> = got.trim_start_matches("ok:").split(';').filter(|x| x.contains('.')).map(|x| x.splitn(2, '.').nth(1).unwrap_or("").to_string()).collect();
            ctx.oracle("stream_split_at_framing", "PacketParser::next_ref over a stream", &format!("data={}", hx(&stream)), have == want && got.ends_with("end"), &format!("got {got}, made {}", want.join(";")));
            // the high-level iterator yields one item per packet, refused or not
            let items = guarded(|| PacketParser::new(&stream[..]).take(70).map(|p| p.ok().map(|p| u8::from(pgp::packet::PacketTrait::packet_header(&p).tag()))).collect::<Vec<_>>());
            let ok = match &items {
                Ok(v) => v.len() == made.len() && v.iter().zip(&made).all(|(x, (t, _))| x.map(|x| x == *t).unwrap_or(true)),
                Err(_) => false,
            };
            ctx.oracle("refused_packet_skipped_whole", "PacketParser iterator over a stream", &format!("data={}", hx(&stream)), ok, &format!("items {items:?}, made tags {:?}", made.iter().map(|(t, _)| *t).collect::<Vec<_>>()));
        }
    }
}

struct Desc {
    fmt: u8,
    tag: u8,
    kind: &'static str,
    form: u8,
    segs: Vec<u8>,
    seed: usize,
    len: usize,
    rest: usize,
    trunc: usize,
}

fn run_desc(ctx: &mut Ctx, d: &Desc) {
    let body = pattern(d.seed, d.len);
    let rest = pattern(d.seed + 1, d.rest);
    let framed = match d.kind {
        "fixed" => frame::frame_fixed(d.fmt == 1, d.tag, d.form, &body),
        "indet" => Some(frame::frame_indet(d.tag, &body)),
        _ => frame::frame_partial(d.tag, &d.segs, &body),
    };
    let Some(mut stream) = framed else { return };
    let full_len = stream.len();
    stream.extend_from_slice(&rest);
    let cut = d.trunc.min(stream.len());
    stream.truncate(stream.len() - cut);
    let segs = if d.segs.is_empty() { "-".to_string() } else { d.segs.iter().map(|k| k.to_string()).collect::<Vec<_>>().join(",") };
    let req = format!(
        "frame fmt={} tag={} kind={} form={} segs={} body={}:{} rest={} trunc={}",
        d.fmt, d.tag, d.kind, d.form, segs, d.seed, d.len, d.rest, d.trunc
    );
    let (ans, got) = real_deframe(&stream);
    ctx.case(req.clone(), ans.clone());
    ctx.stat(&format!("kind:{}", d.kind));
    // the same stream through buffered readers whose refills fall inside the header / length
    // octets: the result must not depend on how the input is buffered
    if stream.len() <= 20_000 {
        for (cap, chunk) in [(1usize, 1usize), (2, 2), (3, 1), (5, 5), (7, 3), (8192, 8190)] {
            if (d.seed + cap) % 3 != 0 && cap != 3 {
                continue;
            }
            let b = real_deframe_buffered(&stream, cap, chunk);
            ctx.oracle("framing_independent_of_buffering", "PacketParser over BufRead (PacketLength::try_from_reader / PacketHeader::try_from_reader)",
                &format!("{req} cap={cap} chunk={chunk}"), b == ans, &format!("buffered {b} vs slice {ans}"));
            ctx.stat("buffered_reader");
        }
    }

    // ---- write-back: a packet the library accepted, written again with its header, must be a
    // legal framing whose lengths match the bytes that follow and which carries the same body
    if d.trunc == 0 && (stream.len() <= 20_000 || d.rest == 0) {
        let wb = guarded(|| {
            use pgp::packet::PacketTrait;
            let mut src: &[u8] = &stream;
            let mut parser = PacketParser::new(&mut src);
            match parser.next() {
                Some(Ok(pkt)) => {
                    let mut out = Vec::new();
                    pkt.to_writer_with_header(&mut out).ok().map(|_| (out, pkt.write_len_with_header()))
                }
                _ => None,
            }
        });
        if let Ok(Some((written, announced))) = wb {
            let indet = d.kind == "indet";
            let mut w2 = written.clone();
            if !indet {
                w2.extend_from_slice(b"\xCA\x03PGP"); // a marker packet after it: must stay intact
            }
            let (a1, g1) = real_deframe(&w2);
            // the announced lengths match the bytes that follow: what comes after the packet is
            // found exactly where the header says (an indeterminate packet extends to the end)
            let legal = match &g1 {
                Some((_, r1)) => if indet { r1.is_empty() } else { r1.as_slice() == b"\xCA\x03PGP" },
                None => false,
            };
            let _ = &got;
            ctx.oracle("written_back_packet_is_legal", "PacketTrait::to_writer_with_header", &req, legal && announced == written.len(), &format!("written {} announced {announced} reparse {a1}", hx(&written[..written.len().min(24)])));
            if written.len() <= 3000 {
                ctx.case(format!("deframe data={}", hx(&w2)), a1);
            }
            ctx.stat("write_back");
        }
    }

    // ---- oracle, from the property text
    let legal_partial = d.kind != "partial"
        || d.segs.is_empty()
        || (DATA_TAGS.contains(&d.tag) && d.segs[0] >= 9 && d.segs.iter().all(|&k| k <= 30));
    let truncated_into_packet = d.trunc > d.rest || (d.kind == "indet" && d.trunc > 0);
    if d.kind == "indet" {
        // indeterminate: body is the rest of the input, whatever it is
        let mut want = body.clone();
        want.extend_from_slice(&rest);
        want.truncate(want.len() - cut.min(want.len()));
        let ok = matches!(&got, Some((b, r)) if *b == want && r.is_empty());
        ctx.oracle("legal_framing_same_body", "PacketParser/PacketBodyReader indeterminate", &req, ok, &ans);
    } else if legal_partial && !truncated_into_packet {
        let mut want_rest = rest.clone();
        want_rest.truncate(rest.len() - cut);
        let ok = matches!(&got, Some((b, r)) if *b == body && *r == want_rest);
        ctx.oracle("legal_framing_same_body", "PacketParser/PacketBodyReader", &req, ok, &ans);
    } else if !legal_partial && !truncated_into_packet {
        ctx.oracle("illegal_framing_rejected", "PacketBodyReader::new partial restrictions", &req, got.is_none() && ans == "err", &ans);
    } else {
        // body shorter than declared: never a silent mis-split (error, or header-level EOF)
        let _ = full_len;
        ctx.oracle("truncated_body_rejected", "PacketBodyReader fill_inner", &req, got.is_none(), &ans);
    }
}

fn raw(ctx: &mut Ctx, data: &[u8], tagname: &str) {
    let (ans, _) = real_deframe(data);
    ctx.case(format!("deframe data={}", hx(data)), ans);
    ctx.stat(&format!("raw:{tagname}"));
}

/// `MessageBuilder::from_file`: the announced length comes from the file's metadata; what is written
/// must still be a legal stream when the file yields another amount (special files, files that grow
/// or shrink while they are read) — or the builder must fail (oracle only)
fn run_from_file_lengths(ctx: &mut Ctx) {
    for path in ["/proc/version", "/proc/self/stat", "/proc/self/cmdline"] {
        let Ok(real) = std::fs::read(path) else {
            ctx.stat("from_file:special_file_absent");
            continue;
        };
        let meta = std::fs::metadata(path).map(|m| m.len()).unwrap_or(0);
        for chunked in [false, true] {
            let r = guarded(|| {
                let mut b = MessageBuilder::from_file(path);
                if chunked {
                    b.partial_chunk_size(512).ok()?;
                }
                b.to_vec(rand::thread_rng()).ok()
            });
            let input = format!("path={path} metadata_len={meta} yields={} octets", real.len());
            match r {
                Err(p) => ctx.oracle("writer_emits_legal_framing", "MessageBuilder::from_file", &input, false, &format!("panic: {p}")),
                Ok(None) => ctx.stat("from_file:refused"),
                Ok(Some(out)) => {
                    let s = real_stream(&out);
                    // exactly one packet (the literal), then the end
                    let items: Vec<&str> = s.trim_start_matches("ok:").split(';').collect();
                    let ok = items.len() == 2 && items[0].starts_with("1.11.") && items[1] == "end";
                    ctx.oracle("writer_emits_legal_framing", "MessageBuilder::from_file", &input, ok, &format!("written stream splits as {s}; out={}", hx(&out[..out.len().min(64)])));
                    ctx.stat("from_file:written");
                }
            }
        }
    }
}

/// session-key packets (PKESK / SKESK) with octets left over behind what their parser reads, also
/// beyond the 8 KiB the body reader buffers: the message parser must find the next packet where the
/// framing says it is — the encrypted-data packet it reports is a packet of the stream, never octets
/// from inside an ESK body (oracle only; the framing-level split is `real_stream`)
fn run_esk_leftovers(ctx: &mut Ctx) {
    use pgp::composed::Message;
    let planted: [u8; 7] = [0xD2, 0x05, 0x01, 0xAA, 0xBB, 0xCC, 0xDD];
    let pkesk: Vec<u8> = { let mut b = vec![3u8]; b.extend_from_slice(&[9u8; 8]); b.extend_from_slice(&[1, 0, 1, 1]); b };
    let skesk: Vec<u8> = vec![4u8, 7, 3, 8, 1, 2, 3, 4, 5, 6, 7, 8, 96];
    let real_seipd: Vec<u8> = { let mut b = vec![1u8]; b.extend_from_slice(&[0x77; 40]); frame::frame_fixed(true, 18, 1, &b).unwrap_or_default() };
    for (name, tag, esk) in [("pkesk", 1u8, &pkesk), ("skesk", 3u8, &skesk)] {
        for body_len in [esk.len(), esk.len() + 1, esk.len() + 100, 8191, 8192, 8193, 8192 + 7, 8192 + 64, 16384 + 7, 20000] {
            for plant_at in [None, Some(8192usize), Some(esk.len()), Some(body_len.saturating_sub(7))] {
                for follow in [false, true] {
                    let mut body = esk.clone();
                    body.resize(body_len, 0xE1);
                    if let Some(at) = plant_at {
                        if at >= esk.len() && at + 7 <= body.len() {
                            body[at..at + 7].copy_from_slice(&planted);
                        } else {
                            continue;
                        }
                    }
                    let Some(mut stream) = frame::frame_fixed(true, tag, if body.len() < 192 { 1 } else if body.len() < 8384 { 2 } else { 5 }, &body) else { continue };
                    if follow {
                        stream.extend_from_slice(&real_seipd);
                    }
                    let split = real_stream(&stream);
                    let r = guarded(|| match Message::from_bytes(&stream[..]) {
                        Ok(Message::Encrypted { edata, .. }) => {
                            let h = edata.packet_header();
                            format!("encrypted:{}:{:?}", u8::from(h.tag()), h.packet_length())
                        }
                        Ok(_) => "other".to_string(),
                        Err(_) => "err".to_string(),
                    });
                    let input = format!("{name} body_len={body_len} planted_at={plant_at:?} followed_by_seipd={follow} framing_split={split}");
                    let ok = match &r {
                        Err(_) => false,
                        Ok(a) if a.starts_with("encrypted:") => follow && *a == format!("encrypted:18:Fixed({})", real_seipd.len() - 2),
                        Ok(_) => true,
                    };
                    ctx.oracle("message_parser_splits_at_framing", "Message::from_bytes over ESK packets with left-over octets", &input, ok, &format!("{r:?}"));
                    ctx.stat("esk_leftover");
                }
            }
        }
    }
}

/// `PacketHeader` parsed from any admissible length form and written back through its own
/// `Serialize` impl: what is written parses to the same header, and `write_len` tells its size
fn run_header_writeback(ctx: &mut Ctx) {
    use pgp::ser::Serialize;
    use pgp::packet::PacketHeader;
    for fmt in [0u8, 1] {
        for tag in [2u8, 6, 11] {
            for form in [0u8, 1, 2, 5] {
                for n in [0usize, 5, 191, 192, 255, 256, 8383, 8384, 65535, 65536, 100_000] {
                    // header only: build it by hand from the length encoders
                    let hdr: Option<Vec<u8>> = if fmt == 1 {
                        frame::new_len(form, n).map(|l| { let mut h = vec![0xC0 | tag]; h.extend(l); h })
                    } else {
                        frame::old_len(form, n).map(|l| { let mut h = vec![0x80 | (tag << 2) | form]; h.extend(l); h })
                    };
                    let Some(hdr) = hdr else { continue };
                    let r = guarded(|| {
                        let h = PacketHeader::try_from_reader(&mut &hdr[..]).ok()?;
                        let out = h.to_bytes().ok()?;
                        let wl = h.write_len();
                        let back = PacketHeader::try_from_reader(&mut &out[..]).ok();
                        Some((out.clone(), wl, back.map(|b| (u8::from(b.tag()), format!("{:?}", b.packet_length()))), (u8::from(h.tag()), format!("{:?}", h.packet_length()))))
                    });
                    let input = format!("header={} (fmt={fmt} tag={tag} form={form} len={n})", hx(&hdr));
                    match r {
                        Ok(Some((out, wl, back, orig))) => {
                            ctx.oracle("written_back_packet_is_legal", "PacketHeader::try_from_reader -> to_bytes", &input, back.as_ref() == Some(&orig) && wl == out.len(), &format!("wrote {} (write_len {wl}), which reads as {back:?}; parsed {orig:?}", hx(&out)));
                        }
                        Ok(None) => ctx.stat("header_writeback:refused"),
                        Err(p) => ctx.oracle("written_back_packet_is_legal", "PacketHeader::try_from_reader -> to_bytes", &input, false, &format!("panic {p}")),
                    }
                    ctx.stat("header_writeback");
                }
            }
        }
    }
}

/// "bodies shorter than their declared length are rejected" at the level of the composed parsers:
/// a certificate / secret key / detached signature cut inside the BODY of any of its packets is an
/// error for `from_bytes` and an `Err` item for `from_bytes_many`, never the object minus that
/// packet (oracle only; packet ends are taken from the framing walk of `real_stream`'s reader)
fn run_truncated_composed(ctx: &mut Ctx) {
    use pgp::composed::{Deserializable, DetachedSignature, SignedPublicKey, SignedSecretKey};
    use pgp::ser::Serialize;
    use rand::SeedableRng;
    let mut rng = rand_chacha::ChaCha8Rng::seed_from_u64(1717);
    let k4 = crate::keys::ed25519_x25519(&mut rng, pgp::types::KeyVersion::V4);
    let k6 = crate::keys::ed25519_x25519(&mut rng, pgp::types::KeyVersion::V6);
    let mut docs: Vec<(&str, Vec<u8>)> = Vec::new();
    for (n, k) in [("v4", &k4), ("v6", &k6)] {
        if let Ok(b) = k.to_public_key().to_bytes() {
            docs.push((if n == "v4" { "public key v4" } else { "public key v6" }, b));
        }
        if let Ok(b) = k.to_bytes() {
            docs.push((if n == "v4" { "secret key v4" } else { "secret key v6" }, b));
        }
    }
    if let Ok(sig) = DetachedSignature::sign_binary_data(&mut rng, &k4.primary_key, &pgp::types::Password::empty(), pgp::crypto::hash::HashAlgorithm::Sha256, &b"data"[..]) {
        if let Ok(b) = sig.to_bytes() {
            docs.push(("detached signature", b));
        }
    }
    for (what, doc) in &docs {
        // packet extents: (start, body_start, end)
        let mut extents: Vec<(usize, usize, usize)> = Vec::new();
        {
            let pos = std::rc::Rc::new(std::cell::Cell::new(0usize));
            let mut parser = PacketParser::new(CountSlice { data: doc, pos: pos.clone() });
            loop {
                let start = pos.get();
                match parser.next_ref() {
                    Some(Ok(mut body)) => {
                        let body_start = pos.get();
                        let mut v = Vec::new();
                        if body.read_to_end(&mut v).is_err() {
                            break;
                        }
                        drop(body);
                        extents.push((start, body_start, pos.get()));
                    }
                    _ => break,
                }
            }
        }
        for (pi, &(start, body_start, end)) in extents.iter().enumerate() {
            let stride = if ctx.thorough() { 1 } else { ((end - body_start) / 6).max(1) };
            let mut cuts: Vec<usize> = (body_start..end).step_by(stride).collect();
            cuts.push(end - 1);
            cuts.dedup();
            for cut in cuts {
                if cut < body_start || cut >= end || body_start == end {
                    continue;
                }
                let part = &doc[..cut];
                let r = guarded(|| {
                    let one = match *what {
                        "detached signature" => DetachedSignature::from_bytes(part).is_ok(),
                        w if w.starts_with("secret") => SignedSecretKey::from_bytes(part).is_ok(),
                        _ => SignedPublicKey::from_bytes(part).is_ok(),
                    };
                    let many_clean = match *what {
                        "detached signature" => DetachedSignature::from_bytes_many(part).map(|it| it.take(8).all(|x| x.is_ok())).unwrap_or(false),
                        w if w.starts_with("secret") => SignedSecretKey::from_bytes_many(part).map(|it| it.take(8).all(|x| x.is_ok())).unwrap_or(false),
                        _ => SignedPublicKey::from_bytes_many(part).map(|it| it.take(8).all(|x| x.is_ok())).unwrap_or(false),
                    };
                    (one, many_clean)
                });
                let input = format!("{what}: packet #{pi} spans {start}..{end} (body from {body_start}), input cut at {cut}; doc={}", hx(doc));
                match r {
                    Ok((one, many_clean)) => {
                        ctx.oracle("truncated_body_rejected", "Deserializable::from_bytes over a packet whose body is shorter than declared", &input, !one, "accepted");
                        ctx.oracle("truncated_body_rejected", "Deserializable::from_bytes_many over a packet whose body is shorter than declared", &input, !many_clean, "every item Ok");
                    }
                    Err(p) => ctx.oracle("truncated_body_rejected", "Deserializable::from_bytes", &input, false, &format!("panic {p}")),
                }
                ctx.stat("truncated_composed");
            }
        }
    }
}

/// the fixed-length literal generator over sources that yield exactly, fewer or more octets than the
/// announced length, delivered under several read schedules (model op `fixed_gen`)
fn run_fixed_generator(ctx: &mut Ctx) {
    for announced in [0usize, 1, 5, 185, 186, 187, 191, 192, 1000, 8377, 8378, 8379, 70000] {
        for delta in [-3i64, -1, 0, 1, 2, 600] {
            let have = announced as i64 + delta;
            if have < 0 {
                continue;
            }
            let have = have as usize;
            let seed = announced % 97 + have % 13;
            let src = pattern(seed, have);
            let mut answers: Vec<String> = Vec::new();
            for sched in [vec![], vec![1usize; 64], vec![7, 500, 3], vec![8192]] {
                let r = guarded(|| pgp::verif_hooks::literal_fixed_generator(ScheduledReader::new(&src, &sched), announced as u32));
                answers.push(match r {
                    Ok(Ok(out)) => format!("ok:{}", cksum(&out)),
                    Ok(Err(_)) => "err".to_string(),
                    Err(p) => format!("panic {p}"),
                });
            }
            let input = format!("announced={announced} source_yields={have}");
            ctx.oracle("framing_independent_of_buffering", "LiteralDataFixedGenerator over source schedules", &input, answers.iter().all(|a| *a == answers[0]), &format!("{answers:?}"));
            ctx.case(format!("fixed_gen n={announced} src={seed}:{have}"), answers[0].clone());
            // the property, without the model: a clean end is one legal packet carrying the source
            if let Ok(Ok(out)) = guarded(|| pgp::verif_hooks::literal_fixed_generator(&src[..], announced as u32)) {
                let (ans, got) = real_deframe(&out);
                let ok = matches!(&got, Some((b, r)) if b.len() == 6 + have && b[6..] == src[..] && r.is_empty());
                ctx.oracle("writer_emits_legal_framing", "LiteralDataFixedGenerator", &input, ok, &ans[..ans.len().min(100)]);
            }
            ctx.stat("fixed_gen");
        }
    }
}

/// chunk sizes the framing rules exclude (below 512, not a power of two, above 2^30) offered to the
/// builder, with and without encryption / compression / signing: refused, or what is written is
/// legal all the same (oracle only; the framing walk is the model's `deframeAll` via `real_stream`)
fn run_illegal_chunk_sizes(ctx: &mut Ctx) {
    use pgp::crypto::sym::SymmetricKeyAlgorithm;
    let data = pattern(77, 5000);
    for size in [0u32, 1, 2, 64, 128, 256, 511, 513, 768, 1000, 1023, 1025, (1 << 30) + 1, 3 << 29, u32::MAX] {
        for shape in 0..5u8 {
            for from_reader in [false, true] {
                let r = guarded(|| {
                    let mut rng = rand::thread_rng();
                    macro_rules! finish {
                        ($b:expr) => {{
                            let mut b = $b;
                            match b.partial_chunk_size(size) {
                                Err(_) => None,
                                Ok(_) => Some(b.to_vec(&mut rng).map_err(|e| e.to_string())),
                            }
                        }};
                    }
                    macro_rules! shapes {
                        ($plain:expr) => {{
                            match shape {
                                0 => finish!($plain),
                                1 => { let mut b = $plain.seipd_v1(&mut rng, SymmetricKeyAlgorithm::AES128); b.set_session_key(vec![7u8; 16].into()).ok(); finish!(b) }
                                2 => { let mut b = $plain.seipd_v2(&mut rng, SymmetricKeyAlgorithm::AES128, pgp::crypto::aead::AeadAlgorithm::Ocb, pgp::crypto::aead::ChunkSize::C64B); b.set_session_key(vec![7u8; 16].into()).ok(); finish!(b) }
                                3 => { let mut b = $plain; b.compression(pgp::types::CompressionAlgorithm::ZLIB); finish!(b) }
                                _ => { let mut b = $plain.seipd_v1(&mut rng, SymmetricKeyAlgorithm::AES128); b.set_session_key(vec![7u8; 16].into()).ok(); b.compression(pgp::types::CompressionAlgorithm::ZIP); finish!(b) }
                            }
                        }};
                    }
                    if from_reader {
                        shapes!(MessageBuilder::from_reader("", ScheduledReader::new(&data, &[700, 3])))
                    } else {
                        shapes!(MessageBuilder::from_bytes("", data.clone()))
                    }
                });
                let input = format!("partial_chunk_size({size}) shape={shape} from_reader={from_reader}");
                match r {
                    Err(p) => ctx.oracle("writer_emits_legal_framing", "MessageBuilder::partial_chunk_size / to_vec", &input, false, &format!("panic {p}")),
                    Ok(None) | Ok(Some(Err(_))) => ctx.stat("illegal_chunk_size:refused"),
                    Ok(Some(Ok(out))) => {
                        let s = real_stream(&out);
                        let legal = s.ends_with(";end") && !s.contains("err");
                        ctx.oracle("writer_emits_legal_framing", "MessageBuilder::partial_chunk_size / to_vec", &input, legal, &format!("written stream splits as {}", &s[..s.len().min(120)]));
                        ctx.stat("illegal_chunk_size:accepted");
                    }
                }
            }
        }
    }
}

/// packets the message reader skips (Padding, Marker, unassigned non-critical, experimental), of body
/// lengths around the reader's 8 KiB buffer and beyond, fixed and partial framing, whose bodies carry
/// well-formed packets of their own (a forged literal packet, then a Padding header that covers exactly
/// the genuine data packet): the message is the genuine one or an error, never the embedded one
fn run_long_skipped(ctx: &mut Ctx) {
    use pgp::composed::Message;
    let site = "Message::from_bytes / from_reader + read_to_end (skipped packets in front of, between and behind the data)";
    let genuine = crate::frame::frame_fixed(true, 11, 1, &[&[b'b', 0, 0, 0, 0, 0][..], b"genuine"].concat()).expect("frame");
    let forged = crate::frame::frame_fixed(true, 11, 1, &[&[b'b', 0, 0, 0, 0, 0][..], b"forged"].concat()).expect("frame");
    let lens: Vec<usize> = if ctx.thorough() {
        vec![0, 1, 191, 192, 8191, 8192, 8193, 8192 + 64, 16383, 16384, 16385, 20000, 65536, 70000, 200_000]
    } else {
        vec![0, 191, 8191, 8192, 8193, 8192 + 64, 16384, 16385, 20000, 70000]
    };
    for tag in [21u8, 10, 40, 60, 63] {
        for &len in &lens {
            for at in [0usize, 8192, 16384, len.saturating_sub(40)] {
                // body: fill, with (forged literal ‖ Padding header covering the genuine packet) at `at`,
                // placed so that the embedded Padding header is the last thing in the body
                let cover = [vec![0xC0 | 21, genuine.len() as u8]].concat();
                let embedded = [&forged[..], &cover[..]].concat();
                let mut body = vec![0x55u8; len];
                let embed = at + embedded.len() <= len;
                if embed {
                    // the embedded pair sits at `at`; the body is cut right behind it
                    body.truncate(at + embedded.len());
                    body[at..].copy_from_slice(&embedded);
                } else if at != 0 {
                    continue;
                }
                if tag == 10 && !embed {
                    body = b"PGP".to_vec();
                }
                for framing in ["fixed", "partial"] {
                    let skipped = if framing == "fixed" {
                        crate::frame::frame_fixed(true, tag, if body.len() < 192 { 1 } else if body.len() < 8384 { 2 } else { 5 }, &body)
                    } else {
                        // partial chunks of 512 octets (power 9) and a final length
                        if body.len() < 512 { continue }
                        let k = body.len() / 512;
                        crate::frame::frame_partial(tag, &vec![9u8; k.min(40)], &body)
                    };
                    let Some(skipped) = skipped else { continue };
                    for place in ["before", "after", "both"] {
                        let msg = match place {
                            "before" => [&skipped[..], &genuine[..]].concat(),
                            "after" => [&genuine[..], &skipped[..]].concat(),
                            _ => [&skipped[..], &genuine[..], &skipped[..]].concat(),
                        };
                        for reader in ["slice", "bufreader64"] {
                            let r = guarded(|| {
                                let mut out = Vec::new();
                                if reader == "slice" {
                                    let mut m = Message::from_bytes(&msg[..]).map_err(|e| e.to_string())?;
                                    m.read_to_end(&mut out).map_err(|e| e.to_string())?;
                                } else {
                                    let src = std::io::BufReader::with_capacity(64, std::io::Cursor::new(msg.clone()));
                                    let (mut m, _) = Message::from_reader(src).map_err(|e| e.to_string())?;
                                    m.read_to_end(&mut out).map_err(|e| e.to_string())?;
                                }
                                Ok::<Vec<u8>, String>(out)
                            });
                            let (ok, detail) = match &r {
                                Ok(Ok(v)) => (v == b"genuine", format!("ok:{}", String::from_utf8_lossy(&v[..v.len().min(40)]))),
                                Ok(Err(e)) => (true, format!("err:{}", &e[..e.len().min(80)])),
                                Err(_) => (false, "panic".into()),
                            };
                            ctx.stat(&format!("long_skipped:{}", detail.split(':').next().unwrap_or("")));
                            ctx.oracle("skipped_packet_not_missplit", site, &format!("tag={tag} body_len={} embedded_at={} framing={framing} place={place} reader={reader} msg_len={}", body.len(), if embed { at as i64 } else { -1 }, msg.len()), ok, &detail);
                            // a Padding / unassigned / experimental packet of any legal framing is skipped, not refused
                            if tag != 10 && matches!(&r, Ok(Err(_))) {
                                ctx.stat("long_skipped:refused");
                            }
                        }
                    }
                }
            }
        }
    }
}

pub fn run(ctx: &mut Ctx) {
    run_long_skipped(ctx);
    run_illegal_chunk_sizes(ctx);
    run_fixed_generator(ctx);
    run_truncated_composed(ctx);
    run_header_writeback(ctx);
    run_esk_leftovers(ctx);
    run_from_file_lengths(ctx);
    run_streams(ctx);
    let lens: Vec<usize> = if ctx.thorough() {
        vec![0, 1, 2, 190, 191, 192, 193, 255, 256, 257, 511, 512, 513, 8383, 8384, 8385, 65535, 65536, 65537, 70000]
    } else {
        vec![0, 1, 191, 192, 193, 255, 256, 8383, 8384, 65535, 65536, 70000]
    };
    // fixed + indeterminate: all tags x formats x forms x boundary lengths
    let mut seed = 0usize;
    for tag in 0u8..64 {
        for fmt in [0u8, 1] {
            if fmt == 0 && tag >= 16 {
                continue;
            }
            let forms: &[u8] = if fmt == 1 { &[1, 2, 5] } else { &[0, 1, 2] };
            for &form in forms {
                for &len in &lens {
                    if !ctx.thorough() && len > 9000 && !(tag == 11 || tag == 2 || tag == 6) {
                        continue;
                    }
                    seed += 1;
                    for (rest, trunc) in [(0usize, 0usize), (5, 0), (0, 1), (5, 7)] {
                        if trunc > 0 && seed % 3 != 0 {
                            continue;
                        }
                        run_desc(ctx, &Desc { fmt, tag, kind: "fixed", form, segs: vec![], seed, len, rest, trunc });
                    }
                }
            }
            if fmt == 0 {
                for len in [0usize, 1, 300, 9000] {
                    seed += 1;
                    run_desc(ctx, &Desc { fmt, tag, kind: "indet", form: 0, segs: vec![], seed, len, rest: 0, trunc: 0 });
                }
            }
        }
    }
    // the writer on packets built through the public API, at every length-encoding boundary, in
    // both header formats: the header must announce exactly the body that follows
    for (vi, ver) in [pgp::types::PacketHeaderVersion::Old, pgp::types::PacketHeaderVersion::New].into_iter().enumerate() {
        for len in [0usize, 1, 2, 190, 191, 192, 193, 254, 255, 256, 257, 8382, 8383, 8384, 8385, 65534, 65535, 65536, 65537, 70000] {
            let id = "u".repeat(len);
            let r = guarded(|| {
                use pgp::packet::PacketTrait;
                let uid = pgp::packet::UserId::from_str(ver, &id).ok()?;
                let mut out = Vec::new();
                uid.to_writer_with_header(&mut out).ok()?;
                Some((out, uid.write_len_with_header()))
            });
            let req = format!("writer fmt={vi} tag=13 len={len}");
            match r {
                Ok(Some((mut written, announced))) => {
                    let wlen = written.len();
                    written.extend_from_slice(b"\xCA\x03PGP");
                    let (a1, g1) = real_deframe(&written);
                    let ok = matches!(&g1, Some((b, r1)) if b.len() == len && b.iter().all(|c| *c == b'u') && r1.as_slice() == b"\xCA\x03PGP");
                    ctx.oracle("writer_emits_legal_framing", "UserId::to_writer_with_header (PacketHeader::from_parts + Serialize)", &req, ok && announced == wlen,
                        &format!("written {} announced {announced} len {wlen} reparse {}", hx(&written[..written.len().min(12)]), &a1[..a1.len().min(60)]));
                    // correspondence: the model's deframe on the written header + a short body digest
                    if len <= 1000 {
                        ctx.case(format!("deframe data={}", hx(&written)), a1);
                    }
                }
                _ => ctx.oracle("writer_emits_legal_framing", "UserId::to_writer_with_header", &req, false, "could not build / write"),
            }
            ctx.stat("writer_boundary");
        }
    }
    // partial: legal and illegal chunk sequences
    let n_partial = ctx.pick(1500, 150000);
    for i in 0..n_partial {
        let tag: u8 = if i % 4 == 3 { ctx.rng.gen_range(0..64) } else { DATA_TAGS[i % 5] };
        let first: u8 = match i % 7 {
            0 => ctx.rng.gen_range(0..9),       // illegal first chunk
            1 => 9,
            2 => 10,
            3 => ctx.rng.gen_range(9..=16),
            _ => 9,
        };
        let nsegs = ctx.rng.gen_range(1..=5usize);
        let mut segs = vec![first];
        for _ in 1..nsegs {
            let k = match ctx.rng.gen_range(0..4) { 0 => ctx.rng.gen_range(0..=4u8), 1 => 9, 2 => ctx.rng.gen_range(5..=13), _ => ctx.rng.gen_range(0..=16) };
            segs.push(k);
        }
        let sum: usize = segs.iter().map(|&k| 1usize << k).sum();
        if sum > 200_000 {
            continue;
        }
        let tail = [0usize, 0, 1, 191, 192, 511, 8384][ctx.rng.gen_range(0..7)];
        let (rest, trunc) = match i % 5 { 0 => (5, 0), 1 => (0, ctx.rng.gen_range(1..40usize)), 2 => (3, ctx.rng.gen_range(4..600usize)), _ => (0, 0) };
        run_desc(ctx, &Desc { fmt: 1, tag, kind: "partial", form: 0, segs, seed: 1000 + i, len: sum + tail, rest, trunc });
    }
    // declared partial chunk of 2^30 over a short body (reject class; never allocates it)
    for tag in DATA_TAGS {
        let mut s = vec![0xC0 | tag, 224 + 30];
        s.extend_from_slice(&pattern(7, 600));
        raw(ctx, &s, "declared_2^30");
    }
    // raw: mutated small framings and random bytes
    let n_raw = ctx.pick(3000, 400000);
    for i in 0..n_raw {
        let data: Vec<u8> = if i % 3 == 0 {
            let n = ctx.rng.gen_range(0..24);
            crate::gen::random_bytes(&mut ctx.rng, n)
        } else {
            let body = pattern(i, ctx.rng.gen_range(0..40usize));
            let tag = ctx.rng.gen_range(0..64u8);
            let mut s = if i % 2 == 0 {
                frame::frame_fixed(true, tag, [1u8, 5][i % 2], &body).unwrap_or_default()
            } else {
                frame::frame_partial(DATA_TAGS[i % 5], &[ctx.rng.gen_range(0..4u8), ctx.rng.gen_range(0..3u8)], &pattern(i, 30)).unwrap_or_default()
            };
            if !s.is_empty() {
                let nflip = ctx.rng.gen_range(1..3);
                for _ in 0..nflip {
                    let p = ctx.rng.gen_range(0..s.len().min(8));
                    s[p] ^= 1 << ctx.rng.gen_range(0..8);
                }
            }
            s
        };
        raw(ctx, &data, "mutated_or_random");
    }
    // library-written streams: MessageBuilder literal with partial chunking
    let chunks: &[u32] = if ctx.thorough() { &[9, 10, 11, 13] } else { &[9, 10] };
    for &k in chunks {
        let c = 1usize << k;
        let mut sizes: Vec<usize> = vec![0, 1, c - 7, c - 6, c - 5, c - 1, c, c + 1, 2 * c - 6, 2 * c - 5, 2 * c, 2 * c + 1, 3 * c - 6, 3 * c + 3];
        if ctx.thorough() {
            sizes.extend((0..(2 * c + 8)).step_by(37));
        }
        for (j, &n) in sizes.iter().enumerate() {
            let payload = pattern(50 + j, n);
            let out = guarded(|| {
                let src = ScheduledReader::new(&payload, &[j + 1, 3, 1000]);
                let mut b = MessageBuilder::from_reader("", src);
                b.partial_chunk_size(1u32 << k).ok()?;
                b.to_vec(rand::thread_rng()).ok()
            });
            let Ok(Some(out)) = out else {
                ctx.oracle("builder_emits", "MessageBuilder::to_vec", &format!("k={k} n={n}"), false, "builder failed");
                continue;
            };
            // literal header is the first 6 bytes of the body: mode, name len (0), date
            let (ans, got) = real_deframe(&out);
            let ok = matches!(&got, Some((b, r)) if b.len() == n + 6 && b[6..] == payload[..] && r.is_empty());
            ctx.oracle("written_stream_read_back", "MessageBuilder literal partial", &format!("k={k} n={n}"), ok, &ans);
            if out.len() <= 3000 {
                ctx.case(format!("deframe data={}", hx(&out)), ans.clone());
            }
            if let Some((b, _)) = &got {
                let hdr = &b[..6.min(b.len())];
                ctx.case(
                    format!("emit tag=11 k={k} hdr={} body={}:{}", hx(hdr), 50 + j, n),
                    format!("ok:{}", cksum(&out)),
                );
            }
            ctx.stat("written:literal_partial");
        }
    }
    // packet STREAMS: a packet the parser refuses (reserved / unassigned critical tags, a body it cannot
    // parse) must still be skipped as a whole: what the iterator yields afterwards are the packets
    // that follow it, never pieces of its body
    {
        let marker = b"\xCA\x03PGP".to_vec();
        let inner_a = crate::frame::frame_fixed(true, 13, 1, b"smuggled").unwrap_or_default();
        let inner_b = crate::frame::frame_fixed(true, 10, 1, b"PGP").unwrap_or_default();
        let mut bodies: Vec<Vec<u8>> = vec![vec![], vec![0x01], [inner_a.clone(), inner_b.clone()].concat(), inner_b.clone(), pattern(3, 40)];
        bodies.push([inner_b.clone(), inner_b.clone(), inner_b.clone()].concat());
        for tag in 0u8..64 {
            for fmt in [0u8, 1] {
                if fmt == 0 && tag >= 16 {
                    continue;
                }
                for (bi, body) in bodies.iter().enumerate() {
                    let Some(mid) = crate::frame::frame_fixed(fmt == 1, tag, if fmt == 1 { 1 } else { 0 }, body) else { continue };
                    let uid = crate::frame::frame_fixed(true, 13, 1, b"last").unwrap_or_default();
                    let stream = [marker.clone(), mid, uid.clone()].concat();
                    let r = guarded(|| {
                        let mut items: Vec<String> = Vec::new();
                        for p in PacketParser::new(&stream[..]) {
                            items.push(match p {
                                Ok(p) => format!("ok:{}", u8::from(pgp::packet::PacketTrait::packet_header(&p).tag())),
                                Err(_) => "err".to_string(),
                            });
                            if items.len() > 16 {
                                break;
                            }
                        }
                        items
                    });
                    let input = format!("stream marker | tag={tag} fmt={fmt} body#{bi}={} | userid 'last'", hx(body));
                    match r {
                        Ok(items) => {
                            // exactly three items; the first is the marker, the last is the user id
                            let ok = items.len() == 3 && items[0] == "ok:10" && items[2] == "ok:13";
                            ctx.oracle("refused_packet_skipped_whole", "PacketParser iterator over a stream", &input, ok, &items.join(","));
                        }
                        Err(p) => ctx.oracle("refused_packet_skipped_whole", "PacketParser iterator over a stream", &input, false, &format!("panic: {p}")),
                    }
                    ctx.stat("stream:middle_packet");
                }
            }
        }
    }
    // large chunk sizes (1, 2, 4 MiB; the format allows up to 2^30): the length octet and the octets
    // that follow must agree there too (oracle only: the streams are megabytes long)
    let big: &[u32] = if ctx.thorough() { &[20, 21, 22] } else { &[21] };
    for &k in big {
        let c = 1usize << k;
        let sizes: Vec<usize> = if ctx.thorough() { vec![c / 2 - 6, c / 2, c - 7, c - 6, c - 5, c, 2 * c - 6, 2 * c + 3] } else { vec![c / 2 - 6, c - 6, c + 1] };
        for (j, &n) in sizes.iter().enumerate() {
            let payload = pattern(90 + j, n);
            let out = guarded(|| {
                let src = ScheduledReader::new(&payload, &[65536, 1, 1 << 20]);
                let mut b = MessageBuilder::from_reader("", src);
                b.partial_chunk_size(1u32 << k).ok()?;
                b.to_vec(rand::thread_rng()).ok()
            });
            let Ok(Some(out)) = out else {
                ctx.oracle("builder_emits", "MessageBuilder::to_vec", &format!("k={k} n={n}"), false, "builder failed");
                continue;
            };
            let (ans, got) = real_deframe(&out);
            let ok = matches!(&got, Some((b, r)) if b.len() == n + 6 && b[6..] == payload[..] && r.is_empty());
            ctx.oracle("written_stream_read_back", "MessageBuilder literal partial (large chunk size)", &format!("k={k} n={n}"), ok, &ans[..ans.len().min(120)]);
            // independent walk of the framing: every length octet is followed by that many octets
            let mut pos = 1usize;
            let mut total = 0usize;
            let mut legal = !out.is_empty() && out[0] == 0xCB;
            while legal && pos < out.len() {
                let o = out[pos] as usize;
                let (len, hl, last) = if o < 192 { (o, 1, true) } else if o < 224 {
                    if pos + 1 >= out.len() { legal = false; break; }
                    (((o - 192) << 8) + out[pos + 1] as usize + 192, 2, true)
                } else if o < 255 { (1usize << (o & 31), 1, false) } else {
                    if pos + 4 >= out.len() { legal = false; break; }
                    (u32::from_be_bytes([out[pos + 1], out[pos + 2], out[pos + 3], out[pos + 4]]) as usize, 5, true)
                };
                if pos + hl + len > out.len() { legal = false; break; }
                total += len;
                pos += hl + len;
                if last { break; }
            }
            ctx.oracle("writer_emits_legal_framing", "MessageBuilder literal partial (large chunk size)", &format!("k={k} n={n}"), legal && pos == out.len() && total == n + 6, &format!("walked {pos} of {} octets, body {total}", out.len()));
            ctx.stat("written:literal_partial_large");
        }
    }
}
