//! ECDH (KDF + AES key wrap over the padded key), X25519 / X448 (HKDF + AES key wrap), the
//! two-octet checksum and the session-key encoding inside PKESK values.

use std::io::Write;

use pgp::composed::{EncryptionCaps, KeyType, RawSessionKey, SecretKeyParamsBuilder, SubkeyParamsBuilder};
use pgp::crypto::ecc_curve::ECCCurve;
use pgp::crypto::hash::HashAlgorithm;
use pgp::crypto::sym::SymmetricKeyAlgorithm;
use pgp::crypto::{checksum, ecdh, x25519, x448};
use pgp::packet::PublicKeyEncryptedSessionKey;
use pgp::types::{EcdhKdfType, EcdhPublicParams, KeyDetails, KeyVersion, PkeskBytes, PlainSecretParams, PublicParams, SecretParams, X448PublicParams};
use rand::{Rng, RngCore, SeedableRng};
use rand_chacha::ChaCha8Rng;

use super::{job, plan_answer, rfc, run_jobs, Job};
use crate::ctx::{guarded, hx, hx_list, Ctx};
use crate::gen::{random_bytes, random_chunking};
use crate::plan::{self, Model};

#[derive(Clone, Copy, PartialEq, Debug)]
enum Curve {
    Cv25519,
    P256,
    P384,
    P521,
}

impl Curve {
    fn ecc(self) -> ECCCurve {
        match self {
            Curve::Cv25519 => ECCCurve::Curve25519Legacy,
            Curve::P256 => ECCCurve::P256,
            Curve::P384 => ECCCurve::P384,
            Curve::P521 => ECCCurve::P521,
        }
    }
    /// RFC 9580 §9.2 table of curve OIDs (hex, without the length octet)
    fn rfc_oid(self) -> &'static str {
        match self {
            Curve::Cv25519 => "2b060104019755010501",
            Curve::P256 => "2a8648ce3d030107",
            Curve::P384 => "2b81040022",
            Curve::P521 => "2b81040023",
        }
    }
}

/// recipient key pair made with the curve crates directly; returns (public params for rpgp,
/// closure computing the shared secret from the ephemeral public point rpgp emitted)
#[allow(clippy::type_complexity)]
fn recipient(curve: Curve, rng: &mut ChaCha8Rng, hash: u8, sym: u8) -> (EcdhPublicParams, Box<dyn Fn(&[u8]) -> Option<Vec<u8>>>) {
    let h = HashAlgorithm::from(hash);
    let a = SymmetricKeyAlgorithm::from(sym);
    match curve {
        Curve::Cv25519 => {
            let mut b = [0u8; 32];
            rng.fill_bytes(&mut b);
            let sec = x25519_dalek::StaticSecret::from(b);
            let p = x25519_dalek::PublicKey::from(&sec);
            (
                EcdhPublicParams::Curve25519Legacy { p, hash: h, alg_sym: a, ecdh_kdf_type: EcdhKdfType::Native },
                Box::new(move |pt: &[u8]| {
                    let arr: [u8; 32] = pt.get(1..)?.try_into().ok()?;
                    Some(sec.diffie_hellman(&x25519_dalek::PublicKey::from(arr)).as_bytes().to_vec())
                }),
            )
        }
        Curve::P256 => {
            let sec = p256::SecretKey::random(rng);
            let p = sec.public_key();
            (
                EcdhPublicParams::P256 { p, hash: h, alg_sym: a },
                Box::new(move |pt: &[u8]| {
                    let e = p256::PublicKey::from_sec1_bytes(pt).ok()?;
                    Some(p256::ecdh::diffie_hellman(sec.to_nonzero_scalar(), e.as_affine()).raw_secret_bytes().to_vec())
                }),
            )
        }
        Curve::P384 => {
            let sec = p384::SecretKey::random(rng);
            let p = sec.public_key();
            (
                EcdhPublicParams::P384 { p, hash: h, alg_sym: a },
                Box::new(move |pt: &[u8]| {
                    let e = p384::PublicKey::from_sec1_bytes(pt).ok()?;
                    Some(p384::ecdh::diffie_hellman(sec.to_nonzero_scalar(), e.as_affine()).raw_secret_bytes().to_vec())
                }),
            )
        }
        Curve::P521 => {
            let sec = p521::SecretKey::random(rng);
            let p = sec.public_key();
            (
                EcdhPublicParams::P521 { p, hash: h, alg_sym: a },
                Box::new(move |pt: &[u8]| {
                    let e = p521::PublicKey::from_sec1_bytes(pt).ok()?;
                    Some(p521::ecdh::diffie_hellman(sec.to_nonzero_scalar(), e.as_affine()).raw_secret_bytes().to_vec())
                }),
            )
        }
    }
}

fn derive(z: &[u8], esk: &[u8], curve: Curve, hash: u8, sym: u8, fp: &[u8]) -> Result<Vec<u8>, String> {
    match guarded(|| ecdh::derive_session_key(z, esk, esk.len(), curve.ecc(), HashAlgorithm::from(hash), SymmetricKeyAlgorithm::from(sym), fp)) {
        Ok(Ok(v)) => Ok(v.to_vec()),
        Ok(Err(e)) => Err(e.to_string()),
        Err(p) => Err(format!("panic:{p}")),
    }
}

fn run_ecdh(ctx: &mut Ctx, jobs: &mut Vec<Job>) {
    let curves = [Curve::Cv25519, Curve::P256, Curve::P384, Curve::P521];
    let hashes: &[u8] = &[8, 9, 10, 11, 12, 14, 2, 1, 0];
    let syms: &[u8] = &[7, 8, 9, 2, 13, 0];
    let plens: &[usize] = &[19, 27, 35, 18, 26, 34, 1, 7, 8, 9, 16, 40, 100, 239, 240, 0];
    let mut i = 0usize;
    for &curve in &curves {
        let oid = curve.ecc().oid();
        ctx.oracle("ecdh_curve_oid_rfc", "ECCCurve::oid", &format!("{curve:?}"), hex::encode(&oid) == curve.rfc_oid(), &hex::encode(&oid));
        for &hash in hashes {
            for &sym in syms {
                i += 1;
                let dense = ctx.thorough() || (hash >= 8 && hash <= 10 && (7..=9).contains(&sym));
                let n_rep = if ctx.thorough() { 4 } else { 1 };
                let n_p = (if dense { 3 } else { 1 }) * n_rep;
                for j in 0..n_p {
                    let plen = plens[(i * 3 + j) % plens.len()];
                    let plain = random_bytes(&mut ctx.rng, plen);
                    let fp = random_bytes(&mut ctx.rng, if i % 2 == 0 { 20 } else { 32 });
                    let mut krng = ChaCha8Rng::seed_from_u64(ctx.rng.gen());
                    let (params, dh) = recipient(curve, &mut krng, hash, sym);
                    let erng = ChaCha8Rng::seed_from_u64(ctx.rng.gen());
                    let real = match guarded(|| ecdh::encrypt(erng, &params, &fp, &plain)) {
                        Ok(Ok(PkeskBytes::Ecdh { public_point, encrypted_session_key })) => Ok((public_point.as_ref().to_vec(), encrypted_session_key.to_vec())),
                        Ok(Ok(_)) => Err("other values".to_string()),
                        Ok(Err(e)) => Err(e.to_string()),
                        Err(p) => Err(format!("panic:{p}")),
                    };
                    ctx.stat(&format!("ecdh:{curve:?}:{}", if real.is_ok() { "ok" } else { "refused" }));
                    if real.as_ref().err().is_some_and(|e| e.starts_with("panic")) {
                        ctx.oracle("ecdh_no_panic", "ecdh::encrypt", &format!("{curve:?} hash={hash} sym={sym} plain={}", hx(&plain)), false, "panic");
                    }
                    // shared secret: from the ephemeral point rpgp emitted, or a random one when rpgp refused
                    let z = match &real {
                        Ok((pt, _)) => dh(pt).unwrap_or_default(),
                        Err(_) => random_bytes(&mut ctx.rng, if curve == Curve::P521 { 66 } else { 32 }),
                    };
                    // param, observed directly
                    let par = ecdh::build_ecdh_param(&oid, SymmetricKeyAlgorithm::from(sym), HashAlgorithm::from(hash), &fp);
                    let preq = format!("ecdh.param oid={} sym={sym} hash={hash} fp={}", hx(&oid), hx(&fp));
                    ctx.case(preq.clone(), format!("ok:{}", hx(&par)));
                    ctx.oracle("ecdh_param_rfc_bytes", "ecdh::build_ecdh_param", &preq, par == rfc::ecdh_param(&oid, sym, hash, &fp), &hx(&par));
                    // KDF, observed directly
                    let ks = rfc::key_size(sym);
                    let kek = match guarded(|| ecdh::kdf(HashAlgorithm::from(hash), &z, ks, &par)) {
                        Ok(Ok(k)) => Ok(k),
                        _ => Err("kdf".to_string()),
                    };
                    {
                        let kek2 = kek.clone();
                        jobs.push(job(format!("ecdh.kek hash={hash} z={} len={ks} param={}", hx(&z), hx(&par)), move |ctx, req, ans, _| {
                            ctx.case(req.to_string(), plan_answer(ans, &kek2.clone().map(|k| vec![k])).0);
                        }));
                    }
                    let args = format!("oid={} hash={hash} sym={sym} fp={} z={} plain={}", hx(&oid), hx(&fp), hx(&z), hx(&plain));
                    let want = rfc::ecdh_wrap(&oid, hash, sym, &fp, &z, &plain);
                    if let Ok((_, esk)) = &real {
                        ctx.oracle("ecdh_rfc_bytes", "ecdh::encrypt", &args, want.as_ref().ok() == Some(esk), &hx(esk));
                        // padding, observed by unwrapping rpgp's output under rpgp's own KEK
                        if let Ok(k) = &kek {
                            if let Ok(padded) = plan::kw_unwrap(k, esk) {
                                ctx.case(format!("ecdh.pad plain={}", hx(&plain)), format!("ok:{}", hx(&padded)));
                                let padn = padded.len() - plain.len();
                                let ok = padded.len() % 8 == 0 && (1..=8).contains(&padn) && padded[..plain.len()] == plain[..] && padded[plain.len()..].iter().all(|b| *b as usize == padn);
                                ctx.oracle("ecdh_padding_pkcs5", "ecdh::pad (through encrypt)", &args, ok, &hx(&padded));
                            }
                        }
                    }
                    // RFC-built wrapped key is opened by rpgp (derive_session_key has no hash restriction)
                    if let Ok(w) = &want {
                        if !plain.is_empty() {
                            let got = derive(&z, w, curve, hash, sym, &fp);
                            ctx.oracle("ecdh_rfc_wrap_opens", "ecdh::derive_session_key", &args, got.as_ref().ok() == Some(&plain), &format!("{got:?}"));
                        }
                    }
                    let real_esk = real.clone().map(|(_, e)| vec![e]);
                    jobs.push(job(format!("ecdh.wrap enc=1 {args}"), move |ctx, req, ans, _| {
                        ctx.case(req.to_string(), plan_answer(ans, &real_esk).0);
                    }));
                    let (z2, fp2, plain2) = (z.clone(), fp.clone(), plain.clone());
                    jobs.push(job(format!("ecdh.wrap enc=0 {args}"), move |ctx, req, ans, _| {
                        let (imp, val) = plan_answer(ans, &Ok(vec![]));
                        match val {
                            Some(v) => {
                                let got = derive(&z2, &v, curve, hash, sym, &fp2);
                                // an empty key is refused by the reader ("empty unpadded key is not valid")
                                let ok = if plain2.is_empty() { got.is_err() } else { got.as_ref().ok() == Some(&plain2) };
                                ctx.case(req.to_string(), if ok { ans.to_string() } else { format!("impl-read:{got:?}").replace(' ', "_") });
                            }
                            None => {
                                // no value: the model refuses (unknown KDF hash), or the plan fails inside a primitive
                                // (a KEK of a size AES-KW does not take).  rpgp's reader must refuse whatever it is given.
                                let got = derive(&z2, &[0u8; 24], curve, hash, sym, &fp2);
                                ctx.case(req.to_string(), if got.is_err() { ans.to_string() } else { imp });
                            }
                        }
                    }));
                }
            }
        }
    }
    // unpadding as the reader does it: arbitrary unwrapped contents (direct)
    let n_unpad = ctx.pick(2000, 20000);
    for i in 0..n_unpad {
        let blocks = ctx.rng.gen_range(1..=6usize);
        let len = blocks * 8;
        let mut d = random_bytes(&mut ctx.rng, len);
        let kind = i % 8;
        match kind {
            0 | 1 => { let p = ctx.rng.gen_range(1..=8usize.min(len)); for b in &mut d[len - p..] { *b = p as u8; } }        // PKCS5
            2 => { let p = ctx.rng.gen_range(1..=len); for b in &mut d[len - p..] { *b = p as u8; } }                          // long padding, up to everything
            3 => { d[len - 1] = 0; }                                                                                            // pad value 0
            4 => { d[len - 1] = (len + ctx.rng.gen_range(1..20usize)) as u8; }                                                 // pad value beyond the length
            5 => { let p = ctx.rng.gen_range(2..=8usize.min(len)); for b in &mut d[len - p..] { *b = p as u8; } d[len - p] ^= 1; } // one padding octet wrong
            6 => { for b in d.iter_mut() { *b = len as u8; } }                                                                 // nothing but padding
            _ => {}
        }
        let (hash, sym) = ([8u8, 9, 10][i % 3], [7u8, 8, 9][(i / 3) % 3]);
        let z = random_bytes(&mut ctx.rng, 32);
        let fp = random_bytes(&mut ctx.rng, 20);
        let oid = Curve::P256.ecc().oid();
        let par = ecdh::build_ecdh_param(&oid, SymmetricKeyAlgorithm::from(sym), HashAlgorithm::from(hash), &fp);
        let Ok(kek) = ecdh::kdf(HashAlgorithm::from(hash), &z, rfc::key_size(sym), &par) else { continue };
        let Ok(esk) = plan::kw_wrap(&kek, &d) else { continue };
        let got = derive(&z, &esk, Curve::P256, hash, sym, &fp);
        ctx.stat(&format!("ecdh.unpad:kind{kind}:{}", if got.is_ok() { "ok" } else { "err" }));
        let req = format!("ecdh.unpad data={}", hx(&d));
        ctx.case(req.clone(), match &got { Ok(v) => format!("ok:{}", hx(v)), Err(_) => "err".to_string() });
        // RFC 9580 §11.5 / RFC 8018: accepted iff the tail is p octets of value p (1 <= p, something left)
        let p = d[len - 1] as usize;
        let valid = p >= 1 && p < len && d[len - p..].iter().all(|b| *b as usize == p);
        let ok = if valid { got.as_ref().ok() == Some(&d[..len - p].to_vec()) } else { got.is_err() };
        // a zero padding octet is reported under its own name (one defect, one replay)
        let name = if p == 0 { "ecdh_unpad_rejects_zero_pad_octet" } else { "ecdh_unpad_accepts_exactly_pkcs5" };
        ctx.oracle(name, "ecdh::derive_session_key", &format!("hash={hash} sym={sym} z={} fp={} esk={}", hx(&z), hx(&fp), hx(&esk)), ok, &format!("{got:?}"));
    }
}

fn run_x(ctx: &mut Ctx, jobs: &mut Vec<Job>) {
    let n = ctx.pick(120, 1000);
    for i in 0..n {
        let plen = [16usize, 24, 32, 40, 8, 17, 0, 33][i % 8];
        let plain = random_bytes(&mut ctx.rng, plen);
        // ---- X25519
        {
            let mut b = [0u8; 32];
            ctx.rng.fill_bytes(&mut b);
            let sec = x25519_dalek::StaticSecret::from(b);
            let rcpt = x25519_dalek::PublicKey::from(&sec);
            let erng = ChaCha8Rng::seed_from_u64(ctx.rng.gen());
            let real = match guarded(|| x25519::encrypt(erng, &rcpt, &plain)) {
                Ok(Ok(v)) => Ok(v),
                Ok(Err(e)) => Err(e.to_string()),
                Err(p) => Err(format!("panic:{p}")),
            };
            ctx.stat(&format!("x25519:{}", if real.is_ok() { "ok" } else { "refused" }));
            let (eph, z) = match &real {
                Ok((e, _)) => (*e, *sec.diffie_hellman(&x25519_dalek::PublicKey::from(*e)).as_bytes()),
                Err(_) => {
                    let mut e = [0u8; 32];
                    ctx.rng.fill_bytes(&mut e);
                    let mut z = [0u8; 32];
                    ctx.rng.fill_bytes(&mut z);
                    (e, z)
                }
            };
            let rc = *rcpt.as_bytes();
            let base = format!("eph={} rcpt={} z={}", hx(&eph), hx(&rc), hx(&z));
            let kek = match guarded(|| x25519::hkdf(&eph, &rc, &z)) {
                Ok(Ok(k)) => Ok(vec![k.to_vec()]),
                _ => Err("hkdf".to_string()),
            };
            jobs.push(job(format!("x25519.kek {base}"), move |ctx, req, ans, _| ctx.case(req.to_string(), plan_answer(ans, &kek).0)));
            let args = format!("{base} plain={}", hx(&plain));
            let want = rfc::x25519_wrap(&eph, &rc, &z, &plain);
            if let Ok((_, w)) = &real {
                ctx.oracle("x25519_rfc_bytes", "x25519::encrypt", &args, want.as_ref().ok() == Some(w), &hx(w));
            }
            if let Ok(w) = &want {
                let got = guarded(|| x25519::derive_session_key(eph, rc, z, w).map(|v| v.to_vec()));
                // (an empty key is outside RFC 3394 and is refused by the reader)
                let ok = if plain.is_empty() { !matches!(&got, Ok(Ok(_))) } else { matches!(&got, Ok(Ok(v)) if *v == plain) };
                ctx.oracle("x25519_rfc_wrap_opens", "x25519::derive_session_key", &args, ok, "");
            }
            let real_w = real.clone().map(|(_, w)| vec![w]);
            let plain2 = plain.clone();
            jobs.push(job(format!("x25519.wrap {args}"), move |ctx, req, ans, _| {
                let (imp, val) = plan_answer(ans, &real_w);
                if let Some(v) = &val {
                    let got = guarded(|| x25519::derive_session_key(eph, rc, z, v).map(|x| x.to_vec()));
                    let ok = if plain2.is_empty() { !matches!(&got, Ok(Ok(_))) } else { matches!(&got, Ok(Ok(x)) if *x == plain2) };
                    ctx.oracle("x25519_plan_value_opens", "x25519::derive_session_key", req, ok, "");
                }
                ctx.case(req.to_string(), imp);
            }));
        }
        // ---- X448
        {
            let mut b = [0u8; 56];
            ctx.rng.fill_bytes(&mut b);
            let sec = cx448::x448::Secret::from(b);
            let rcpt = cx448::x448::PublicKey::from(&sec);
            let erng = ChaCha8Rng::seed_from_u64(ctx.rng.gen());
            let params = X448PublicParams { key: rcpt };
            let real = match guarded(|| x448::encrypt(erng, &params, &plain)) {
                Ok(Ok(v)) => Ok(v),
                Ok(Err(e)) => Err(e.to_string()),
                Err(p) => Err(format!("panic:{p}")),
            };
            ctx.stat(&format!("x448:{}", if real.is_ok() { "ok" } else { "refused" }));
            let (eph, z): ([u8; 56], [u8; 56]) = match &real {
                Ok((e, _)) => {
                    let epk = cx448::x448::PublicKey::from_bytes(e).expect("ephemeral");
                    (*e, *sec.as_diffie_hellman(&epk).expect("dh").as_bytes())
                }
                Err(_) => {
                    let mut e = [0u8; 56];
                    ctx.rng.fill_bytes(&mut e);
                    let mut z = [0u8; 56];
                    ctx.rng.fill_bytes(&mut z);
                    (e, z)
                }
            };
            let rc = *rcpt.as_bytes();
            let base = format!("eph={} rcpt={} z={}", hx(&eph), hx(&rc), hx(&z));
            let kek = match guarded(|| x448::hkdf(&eph, &rc, &z)) {
                Ok(Ok(k)) => Ok(vec![k.to_vec()]),
                _ => Err("hkdf".to_string()),
            };
            jobs.push(job(format!("x448.kek {base}"), move |ctx, req, ans, _| ctx.case(req.to_string(), plan_answer(ans, &kek).0)));
            let args = format!("{base} plain={}", hx(&plain));
            let want = rfc::x448_wrap(&eph, &rc, &z, &plain);
            if let Ok((_, w)) = &real {
                ctx.oracle("x448_rfc_bytes", "x448::encrypt", &args, want.as_ref().ok() == Some(w), &hx(w));
            }
            if let Ok(w) = &want {
                let got = guarded(|| x448::derive_session_key(eph, &rc, z, w).map(|v| v.to_vec()));
                // (an empty key is outside RFC 3394 and is refused by the reader)
                let ok = if plain.is_empty() { !matches!(&got, Ok(Ok(_))) } else { matches!(&got, Ok(Ok(v)) if *v == plain) };
                ctx.oracle("x448_rfc_wrap_opens", "x448::derive_session_key", &args, ok, "");
            }
            let real_w = real.clone().map(|(_, w)| vec![w]);
            let plain2 = plain.clone();
            jobs.push(job(format!("x448.wrap {args}"), move |ctx, req, ans, _| {
                let (imp, val) = plan_answer(ans, &real_w);
                if let Some(v) = &val {
                    let got = guarded(|| x448::derive_session_key(eph, &rc, z, v).map(|x| x.to_vec()));
                    let ok = if plain2.is_empty() { !matches!(&got, Ok(Ok(_))) } else { matches!(&got, Ok(Ok(x)) if *x == plain2) };
                    ctx.oracle("x448_plan_value_opens", "x448::derive_session_key", req, ok, "");
                }
                ctx.case(req.to_string(), imp);
            }));
        }
    }
}

fn run_checksum(ctx: &mut Ctx) {
    let n = ctx.pick(600, 6000);
    for i in 0..n {
        let len = [0usize, 1, 16, 24, 32, 255, 256, 257, 1000, 70000][i % 10];
        let mut data = random_bytes(&mut ctx.rng, len);
        if i % 4 == 0 {
            data.iter_mut().for_each(|b| *b = 0xFF); // crosses 65536 at 258 octets
        }
        let v = checksum::calculate_simple(&data);
        let req = format!("sum16 data={}", hx(&data));
        ctx.case(req.clone(), format!("ok:{v}"));
        ctx.oracle("sum16_rfc", "checksum::calculate_simple", &req, v == rfc::sum16(&data), &v.to_string());
        if len <= 1000 {
            let chunks = random_chunking(&mut ctx.rng, &data, 300);
            let mut h = checksum::SimpleChecksum::default();
            for c in &chunks {
                let _ = h.write(c);
            }
            let f = h.finalize();
            ctx.case(format!("sum16c chunks={}", hx_list(&chunks)), format!("ok:{}", u16::from_be_bytes(f)));
        }
    }
}

/// session-key encoding inside PKESK values, observed by unwrapping what
/// `PublicKeyEncryptedSessionKey::from_session_key_v3 / v6` produce for generated keys
fn run_pkesk(ctx: &mut Ctx) {
    for v6 in [false, true] {
        for x in [false, true] {
            if v6 && !x {
                continue; // ECDH over Curve25519Legacy is a v4-only format
            }
            let rng = ChaCha8Rng::seed_from_u64(ctx.rng.gen());
            let ver = if v6 { KeyVersion::V6 } else { KeyVersion::V4 };
            let key = guarded(|| {
                let (prim, sub) = if v6 { (KeyType::Ed25519, KeyType::X25519) } else if x { (KeyType::Ed25519Legacy, KeyType::X25519) } else { (KeyType::Ed25519Legacy, KeyType::ECDH(ECCCurve::Curve25519Legacy)) };
                SecretKeyParamsBuilder::default()
                    .version(ver)
                    .key_type(prim)
                    .can_certify(true)
                    .can_sign(true)
                    .primary_user_id("c12 <c12@example.org>".into())
                    .passphrase(None)
                    .subkey(SubkeyParamsBuilder::default().version(ver).key_type(sub).can_encrypt(EncryptionCaps::All).passphrase(None).build().ok()?)
                    .build()
                    .ok()?
                    .generate(rng)
                    .ok()
            });
            let Ok(Some(key)) = key else {
                ctx.note(&format!("pkesk: key generation failed v6={v6} x25519={x}"));
                continue;
            };
            let Some(sub) = key.secret_subkeys.first() else { continue };
            let subkey = &sub.key;
            let SecretParams::Plain(plain_params) = subkey.secret_params() else { continue };
            for i in 0..ctx.pick(24, 120) {
                let sym = [7u8, 8, 9][i % 3];
                let sk = random_bytes(&mut ctx.rng, rfc::key_size(sym));
                let v3 = !v6 || i % 2 == 0;
                let erng = ChaCha8Rng::seed_from_u64(ctx.rng.gen());
                let pk = subkey.public_key();
                let pkesk = guarded(|| {
                    if v3 {
                        PublicKeyEncryptedSessionKey::from_session_key_v3(erng, &RawSessionKey::from(&sk[..]), SymmetricKeyAlgorithm::from(sym), pk)
                    } else {
                        PublicKeyEncryptedSessionKey::from_session_key_v6(erng, &RawSessionKey::from(&sk[..]), pk)
                    }
                });
                let site = if v3 { "PublicKeyEncryptedSessionKey::from_session_key_v3" } else { "PublicKeyEncryptedSessionKey::from_session_key_v6" };
                let input = format!("v6key={v6} x25519={x} sym={sym} sk={}", hx(&sk));
                let Ok(Ok(pkesk)) = pkesk else {
                    ctx.oracle("pkesk_emits", site, &input, false, "error");
                    continue;
                };
                let Ok(values) = pkesk.values() else { continue };
                match (values, plain_params, subkey.public_key().public_params()) {
                    (PkeskBytes::X25519 { ephemeral, session_key, sym_alg }, PlainSecretParams::X25519(sec), PublicParams::X25519(pp)) => {
                        let s = x25519_dalek::StaticSecret::from(*sec.as_bytes());
                        let z = *s.diffie_hellman(&x25519_dalek::PublicKey::from(*ephemeral)).as_bytes();
                        let rc = *pp.key.as_bytes();
                        let Ok(Ok(kek)) = guarded(|| x25519::hkdf(ephemeral, &rc, &z)) else { continue };
                        let Ok(un) = plan::kw_unwrap(&kek[..], session_key) else {
                            ctx.oracle("pkesk_x25519_unwraps", site, &input, false, "unwrap failed");
                            continue;
                        };
                        // what was encoded: the cipher octet travels in the clear for v3, the key is wrapped bare
                        let observed: Vec<u8> = sym_alg.iter().map(|a| u8::from(*a)).chain(un.iter().copied()).collect();
                        let alg = if v3 { sym.to_string() } else { "-".to_string() };
                        ctx.case(format!("pkesk.plain alg={alg} sk={} ck=0", hx(&sk)), format!("ok:{}", hx(&observed)));
                        // RFC 9580 §5.1.6: no checksum, no padding; v3 carries the cipher octet outside
                        ctx.oracle("pkesk_x25519_rfc", site, &input, un == sk && sym_alg.map(u8::from) == if v3 { Some(sym) } else { None }, &hx(&un));
                        ctx.stat("pkesk:x25519");
                    }
                    (PkeskBytes::Ecdh { public_point, encrypted_session_key }, PlainSecretParams::ECDH(ecdh::SecretKey::Curve25519Legacy(sec)), PublicParams::ECDH(EcdhPublicParams::Curve25519Legacy { hash, alg_sym, .. })) => {
                        let s = x25519_dalek::StaticSecret::from(*sec.as_bytes());
                        let Some(arr) = public_point.as_ref().get(1..).and_then(|b| <[u8; 32]>::try_from(b).ok()) else { continue };
                        let z = *s.diffie_hellman(&x25519_dalek::PublicKey::from(arr)).as_bytes();
                        let fp = subkey.public_key().fingerprint();
                        let par = ecdh::build_ecdh_param(&ECCCurve::Curve25519Legacy.oid(), *alg_sym, *hash, fp.as_bytes());
                        let Ok(kek) = ecdh::kdf(*hash, &z, alg_sym.key_size(), &par) else { continue };
                        let Ok(padded) = plan::kw_unwrap(&kek, encrypted_session_key) else {
                            ctx.oracle("pkesk_ecdh_unwraps", site, &input, false, "unwrap failed");
                            continue;
                        };
                        let p = *padded.last().unwrap_or(&0) as usize;
                        let observed = padded[..padded.len().saturating_sub(p)].to_vec();
                        ctx.case(format!("pkesk.plain alg={sym} sk={} ck=1", hx(&sk)), format!("ok:{}", hx(&observed)));
                        // RFC 9580 §5.1 / §11.5: cipher octet, key, two-octet checksum
                        let want = [&[sym][..], &sk[..], &rfc::sum16(&sk).to_be_bytes()[..]].concat();
                        ctx.oracle("pkesk_ecdh_rfc", site, &input, observed == want, &hx(&observed));
                        ctx.stat("pkesk:ecdh");
                    }
                    _ => ctx.note("pkesk: unexpected value / key kind"),
                }
            }
        }
    }
}

/// RFC 9580 Appendix A.8.2 (X25519 encryption of a session key), as shipped in rpgp's own tests:
/// the *model's* plan for the published inputs must evaluate to the published HKDF output and ESK
fn run_vectors(ctx: &mut Ctx, jobs: &mut Vec<Job>) {
    let h = |s: &str| hex::decode(s).expect("hex");
    let eph = h("87cf18d5f1b53f817cce5a004cf393cc8958bddc065f25f84af509b17dd36764");
    let rcpt = h("8693248367f9e5015db922f8f48095dda784987f2d5985b12fbad16caf5e4435");
    let z = h("67e30e69cdc7bab2a2680d78aca46a2f8b6e2ae44d398bdc6f92c5ad4a492514");
    let kek = h("f66dadcff64592239b254539b64ff607");
    let sk = h("dd708f6fa1ed65114d68d2343e7c2f1d");
    let esk = h("dea355437956617901e06957fbca8a6a47a5b5153e8d3ab7");
    let base = format!("eph={} rcpt={} z={}", hx(&eph), hx(&rcpt), hx(&z));
    jobs.push(job(format!("x25519.kek {base}"), move |ctx, req, ans, _| {
        let v = plan::eval_answer(ans);
        ctx.oracle("rfc9580_a82_vector_model_plan", "model X25519.kekPlan", req, v.as_ref().ok() == Some(&kek), &format!("{v:?}"));
        ctx.case(req.to_string(), plan_answer(ans, &Ok(vec![kek.clone()])).0);
    }));
    jobs.push(job(format!("x25519.wrap {base} plain={}", hx(&sk)), move |ctx, req, ans, _| {
        let v = plan::eval_answer(ans);
        ctx.oracle("rfc9580_a82_vector_model_plan", "model X25519.wrapPlan", req, v.as_ref().ok() == Some(&esk), &format!("{v:?}"));
        ctx.case(req.to_string(), plan_answer(ans, &Ok(vec![esk.clone()])).0);
    }));
    let _ = ctx;
}

pub fn run(ctx: &mut Ctx, model: &mut Model) {
    let mut jobs: Vec<Job> = Vec::new();
    run_vectors(ctx, &mut jobs);
    run_ecdh(ctx, &mut jobs);
    run_x(ctx, &mut jobs);
    run_checksum(ctx);
    run_pkesk(ctx);
    run_jobs(ctx, model, jobs);
}
