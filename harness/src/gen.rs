//! Structured generators shared by the properties.

use rand::Rng;

/// all strings over `alphabet` of length exactly `n`
pub fn all_strings(alphabet: &[u8], n: usize) -> Vec<Vec<u8>> {
    let mut out = vec![vec![]];
    for _ in 0..n {
        let mut next = Vec::with_capacity(out.len() * alphabet.len());
        for s in &out {
            for &a in alphabet {
                let mut t = s.clone();
                t.push(a);
                next.push(t);
            }
        }
        out = next;
    }
    out
}

/// all compositions of `data` into non-empty consecutive chunks (2^(n-1) of them)
pub fn all_chunkings(data: &[u8]) -> Vec<Vec<Vec<u8>>> {
    let n = data.len();
    if n == 0 {
        return vec![vec![]];
    }
    let mut out = Vec::new();
    for mask in 0u32..(1u32 << (n - 1)) {
        let mut chunks = Vec::new();
        let mut cur = vec![data[0]];
        for i in 1..n {
            if mask & (1 << (i - 1)) != 0 {
                chunks.push(std::mem::take(&mut cur));
            }
            cur.push(data[i]);
        }
        chunks.push(cur);
        out.push(chunks);
    }
    out
}

/// a random chunking of `data` into non-empty chunks with sizes up to `max`
pub fn random_chunking(rng: &mut impl Rng, data: &[u8], max: usize) -> Vec<Vec<u8>> {
    let mut out = Vec::new();
    let mut pos = 0;
    while pos < data.len() {
        let n = rng.gen_range(1..=max.max(1)).min(data.len() - pos);
        out.push(data[pos..pos + n].to_vec());
        pos += n;
    }
    out
}

/// chunking that cuts exactly at the given offsets
pub fn chunk_at(data: &[u8], cuts: &[usize]) -> Vec<Vec<u8>> {
    let mut out = Vec::new();
    let mut last = 0;
    let mut cs: Vec<usize> = cuts.iter().copied().filter(|&c| c > 0 && c < data.len()).collect();
    cs.sort_unstable();
    cs.dedup();
    for c in cs {
        out.push(data[last..c].to_vec());
        last = c;
    }
    if last < data.len() {
        out.push(data[last..].to_vec());
    }
    out
}

/// boundary-oriented sizes
pub fn boundary_sizes(extra: &[usize]) -> Vec<usize> {
    let mut v: Vec<usize> = vec![0, 1, 2, 3, 15, 16, 17, 21, 22, 23, 63, 64, 65, 191, 192, 193, 511, 512, 513];
    for &e in extra {
        for d in [-2i64, -1, 0, 1, 2] {
            let x = e as i64 + d;
            if x >= 0 {
                v.push(x as usize);
            }
        }
    }
    v.sort_unstable();
    v.dedup();
    v
}

pub fn random_bytes(rng: &mut impl Rng, n: usize) -> Vec<u8> {
    let mut v = vec![0u8; n];
    rng.fill(&mut v[..]);
    v
}

/// text over a small alphabet with CR/LF-heavy content
pub fn random_text(rng: &mut impl Rng, n: usize, alphabet: &[u8]) -> Vec<u8> {
    (0..n).map(|_| alphabet[rng.gen_range(0..alphabet.len())]).collect()
}
