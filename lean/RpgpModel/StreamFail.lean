import RpgpModel.Stream
/-!
# StreamFail — a stream encryptor that is polled again after its source failed

`crypto/sym/encryptor.rs` (`StreamEncryptorInner`: Prefix → Data → Mdc → Done, `Unknown` after a
failure) and `crypto/aead/encryptor.rs` (`StreamEncryptor`: `buffer`, `is_source_done`, `errored`)
with respect to failure: one refill reads up to `B` octets from the source with `fill_buffer`,
transforms them (`enc`: CFB-encrypt + hash, or seal one chunk) and hands the result out in pieces;
when the source is exhausted the trailer (MDC / final tag) is queued.  A refill that fails must
leave nothing behind that a later `read` could hand out: the refill buffer holds *plaintext* at
that point (this is the repaired behaviour; before the repair the next `read` returned that buffer,
or panicked).  The consumer may keep polling after an error (`std::io::copy` does on `Interrupted`).
-/
namespace Rpgp

/-- failure-relevant state of a stream encryptor -/
structure EncSt where
  /-- transformed octets not yet handed out -/
  buf : Bytes
  /-- the source reported end of input and the trailer has been queued -/
  srcDone : Bool
  /-- a refill failed (sticky) -/
  failed : Bool
deriving DecidableEq, Repr

/-- one `read(buf)` with `buf.len() = n` -/
def encRead (B fuel : Nat) (enc : Bytes → Bytes) (trailer : Bytes) (st : EncSt) (src : List Ev) (n : Nat) :
    RdRes × EncSt × List Ev :=
  if st.failed then (.fail, st, src)
  else if !st.buf.isEmpty then (.bytes (st.buf.take n), { st with buf := st.buf.drop n }, src)
  else if st.srcDone then (.bytes [], st, src)
  else
    match fillBufferEv fuel src B with
    | none => (.fail, { st with failed := true }, src)   -- (the source is never consulted again)
    | some (got, src') =>
      if got.isEmpty then
        (.bytes (trailer.take n), { st with buf := trailer.drop n, srcDone := true }, src')
      else
        (.bytes ((enc got).take n), { st with buf := (enc got).drop n }, src')

/-- the results of successive `read` calls with the request sizes `reqs`; the consumer keeps
calling whatever it is told -/
def encPoll (B fuel : Nat) (enc : Bytes → Bytes) (trailer : Bytes) : EncSt → List Ev → List Nat → List RdRes
  | _, _, [] => []
  | st, src, n :: reqs =>
    let r := encRead B fuel enc trailer st src n
    r.1 :: encPoll B fuel enc trailer r.2.1 r.2.2 reqs

/-- everything handed out by a list of results -/
def released : List RdRes → Bytes
  | [] => []
  | .bytes b :: rs => b ++ released rs
  | .fail :: rs => released rs

/-- the refills of a fault-free prefix of the source, as the encryptor segments them -/
def encSegments (B fuel : Nat) : Nat → List Ev → List Bytes
  | 0, _ => []
  | k + 1, src =>
    match fillBufferEv fuel src B with
    | none => []
    | some (got, src') => if got.isEmpty then [] else got :: encSegments B fuel k src'

/-- the same state machine as it was before the repair, for the regression witness: a failing
refill leaves the partly filled, zero-padded *plaintext* buffer in place (`leftover`) and does not
mark the state -/
def encReadPreFix (B fuel : Nat) (enc : Bytes → Bytes) (trailer : Bytes) (leftover : List Ev → Bytes)
    (st : EncSt) (src : List Ev) (n : Nat) : RdRes × EncSt × List Ev :=
  if !st.buf.isEmpty then (.bytes (st.buf.take n), { st with buf := st.buf.drop n }, src)
  else if st.srcDone then (.bytes [], st, src)
  else
    match fillBufferEv fuel src B with
    | none => (.fail, { st with buf := leftover src }, src)
    | some (got, src') =>
      if got.isEmpty then
        (.bytes (trailer.take n), { st with buf := trailer.drop n, srcDone := true }, src')
      else
        (.bytes ((enc got).take n), { st with buf := (enc got).drop n }, src')

end Rpgp
