import RpgpModel.Armor
import RpgpProofs.ArmorParse
/-!
# The header stage of `Dearmor` on well-formed armor text
-/
namespace Rpgp.Armor

/-! ## well-formedness of types and header maps (decidable) -/

/-- a key the header-line grammar can carry: non-empty, one line, no `": "` inside, UTF-8 -/
def keyOk (k : Bytes) : Bool := !k.isEmpty && noCrLf k && noColonSp k && validUtf8 k

/-- a value the header-line grammar can carry: one line of UTF-8 — anything else goes, including
`": "` inside, a trailing `:`, trailing blanks, the empty string -/
def valOk (v : Bytes) : Bool := noCrLf v && validUtf8 v

/-- keys strictly increasing (what iterating a `BTreeMap` yields) -/
def pairwiseKeys : Headers → Bool
  | [] => true
  | a :: r => r.all (fun b => bytesLt a.1 b.1) && pairwiseKeys r

def WFHeaders (h : Headers) : Bool :=
  pairwiseKeys h && h.all fun kv => keyOk kv.1 && !kv.2.isEmpty && kv.2.all valOk

/-- block types `armor::write` is meant for (the cleartext type has its own `Hash:` header grammar);
part numbers must fit `usize` -/
def typeOk : BlockType → Bool
  | .cleartext => false
  | .multiPart x y => decide (x < 18446744073709551616) && decide (y < 18446744073709551616)
  | _ => true

/-! ## armor text, generalised over the tolerated variations -/

def pairLines (nl : Bytes) (ps : List (Bytes × Bytes)) : Bytes :=
  ps.flatMap fun kv => kv.1 ++ COLON :: SP :: (kv.2 ++ nl)

def pairsOf (h : Headers) : List (Bytes × Bytes) := h.flatMap fun kv => kv.2.map fun v => (kv.1, v)

/-- the header section: leading text, BEGIN line, `Key: Value` lines, separator line of blanks -/
def headText (lead nl ws : Bytes) (t : BlockType) (h : Headers) : Bytes :=
  lead ++ (DASH5 ++ (asc "BEGIN " ++ (typeName t ++ (DASH5 ++ (nl ++ (pairLines nl (pairsOf h) ++ (ws ++ nl)))))))

theorem valueLines_eq (k : Bytes) (vs : List Bytes) :
    (vs.flatMap fun v => k ++ asc ": " ++ v ++ [LF]) = pairLines [LF] (vs.map fun v => (k, v)) := by
  have e3 : asc ": " = [COLON, SP] := by decide
  induction vs with
  | nil => rfl
  | cons v r ih =>
    rw [List.flatMap_cons, ih]
    simp [pairLines, e3]

theorem armorHead_eq (t : BlockType) (h : Headers) : armorHead t h = headText [] [LF] [] t h := by
  have e1 : asc "-----BEGIN " = DASH5 ++ asc "BEGIN " := by decide
  have e2 : asc "-----\n" = DASH5 ++ [LF] := by decide
  have : (h.flatMap fun kv => kv.2.flatMap fun v => kv.1 ++ asc ": " ++ v ++ [LF]) = pairLines [LF] (pairsOf h) := by
    induction h with
    | nil => rfl
    | cons kv r ih =>
      rw [List.flatMap_cons, ih, valueLines_eq]
      simp [pairLines, pairsOf]
  unfold armorHead headText
  rw [this, e1, e2]
  simp [List.append_assoc]

/-! ## one header line -/

theorem kvSplit_line (k v : Bytes) (hk0 : k ≠ []) (hk2 : noColonSp k = true) :
    kvSplit (k ++ COLON :: SP :: v) = (k, v) := by
  simp [kvSplit, splitOnSub_colonSp k v hk2]

/-- **one `Key: Value` line**: any key of the class `keyOk`, *any* one-line UTF-8 value, LF or CRLF,
whatever follows -/
theorem kvPair_line (k v nl T : Bytes) (hk : keyOk k = true) (hv : valOk v = true) (hnl : IsNl nl) :
    kvPair (k ++ COLON :: SP :: (v ++ nl ++ T)) = .ok (k, v) T := by
  simp only [keyOk, valOk, Bool.and_eq_true, Bool.not_eq_true'] at hk hv
  obtain ⟨⟨⟨hk0, hk1⟩, hk2⟩, hk3⟩ := hk
  obtain ⟨hv1, hv3⟩ := hv
  have hkne : k ≠ [] := by intro e; subst e; simp at hk0
  have hline : noCrLf (k ++ COLON :: SP :: v) = true := by
    simp only [noCrLf, List.all_append, List.all_cons, Bool.and_eq_true] at hk1 hv1 ⊢
    exact ⟨hk1, by decide, by decide, hv1⟩
  have hutf : validUtf8 (k ++ COLON :: SP :: v) = true :=
    validUtf8_append _ k _ (Nat.le_refl _) hk3
      (validUtf8_append _ [COLON, SP] v (Nat.le_refl _) (by decide) hv3)
  have e : k ++ COLON :: SP :: (v ++ nl ++ T) = (k ++ COLON :: SP :: v) ++ nl ++ T := by simp
  rw [e]
  simp only [kvPair, notLineEnding_value _ nl T hline hnl, hutf, if_true, lineEnding_nl nl T hnl,
    kvSplit_line k v hkne hk2]
  simp [hkne]

/-- a separator line (blanks and tabs only) is not a header line -/
theorem kvPair_blank (ws nl X : Bytes) (hws : ∀ b ∈ ws, b = SP ∨ b = TAB) (hnl : IsNl nl) :
    kvPair (ws ++ nl ++ X) = .err := by
  have hline : noCrLf ws = true := by
    simp only [noCrLf, List.all_eq_true]
    intro b hb; rcases hws b hb with rfl | rfl <;> decide
  have hutf : validUtf8 ws = true :=
    validUtf8_ascii ws (fun b hb => by rcases hws b hb with rfl | rfl <;> decide)
  have hnc : ∀ b ∈ ws, b ≠ COLON := fun b hb => by rcases hws b hb with rfl | rfl <;> decide
  have hsplit : kvSplit ws = ([], []) := by
    have hlast : ws.getLast? ≠ some COLON := by
      intro h
      exact hnc COLON (List.mem_of_getLast? h) rfl
    simp [kvSplit, splitOnSub_colon_none [SP] ws hnc, hlast]
  simp only [kvPair, notLineEnding_value ws nl X hline hnl, hutf, if_true, lineEnding_nl nl X hnl, hsplit]
  simp

/-! ## all header lines -/

theorem kvPairs_lines (nl : Bytes) (hnl : IsNl nl) (Y : Bytes) (hY : kvPair Y = .err) :
    ∀ (ps : List (Bytes × Bytes)) (fuel : Nat), (∀ kv ∈ ps, keyOk kv.1 = true ∧ valOk kv.2 = true) →
      ps.length ≤ fuel → kvPairs fuel (pairLines nl ps ++ Y) = (ps, Y) := by
  intro ps
  induction ps with
  | nil =>
    intro fuel _ _
    cases fuel with
    | zero => rfl
    | succ f => simp [kvPairs, pairLines, hY, PR.complete]
  | cons kv r ih =>
    intro fuel h hf
    cases fuel with
    | zero => simp at hf
    | succ f =>
      obtain ⟨hk, hv⟩ := h kv (by simp)
      have e : pairLines nl (kv :: r) ++ Y = kv.1 ++ COLON :: SP :: (kv.2 ++ nl ++ (pairLines nl r ++ Y)) := by
        simp [pairLines]
      rw [e]
      simp only [kvPairs, kvPair_line kv.1 kv.2 nl _ hk hv hnl, PR.complete]
      rw [ih f (fun x hx => h x (by simp [hx])) (by simp at hf; omega)]

/-! ## rebuilding the map -/

theorem bytesLt_irrefl (a : Bytes) : bytesLt a a = false := by
  induction a with
  | nil => rfl
  | cons x r ih => simp [bytesLt, ih]

theorem bytesLt_asymm (a : Bytes) : ∀ b, bytesLt a b = true → bytesLt b a = false := by
  induction a with
  | nil => intro b h; cases b <;> simp [bytesLt] at h ⊢
  | cons x r ih =>
    intro b h
    cases b with
    | nil => simp [bytesLt] at h
    | cons y s =>
      simp only [bytesLt] at h ⊢
      by_cases h1 : x < y
      · have : ¬ (y < x) := by
          intro h2; exact absurd (UInt8.lt_trans h1 h2) (UInt8.lt_irrefl x)
        simp [this, h1]
      · simp only [h1, if_false] at h
        by_cases h2 : y < x
        · simp [h2] at h
        · simp only [h2, if_false] at h
          simp only [h2, h1, if_false]
          exact ih s h

/-- inserting under a key larger than every key present appends a new entry -/
theorem hdrInsert_new (k v : Bytes) (acc : Headers) (h : ∀ e ∈ acc, bytesLt e.1 k = true) :
    hdrInsert k v acc = acc ++ [(k, [v])] := by
  induction acc with
  | nil => rfl
  | cons e r ih =>
    have he := h e (by simp)
    have hne : k ≠ e.1 := by
      intro e'; rw [e', bytesLt_irrefl] at he; simp at he
    have hnl : bytesLt k e.1 = false := bytesLt_asymm _ _ he
    obtain ⟨k', vs⟩ := e
    simp only [hdrInsert, List.cons_append]
    simp only at hne hnl
    simp [hne, hnl, ih (fun x hx => h x (by simp [hx]))]

/-- inserting under the last (largest) key extends its value list -/
theorem hdrInsert_last (k v : Bytes) (vs : List Bytes) (acc : Headers) (h : ∀ e ∈ acc, bytesLt e.1 k = true) :
    hdrInsert k v (acc ++ [(k, vs)]) = acc ++ [(k, vs ++ [v])] := by
  induction acc with
  | nil => simp [hdrInsert]
  | cons e r ih =>
    have he := h e (by simp)
    have hne : k ≠ e.1 := by
      intro e'; rw [e', bytesLt_irrefl] at he; simp at he
    have hnl : bytesLt k e.1 = false := bytesLt_asymm _ _ he
    obtain ⟨k', vs'⟩ := e
    simp only [hdrInsert, List.cons_append]
    simp only at hne hnl
    simp [hne, hnl, ih (fun x hx => h x (by simp [hx]))]

theorem foldl_insert_values (k : Bytes) (acc : Headers) (h : ∀ e ∈ acc, bytesLt e.1 k = true) :
    ∀ (vs cur : List Bytes),
      (vs.map fun v => (k, v)).foldl (fun m kv => hdrInsert kv.1 kv.2 m) (acc ++ [(k, cur)]) = acc ++ [(k, cur ++ vs)] := by
  intro vs
  induction vs with
  | nil => intro cur; simp
  | cons v r ih =>
    intro cur
    simp only [List.map_cons, List.foldl_cons]
    rw [hdrInsert_last k v cur acc h, ih (cur ++ [v])]
    simp

theorem foldl_insert_pairs :
    ∀ (h acc : Headers), pairwiseKeys (acc ++ h) = true → (∀ kv ∈ h, kv.2 ≠ []) →
      (pairsOf h).foldl (fun m kv => hdrInsert kv.1 kv.2 m) acc = acc ++ h := by
  intro h
  induction h with
  | nil => intro acc _ _; simp [pairsOf]
  | cons e r ih =>
    intro acc hs hne
    obtain ⟨k, vs⟩ := e
    have hvs : vs ≠ [] := hne (k, vs) (by simp)
    -- every key of acc is below k
    have hlt : ∀ x ∈ acc, bytesLt x.1 k = true := by
      clear ih hne hvs
      induction acc with
      | nil => intro x hx; simp at hx
      | cons a acc' ih' =>
        intro x hx
        simp only [List.cons_append, pairwiseKeys, Bool.and_eq_true, List.all_eq_true] at hs
        rcases List.mem_cons.mp hx with rfl | hx'
        · exact hs.1 (k, vs) (by simp)
        · exact ih' hs.2 x hx'
    cases vs with
    | nil => exact absurd rfl hvs
    | cons v vs' =>
      simp only [pairsOf, List.flatMap_cons, List.map_cons, List.cons_append, List.foldl_cons, List.foldl_append]
      rw [hdrInsert_new k v acc hlt, foldl_insert_values k acc hlt vs' [v]]
      have := ih (acc ++ [(k, v :: vs')]) (by simpa [List.append_assoc] using hs) (fun kv hkv => hne kv (by simp [hkv]))
      simp only [pairsOf] at this
      simp only [List.singleton_append]
      rw [this]; simp

theorem WFHeaders_pairs (h : Headers) (hw : WFHeaders h = true) :
    (∀ kv ∈ pairsOf h, keyOk kv.1 = true ∧ valOk kv.2 = true) ∧ (∀ kv ∈ h, kv.2 ≠ []) ∧ pairwiseKeys h = true := by
  simp only [WFHeaders, Bool.and_eq_true, List.all_eq_true, Bool.not_eq_true'] at hw
  refine ⟨?_, ?_, hw.1⟩
  · intro kv hkv
    simp only [pairsOf, List.mem_flatMap, List.mem_map] at hkv
    obtain ⟨e, he, v, hv, rfl⟩ := hkv
    have := hw.2 e he
    exact ⟨this.1.1, this.2 v hv⟩
  · intro kv hkv hnil
    have := (hw.2 kv hkv).1.2
    simp [hnil] at this

/-! ## what the reader can return at all (the class is exact) -/

theorem notLineEnding_noCrLf : ∀ (i l r : Bytes), notLineEnding i = .ok l r → noCrLf l = true := by
  intro i
  induction i with
  | nil => intro l r h; simp [notLineEnding] at h
  | cons c t ih =>
    intro l r h
    simp only [notLineEnding] at h
    by_cases h1 : c = LF
    · simp only [h1, if_true, PR.ok.injEq] at h
      rw [← h.1]; rfl
    · simp only [h1, if_false] at h
      by_cases h2 : c = CR
      · simp only [h2, if_true] at h
        cases t with
        | nil => simp at h
        | cons d t' =>
          simp only at h
          by_cases h3 : d = LF
          · simp only [h3, if_true, PR.ok.injEq] at h
            rw [← h.1]; rfl
          · simp [h3] at h
      · simp only [h2, if_false] at h
        cases hr : notLineEnding t with
        | ok v rest =>
          simp only [hr, PR.ok.injEq] at h
          have := ih v rest hr
          rw [← h.1]
          simp only [noCrLf, List.all_cons, Bool.and_eq_true, bne_iff_ne, ne_eq] at this ⊢
          exact ⟨⟨h2, h1⟩, this⟩
        | inc => simp [hr] at h
        | err => simp [hr] at h

theorem noColonSp_cons (a : Byte) (s : Bytes) :
    noColonSp (a :: s) = (!(a == COLON && s.head? == some SP) && noColonSp s) := by
  cases s with
  | nil => simp [noColonSp]
  | cons b r => simp [noColonSp]

/-- `split_once`: the part before the first `": "` contains none, and the pieces reassemble -/
theorem splitOnSub_colonSp_spec : ∀ (l k rest : Bytes), splitOnSub [COLON, SP] l = some (k, rest) →
    noColonSp k = true ∧ (∃ v, rest = COLON :: SP :: v ∧ l = k ++ COLON :: SP :: v) := by
  intro l
  induction l with
  | nil => intro k rest h; simp [splitOnSub] at h
  | cons c t ih =>
    intro k rest h
    by_cases hp : [COLON, SP].isPrefixOf (c :: t) = true
    · simp only [splitOnSub, hp, if_true, Option.some.injEq, Prod.mk.injEq] at h
      obtain ⟨rfl, rfl⟩ := h
      refine ⟨rfl, ?_⟩
      cases t with
      | nil => simp [List.isPrefixOf] at hp
      | cons d t' =>
        simp only [List.isPrefixOf, Bool.and_eq_true, beq_iff_eq, Bool.and_true] at hp
        exact ⟨t', by rw [← hp.1, ← hp.2], by rw [← hp.1, ← hp.2]; rfl⟩
    · have hp' : [COLON, SP].isPrefixOf (c :: t) = false := Bool.eq_false_iff.mpr hp
      rw [splitOnSub_cons_ne _ _ _ hp'] at h
      cases hs : splitOnSub [COLON, SP] t with
      | none => simp [hs] at h
      | some ab =>
        obtain ⟨a, b⟩ := ab
        simp only [hs, Option.some.injEq, Prod.mk.injEq] at h
        obtain ⟨rfl, rfl⟩ := h
        obtain ⟨h1, v, h2, h3⟩ := ih a b hs
        refine ⟨?_, v, h2, by rw [h3]; rfl⟩
        rw [noColonSp_cons, h1]
        simp only [Bool.and_true, Bool.not_eq_true', Bool.and_eq_false_imp, beq_iff_eq]
        intro hc
        -- c = ':' and the next byte of `a ++ ": " ++ v` is not a blank, else the prefix test had fired
        cases a with
        | nil => simp
        | cons x a' =>
          subst hc
          rw [h3] at hp'
          simp only [List.cons_append, List.isPrefixOf, beq_self_eq_true, Bool.true_and, Bool.and_true,
            beq_eq_false_iff_ne, ne_eq] at hp'
          simp only [List.head?_cons, beq_eq_false_iff_ne, ne_eq, Option.some.injEq]
          exact fun e => hp' e.symm

theorem splitOnSub_colonSp_none : ∀ (l : Bytes), splitOnSub [COLON, SP] l = none → noColonSp l = true := by
  intro l
  induction l with
  | nil => intro _; rfl
  | cons c t ih =>
    intro h
    by_cases hp : [COLON, SP].isPrefixOf (c :: t) = true
    · simp [splitOnSub, hp] at h
    · have hp' : [COLON, SP].isPrefixOf (c :: t) = false := Bool.eq_false_iff.mpr hp
      rw [splitOnSub_cons_ne _ _ _ hp'] at h
      cases hs : splitOnSub [COLON, SP] t with
      | some ab => simp [hs] at h
      | none =>
        rw [noColonSp_cons, ih hs]
        cases t with
        | nil => simp
        | cons d t' =>
          simp only [List.isPrefixOf, Bool.and_true, Bool.and_eq_false_imp, beq_iff_eq] at hp'
          simp only [List.head?_cons, Bool.and_true, Bool.not_eq_true', Bool.and_eq_false_imp, beq_iff_eq]
          intro hc
          have := hp' hc.symm
          simp only [beq_eq_false_iff_ne, ne_eq, Option.some.injEq] at this ⊢
          exact fun e => this e.symm

theorem noColonSp_prefix : ∀ (a b : Bytes), noColonSp (a ++ b) = true → noColonSp a = true := by
  intro a
  induction a with
  | nil => intro _ _; rfl
  | cons x r ih =>
    intro b h
    rw [List.cons_append, noColonSp_cons] at h
    rw [noColonSp_cons]
    simp only [Bool.and_eq_true, Bool.not_eq_true', Bool.and_eq_false_imp, beq_iff_eq] at h ⊢
    refine ⟨?_, ih b h.2⟩
    intro hx
    have := h.1 hx
    cases r with
    | nil => simp
    | cons y r' => simpa using this

theorem noCrLf_append (a b : Bytes) : noCrLf (a ++ b) = (noCrLf a && noCrLf b) := by
  simp [noCrLf, List.all_append]

/-- **the class is exact**: whatever `key_value_pair` returns has a non-empty key without line break
and without `": "`, and a value without line break — so no other key can survive a round trip -/
theorem kvPair_returns_class (i k v r : Bytes) (h : kvPair i = .ok (k, v) r) :
    k ≠ [] ∧ noCrLf k = true ∧ noColonSp k = true ∧ noCrLf v = true := by
  simp only [kvPair] at h
  cases hl : notLineEnding i with
  | inc => simp [hl] at h
  | err => simp [hl] at h
  | ok line r1 =>
    have hcr := notLineEnding_noCrLf i line r1 hl
    simp only [hl] at h
    by_cases hu : validUtf8 line = true
    · simp only [hu, if_true] at h
      cases hle : lineEnding r1 with
      | inc => simp [hle] at h
      | err => simp [hle] at h
      | ok u rest =>
        simp only [hle] at h
        by_cases hke : (kvSplit line).1.isEmpty = true
        · simp [hke] at h
        · simp only [hke, Bool.false_eq_true, if_false, PR.ok.injEq] at h
          have hkv : kvSplit line = (k, v) := h.1
          have hkne : k ≠ [] := by
            intro e; rw [hkv, e] at hke; simp at hke
          refine ⟨hkne, ?_⟩
          unfold kvSplit at hkv
          cases hs : splitOnSub [COLON, SP] line with
          | some ab =>
            obtain ⟨a, b⟩ := ab
            simp only [hs, Prod.mk.injEq] at hkv
            obtain ⟨h1, w, h2, h3⟩ := splitOnSub_colonSp_spec line a b hs
            obtain ⟨rfl, rfl⟩ := hkv
            rw [h3, noCrLf_append] at hcr
            simp only [Bool.and_eq_true] at hcr
            refine ⟨hcr.1, h1, ?_⟩
            rw [h2]
            have : noCrLf (COLON :: SP :: w) = true := hcr.2
            simp only [noCrLf, List.all_cons, Bool.and_eq_true] at this ⊢
            exact this.2.2
          | none =>
            simp only [hs] at hkv
            by_cases hlast : line.getLast? = some COLON
            · simp only [hlast, if_true, Prod.mk.injEq] at hkv
              obtain ⟨rfl, rfl⟩ := hkv
              have hsplit : line = line.dropLast ++ [COLON] := by
                obtain ⟨ys, hys⟩ := List.getLast?_eq_some_iff.mp hlast
                rw [hys]; simp
              have hnc := splitOnSub_colonSp_none line hs
              refine ⟨?_, ?_, rfl⟩
              · rw [hsplit, noCrLf_append] at hcr
                simp only [Bool.and_eq_true] at hcr
                exact hcr.1
              · rw [hsplit] at hnc
                exact noColonSp_prefix _ _ hnc
            · simp only [hlast, if_false, Prod.mk.injEq] at hkv
              exact absurd hkv.1.symm hkne
    · simp [hu] at h

/-! ## the header-line parser before commit 737e504 (kept for the regression witness only)

`key_value_pair` used to look for `":\r\n"`, then `":\n"`, then `": "` in the *whole* remaining input
(three `complete(take_until1(..))` alternatives): a value ending in `:` was read back as part of the key,
and a later `Key: ` could swallow everything before it (finding D10c). -/
namespace Pre737

/-- `complete(take_until1(pat))` -/
def takeUntil1C (pat i : Bytes) : PR Bytes :=
  match splitOnSub pat i with
  | none => .err
  | some ([], _) => .err
  | some (k, rest) => .ok k rest

def kvKey (i : Bytes) : PR Bytes :=
  match ((takeUntil1C [COLON, CR, LF] i).orElse fun _ =>
         (takeUntil1C [COLON, LF] i).orElse fun _ => takeUntil1C [COLON, SP] i) with
  | .ok k r => if validUtf8 k then .ok k r else .err
  | x => x

def kvPair (i : Bytes) : PR (Bytes × Bytes) :=
  match kvKey i with
  | .inc => .inc
  | .err => .err
  | .ok k r =>
    match tagS [COLON] r with
    | .inc => .inc
    | .err => .err
    | .ok _ r1 =>
      match tagS [SP] r1 with
      | .inc => .inc
      | .ok _ r2 =>
        match notLineEnding r2 with
        | .inc => .inc
        | .err => .err
        | .ok v r3 =>
          if validUtf8 v then
            match lineEnding r3 with
            | .inc => .inc
            | .err => .err
            | .ok _ r4 => .ok (k, v) r4
          else .err
      | .err =>
        match lineEnding r1 with
        | .inc => .inc
        | .err => .err
        | .ok _ r2 => .ok (k, []) r2

end Pre737

end Rpgp.Armor
