import RpgpModel.Bytes
open Rpgp
def main : IO Unit := IO.println (toHex [1,2,255])
