import RpgpModel.KeyGen
/-!
# KeyGenMpi — helper lemmas about the value-dependent encodings of `RpgpModel/KeyGen.lean`
-/
namespace Rpgp.KeyGen

theorem u8_toNat_of_lt (n : Nat) (h : n < 256) : n.toUInt8.toNat = n := by
  simp [Nat.toUInt8, UInt8.ofNat, UInt8.toNat]; omega

/-! ## stripZeros -/

theorem stripZeros_length_le (x : Bytes) : (stripZeros x).length ≤ x.length := by
  induction x with
  | nil => simp [stripZeros]
  | cons b r ih =>
    by_cases h : b = 0
    · simp [stripZeros, h]; omega
    · simp [stripZeros, h]

/-- stripping removes only zero octets, from the front: putting them back restores the input -/
theorem replicate_stripZeros (x : Bytes) :
    List.replicate (x.length - (stripZeros x).length) (0 : Byte) ++ stripZeros x = x := by
  induction x with
  | nil => simp [stripZeros]
  | cons b r ih =>
    by_cases h : b = 0
    · have hle := stripZeros_length_le r
      have : (r.length + 1) - (stripZeros r).length = (r.length - (stripZeros r).length) + 1 := by omega
      simp only [stripZeros, h, if_true, List.length_cons, this, List.replicate_succ, List.cons_append, ih]
    · simp [stripZeros, h]

/-- a string is normalised when it is empty or starts with a non-zero octet -/
def Normalized : Bytes → Prop
  | [] => True
  | b :: _ => b ≠ 0

theorem stripZeros_normalized (x : Bytes) : Normalized (stripZeros x) := by
  induction x with
  | nil => simp [stripZeros, Normalized]
  | cons b r ih =>
    by_cases h : b = 0
    · simpa [stripZeros, h] using ih
    · simp [stripZeros, h, Normalized]

theorem stripZeros_of_normalized (m : Bytes) (h : Normalized m) : stripZeros m = m := by
  cases m with
  | nil => rfl
  | cons b r => simp [Normalized] at h; simp [stripZeros, h]

theorem stripZeros_idem (x : Bytes) : stripZeros (stripZeros x) = stripZeros x :=
  stripZeros_of_normalized _ (stripZeros_normalized x)

theorem stripZeros_replicate_append (k : Nat) (m : Bytes) (h : Normalized m) :
    stripZeros (List.replicate k (0 : Byte) ++ m) = m := by
  induction k with
  | zero => simpa using stripZeros_of_normalized m h
  | succ k ih => simp [List.replicate_succ, stripZeros, ih]

/-- stripped length = input length minus the number of leading zero octets -/
def leadingZeros : Bytes → Nat
  | [] => 0
  | b :: r => if b = 0 then leadingZeros r + 1 else 0

theorem stripZeros_length (x : Bytes) : (stripZeros x).length + leadingZeros x = x.length := by
  induction x with
  | nil => simp [stripZeros, leadingZeros]
  | cons b r ih =>
    by_cases h : b = 0
    · simp [stripZeros, leadingZeros, h]; omega
    · simp [stripZeros, leadingZeros, h]

/-! ## padKey -/

theorem padKey_stripZeros (n : Nat) (x : Bytes) (h : x.length = n) : padKey n (stripZeros x) = some x := by
  have hle := stripZeros_length_le x
  subst h
  simp [padKey, hle, replicate_stripZeros]

theorem padKey_length (n : Nat) (v k : Bytes) (h : padKey n v = some k) : k.length = n := by
  unfold padKey at h
  by_cases hl : v.length ≤ n
  · simp [hl] at h; subst h; simp; omega
  · simp [hl] at h

theorem padKey_too_long (n : Nat) (v : Bytes) (h : n < v.length) : padKey n v = none := by
  simp [padKey]; omega

/-! ## bitSize -/

theorem clz8_le (b : Byte) (h : b ≠ 0) : clz8 b ≤ 7 := by
  have hb : b.toNat ≠ 0 := fun e => h (UInt8.toNat_inj.mp (by simpa using e))
  unfold clz8
  repeat' split
  all_goals omega

theorem clz8_bounds (b : Byte) (h : b ≠ 0) : 2 ^ (7 - clz8 b) ≤ b.toNat ∧ b.toNat < 2 ^ (8 - clz8 b) := by
  have hb : b.toNat ≠ 0 := fun e => h (UInt8.toNat_inj.mp (by simpa using e))
  have hlt : b.toNat < 256 := b.toNat_lt
  unfold clz8
  repeat' split
  all_goals (constructor <;> simp <;> omega)

theorem bitSize_cons (b : Byte) (r : Bytes) : bitSize (b :: r) = (r.length + 1) * 8 - clz8 b := by
  simp [bitSize, Gen.mpiBitsPerByte]

/-- for a normalised value the declared bit count determines the octet count -/
theorem bitSize_bytes (m : Bytes) (h : Normalized m) : (bitSize m + 7) / 8 = m.length := by
  cases m with
  | nil => simp [bitSize]
  | cons b r =>
    simp [Normalized] at h
    have := clz8_le b h
    rw [bitSize_cons]; simp only [List.length_cons]; omega

theorem bitSize_le (m : Bytes) : bitSize m ≤ m.length * 8 := by
  cases m with
  | nil => simp [bitSize]
  | cons b r => rw [bitSize_cons]; simp only [List.length_cons]; omega

/-! ## beNat -/

theorem beNat_foldl (acc : Nat) (r : Bytes) :
    r.foldl (fun a (b : Byte) => a * 256 + b.toNat) acc = acc * 256 ^ r.length + beNat r := by
  induction r generalizing acc with
  | nil => simp [beNat]
  | cons b r ih =>
    simp only [List.foldl_cons, List.length_cons, beNat]
    rw [ih, ih (0 * 256 + b.toNat)]
    simp [Nat.pow_succ, Nat.add_mul, Nat.mul_assoc, Nat.add_assoc, Nat.mul_comm 256]

theorem beNat_cons (b : Byte) (r : Bytes) : beNat (b :: r) = b.toNat * 256 ^ r.length + beNat r := by
  simp only [beNat, List.foldl_cons]
  rw [beNat_foldl]; simp [beNat]

theorem beNat_lt (r : Bytes) : beNat r < 256 ^ r.length := by
  induction r with
  | nil => simp [beNat]
  | cons b r ih =>
    rw [beNat_cons]; simp only [List.length_cons, Nat.pow_succ]
    have := b.toNat_lt
    have hp : 0 < 256 ^ r.length := Nat.pow_pos (by decide)
    calc b.toNat * 256 ^ r.length + beNat r
        < b.toNat * 256 ^ r.length + 256 ^ r.length := by omega
      _ = (b.toNat + 1) * 256 ^ r.length := by rw [Nat.add_mul]; simp
      _ ≤ 256 * 256 ^ r.length := Nat.mul_le_mul_right _ (by omega)
      _ = 256 ^ r.length * 256 := Nat.mul_comm _ _

/-- leading zero octets do not change the value -/
theorem beNat_stripZeros (x : Bytes) : beNat (stripZeros x) = beNat x := by
  induction x with
  | nil => rfl
  | cons b r ih =>
    by_cases h : b = 0
    · simp [stripZeros, h, beNat_cons, ih]
    · simp [stripZeros, h]

theorem pow256 (k : Nat) : 256 ^ k = 2 ^ (8 * k) := by
  rw [show (256 : Nat) = 2 ^ 8 from rfl, ← Nat.pow_mul]

/-- the declared bit length is the position of the top set bit -/
theorem bitSize_spec (m : Bytes) (h : Normalized m) (hne : m ≠ []) :
    2 ^ (bitSize m - 1) ≤ beNat m ∧ beNat m < 2 ^ bitSize m := by
  cases m with
  | nil => exact absurd rfl hne
  | cons b r =>
    simp [Normalized] at h
    have hc := clz8_le b h
    obtain ⟨hlo, hhi⟩ := clz8_bounds b h
    have hr := beNat_lt r
    rw [beNat_cons, bitSize_cons, pow256] at *
    have e1 : (r.length + 1) * 8 - clz8 b - 1 = (7 - clz8 b) + 8 * r.length := by omega
    have e2 : (r.length + 1) * 8 - clz8 b = (8 - clz8 b) + 8 * r.length := by omega
    rw [e1, e2, Nat.pow_add, Nat.pow_add]
    constructor
    · calc 2 ^ (7 - clz8 b) * 2 ^ (8 * r.length) ≤ b.toNat * 2 ^ (8 * r.length) := Nat.mul_le_mul_right _ hlo
        _ ≤ b.toNat * 2 ^ (8 * r.length) + beNat r := Nat.le_add_right _ _
    · calc b.toNat * 2 ^ (8 * r.length) + beNat r
          < b.toNat * 2 ^ (8 * r.length) + 2 ^ (8 * r.length) := by omega
        _ = (b.toNat + 1) * 2 ^ (8 * r.length) := by rw [Nat.add_mul]; simp
        _ ≤ 2 ^ (8 - clz8 b) * 2 ^ (8 * r.length) := Nat.mul_le_mul_right _ (by omega)

/-! ## be16 and the MPI reader -/

theorem be16_eq (n : Nat) : be16 n = [(n / 256 % 256).toUInt8, (n % 256).toUInt8] := by
  simp [be16, beBytes]

theorem mpiRead_mpiWrite_normalized (m rest : Bytes) (h : Normalized m) (hlen : m.length ≤ 2048) :
    mpiRead (mpiWrite m ++ rest) = some (m, rest) := by
  have hb := bitSize_le m
  have hbytes := bitSize_bytes m h
  have hlt : bitSize m < 65536 := by omega
  have h1 : (bitSize m / 256 % 256).toUInt8.toNat = bitSize m / 256 := by
    rw [u8_toNat_of_lt _ (Nat.mod_lt _ (by decide))]; omega
  have h2 : (bitSize m % 256).toUInt8.toNat = bitSize m % 256 := u8_toNat_of_lt _ (Nat.mod_lt _ (by decide))
  have hsum : bitSize m / 256 * 256 + bitSize m % 256 = bitSize m := by
    have := Nat.div_add_mod (bitSize m) 256; omega
  simp only [mpiWrite, be16_eq, List.cons_append, List.nil_append, mpiRead, h1, h2, hsum,
    Gen.maxExternMpiBits, Gen.mpiRoundAdd, Gen.mpiRoundShift]
  have hnot : ¬ (16384 < bitSize m) := by omega
  have hpow : (2 : Nat) ^ 3 = 8 := rfl
  simp only [hnot, if_false, hpow, hbytes]
  simp [stripZeros_of_normalized m h]

end Rpgp.KeyGen
