//! C02, the back-signature (0x19) embedded in a subkey binding (0x18), in BOTH layouts: in the hashed
//! area of the carrier (what rpgp writes) and in its unhashed area (what GnuPG writes; rpgp's
//! `Signature::embedded_signature()` accepts both).  The field-by-field mutation sweep is applied
//! INSIDE the embedded signature - its type, algorithm octets, hashed area (incl. the octets a
//! subpacket parser could normalise: boolean values, Notation flags), unhashed area, left-16, salt,
//! signature value - and the result goes through
//!   `Signature::verify_primary_key_binding` (the embedded packet on its own),
//!   `Signature::verify_subkey_binding` (the carrier),
//!   `SignedPublicSubKey::verify_bindings`, `SignedSecretSubKey::verify_bindings`,
//!   `SignedPublicKey::from_bytes -> verify_bindings` (whole certificate, serialised and parsed).
//! "changing any bit … of the hashed subpacket area, type, algorithms, salt or signature value …
//! makes every verification entry point return an error … certificate-forming signatures
//! (… subkey and primary-key bindings …)": a binding whose required back-signature was tampered
//! with must not pass.  Exceptions as everywhere: the embedded signature's own unhashed area and MPI
//! bit counts; for `verify_subkey_binding` on the carrier alone, everything in the carrier's
//! unhashed area.
use super::cert::{reframe, verdict, view_public};
use super::*;
use crate::wire;

/// replace the first Embedded Signature subpacket (type 32) of the carrier by `emb`
fn replace_embedded(carrier: &[u8], in_hashed: bool, emb: &[u8]) -> Option<Vec<u8>> {
    let f = sigrec::parse_sig_body(carrier)?;
    let w = if f.ver == 6 { 4 } else { 2 };
    let tail_off = 4 + w + f.area.len() + w + f.unhashed.len() + 2 + if f.ver == 6 { 1 + f.salt.len() } else { 0 };
    let tail = carrier.get(tail_off..)?;
    let rebuild = |area: &[u8]| -> Option<Vec<u8>> {
        let mut out = Vec::new();
        let mut done = false;
        for (t, body) in sigrec::subpackets(area)? {
            if t & 0x7f == 32 && !done {
                out.extend(wire::subpacket_min(t, emb));
                done = true;
            } else {
                out.extend(wire::subpacket_min(t, &body));
            }
        }
        if done { Some(out) } else { None }
    };
    let (h, u) = if in_hashed { (rebuild(&f.area)?, f.unhashed.clone()) } else { (f.area.clone(), rebuild(&f.unhashed)?) };
    Some(wire::sig_v4(f.ver, f.typ, f.pk, f.hash, &h, &u, f.left16, if f.ver == 6 { Some(&f.salt) } else { None }, tail))
}

pub(super) fn run(ctx: &mut Ctx, fixes: &[Fix]) {
    let mut rng = ChaCha8Rng::seed_from_u64(ctx.rng.gen());
    for fix in fixes {
        if fix.weight >= 2 && !ctx.thorough() {
            continue;
        }
        let hash = fix.hashes[0];
        let bind = Subj::Bind { primary: fix.prim_pub.clone(), sub: fix.sub_pub.clone() };
        let rfc = Subject::Bind(wkey(&fix.prim_pub), wkey(&fix.sub_pub));
        let pw = Password::empty();
        // the back-signature, with a hashed area that has one subpacket of every shape
        let Ok(back) = produce(&mut rng, &fix.sub_sec, &fix.sub_pub, SignatureType::KeyBinding, hash, &bind, true) else {
            ctx.stat("refused_config");
            continue;
        };
        let back_body = body_of(&back);
        let Ok(back) = parse_sig(&back_body) else { continue };
        let bfs = field_map(&back);
        let mut flags = KeyFlags::default();
        flags.set_sign(true);
        let (PubAny::S(sub_pk), SecAny::S(sub_sk)) = (&fix.sub_pub, &fix.sub_sec) else { continue };
        // the certificate the carrier is put into: the fixture's own, its subkey binding replaced
        let cert_pk = sigrec::split_packets(&body_of(&fix.ssk.to_public_key()));

        for in_hashed in [true, false] {
            let layout = if in_hashed { "embedded in the hashed area" } else { "embedded in the unhashed area" };
            let label = format!("{} 0x18 with 0x19 {layout}", fix.name);
            let Ok(mut cfg) = config_for(&mut rng, &fix.prim_sec, SignatureType::SubkeyBinding, hash, false, None) else { continue };
            cfg.hashed_subpackets.push(sp(SubpacketData::KeyFlags(flags.clone())));
            let e = sp(SubpacketData::EmbeddedSignature(Box::new(back.clone())));
            if in_hashed { cfg.hashed_subpackets.push(e) } else { cfg.unhashed_subpackets.push(e) }
            let Ok(carrier) = cfg.sign_subkey_binding(&fix.prim_sec, &fix.prim_pub, &pw, &fix.sub_pub) else {
                ctx.stat("refused_config");
                continue;
            };
            let carrier_body = body_of(&carrier);
            // a second, later and intact binding of the same subkey (what re-binding a subkey leaves in a
            // certificate): every binding carries its own back signature, each of them is checked
            let newer: Option<Signature> = config_for(&mut rng, &fix.prim_sec, SignatureType::SubkeyBinding, hash, false, None).ok().and_then(|mut cfg2| {
                cfg2.hashed_subpackets.push(sp(SubpacketData::KeyFlags(flags.clone())));
                cfg2.hashed_subpackets.push(sp(SubpacketData::EmbeddedSignature(Box::new(back.clone()))));
                for s in cfg2.hashed_subpackets.iter_mut() {
                    if let SubpacketData::SignatureCreationTime(t) = &mut s.data {
                        *t = pgp::types::Timestamp::from_secs(t.as_secs().saturating_add(3600));
                    }
                }
                cfg2.sign_subkey_binding(&fix.prim_sec, &fix.prim_pub, &pw, &fix.sub_pub).ok()
            });
            let mut t0 = Tables::default();
            if let Err(e) = log_original(&mut t0, &carrier, &rfc, &fix.prim_pub).and_then(|_| log_original(&mut t0, &back, &rfc, &fix.sub_pub)) {
                ctx.oracle("original_verifies", "RFC 9580 5.2.4 digest of a binding signature", &label, false, &e);
                continue;
            }
            // certificate: replace the (last) signature packet after the subkey
            let cert0: Option<Vec<(u8, Vec<u8>)>> = cert_pk.clone().and_then(|mut pk| {
                let si = pk.iter().position(|p| p.0 == 14)?;
                let bi = (si + 1..pk.len()).find(|&i| pk[i].0 == 2)?;
                pk[bi].1 = carrier_body.clone();
                pk.truncate(bi + 1);
                Some(pk)
            });
            // honest log of the certificate's other signatures
            let mut tc0 = t0.clone();
            if let Some(pk) = &cert0 {
                if let Ok(k) = SignedPublicKey::from_bytes(&reframe(pk)[..]) {
                    for (s, subj, signer) in view_public(&k).walk() {
                        let _ = log_original(&mut tc0, &s, &subj, &signer);
                    }
                }
            }
            ctx.stat(&format!("embedded:{}:{}", fix.name, if in_hashed { "hashed" } else { "unhashed" }));

            let mut variants: Vec<(String, String, Vec<u8>)> = vec![("original".into(), "-".into(), back_body.clone())];
            let w = if fix.weight == 0 { 1 } else { 2 };
            for m in sig_mutations(&mut rng, &back_body, &bfs, if ctx.thorough() { fix.weight } else { w }) {
                if m.out != back_body {
                    variants.push((m.desc.clone(), loc_of(&back, &bfs, &m), m.out));
                }
            }
            // every octet of the embedded signature's hashed area, every bit (this is where a parser
            // could normalise): dense regardless of weight
            if let Some(f) = bfs.iter().find(|f| f.name == "hashed") {
                let mut dense = Vec::new();
                range_mutations(&mut rng, &back_body, f.off, f.len, true, &mut dense);
                for m in dense {
                    if m.desc.starts_with("flip") && m.out != back_body {
                        variants.push((m.desc.clone(), loc_of(&back, &bfs, &m), m.out));
                    }
                }
            }
            let mut seen = std::collections::HashSet::new();
            for (desc, loc, emb) in variants {
                if !seen.insert(emb.clone()) {
                    continue;
                }
                let original = desc == "original";
                let Some(c2) = replace_embedded(&carrier_body, in_hashed, &emb) else { continue };
                if original && c2 != carrier_body {
                    ctx.oracle("original_verifies", "harness: carrier re-assembly", &label, false, "re-assembled carrier differs");
                    continue;
                }
                let inp = format!("{label} {desc} [{loc}] embedded={} carrier={}", hx(&emb), hx(&c2));
                let allowed = original || in_exception_list(&loc);
                let mut judge = |ctx: &mut Ctx, site: &str, ans: &str, exempt: bool| {
                    if original {
                        ctx.oracle("original_verifies", site, &inp, ans == "ok", ans);
                    } else {
                        ctx.stat(&format!("embedded:{}:{}", field_class(&loc), ans));
                        ctx.oracle("mutation_rejected", site, &inp, ans != "ok" || allowed || exempt, &format!("mutation in {loc} of the embedded back-signature still verifies"));
                        if ans == "ok" && !exempt {
                            ctx.stat(&format!("still_verifies:embedded:{loc}"));
                        }
                    }
                };
                // 1. the embedded packet on its own
                let sub_vk = VK { k: fix.sub_pub.clone(), yes: false };
                match parse_sig(&emb) {
                    Ok(es) => {
                        for r in run_eps(&es, &bind, &sub_vk, false) {
                            ctx.case(super::request(&r, &emb, &sub_vk, &tables_for(&t0, &[&emb, &body_of(&es)], &r.rfc)), r.ans.clone());
                            judge(ctx, r.site, &r.ans, false);
                        }
                    }
                    Err(_) => {
                        let r0 = &run_eps(&back, &bind, &sub_vk, false)[0];
                        ctx.case(super::request(r0, &emb, &sub_vk, &t0), "err:parse".to_string());
                    }
                }
                // 2. the carrier, 3. the subkey with its binding
                let prim_vk = VK { k: fix.prim_pub.clone(), yes: false };
                let t = tables_for(&tables_for(&t0, &[&c2], &rfc), &[&emb], &rfc);
                let bind_req = format!("snd_bind sigs={} {} {} {}", hx(&c2), kdesc("p", &fix.prim_pub), kdesc("s", &fix.sub_pub), t.show(false));
                match parse_sig(&c2) {
                    Ok(cs) => {
                        for r in run_eps(&cs, &bind, &prim_vk, false) {
                            ctx.case(super::request(&r, &c2, &prim_vk, &tables_for(&t, &[&body_of(&cs)], &r.rfc)), r.ans.clone());
                            // the carrier alone does not look at an embedded signature in its unhashed area
                            judge(ctx, "Signature::verify_subkey_binding (carrier)", &r.ans, !in_hashed);
                        }
                        let t = tables_for(&t, &[&body_of(&cs)], &rfc);
                        let t = match cs.embedded_signature() {
                            Some(e) => tables_for(&t, &[&body_of(e)], &rfc),
                            None => t,
                        };
                        let bind_req = format!("snd_bind sigs={} {} {} {}", hx(&c2), kdesc("p", &fix.prim_pub), kdesc("s", &fix.sub_pub), t.show(false));
                        let pubk = SignedPublicSubKey::new(sub_pk.clone(), vec![cs.clone()]);
                        let a = verdict(guarded(|| pubk.verify_bindings(&prim_vk)));
                        ctx.case(bind_req.clone(), a.clone());
                        judge(ctx, "SignedPublicSubKey::verify_bindings", &a, false);
                        let seck = SignedSecretSubKey::new(sub_sk.clone(), vec![cs.clone()]);
                        let a = verdict(guarded(|| seck.verify_bindings(&prim_vk)));
                        ctx.case(bind_req, a.clone());
                        judge(ctx, "SignedSecretSubKey::verify_bindings", &a, false);
                        // two bindings, the changed back signature in the older one (oracle only)
                        if let Some(newer) = &newer {
                            for order in 0..2 {
                                let sigs = if order == 0 { vec![cs.clone(), newer.clone()] } else { vec![newer.clone(), cs.clone()] };
                                let pubk = SignedPublicSubKey::new(sub_pk.clone(), sigs.clone());
                                let a = verdict(guarded(|| pubk.verify_bindings(&prim_vk)));
                                judge(ctx, "SignedPublicSubKey::verify_bindings (two bindings, the older one carries the changed back signature)", &a, false);
                                let seck = SignedSecretSubKey::new(sub_sk.clone(), sigs);
                                let a = verdict(guarded(|| seck.verify_bindings(&prim_vk)));
                                judge(ctx, "SignedSecretSubKey::verify_bindings (two bindings, the older one carries the changed back signature)", &a, false);
                            }
                        }
                    }
                    Err(_) => {
                        ctx.case(bind_req, "err:parse".to_string());
                        ctx.stat(&format!("embedded:{}:carrier_parse_error", field_class(&loc)));
                    }
                }
                // 4. the whole certificate, serialised and parsed
                if let Some(pk) = &cert0 {
                    let mut pk2 = pk.clone();
                    let last = pk2.len() - 1;
                    pk2[last].1 = c2.clone();
                    let bytes = reframe(&pk2);
                    match guarded(|| SignedPublicKey::from_bytes(&bytes[..]).map(|k| (verdict(guarded(|| k.verify_bindings())), view_public(&k)))) {
                        Ok(Ok((a, v))) => {
                            ctx.case(v.request(&v.tables(&tables_for(&tc0, &[&emb], &rfc))), a.clone());
                            let dropped = v.subkeys.is_empty();
                            judge(ctx, "SignedPublicKey::from_bytes -> verify_bindings", &a, dropped);
                            if dropped {
                                ctx.stat("embedded:cert:subkey_dropped_by_parser");
                            }
                        }
                        Ok(Err(_)) => ctx.stat("embedded:cert:parse_error"),
                        Err(p) => ctx.oracle("mutation_rejected", "SignedPublicKey::from_bytes -> verify_bindings", &inp, false, &format!("panic {p}")),
                    }
                }
            }
        }
    }
}
