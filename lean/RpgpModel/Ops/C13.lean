import RpgpModel.Proto
import RpgpModel.Framing
import RpgpModel.Fingerprint
/-!
# C13 driver ops (model: `RpgpModel/Fingerprint.lean`)

The driver never hashes.  Ops in front of the digest return its *input* (the pre-image); ops
behind it take the digest value as the argument `digest=` (supplied by the harness, which
computes it with the RustCrypto crates) and run the model with the constant hash.

* `pubkey strict=<0|1> body=<hex> digest=<hex>`
      parse a public-key (strict=0) / secret-key (strict=1) packet body, answer
      `ok:<version>:<pre-image hex>:<legacy key id hex>` or `err`
* `pubkey_pat ver=<n> created=<n> alg=<n> seed=<n> len=<n>`
      key with opaque material `pattern seed len`; answer `ok:<cksum of the pre-image>`
* `keyid ver=<n> fp=<hex>`                       key id rule applied to a digest
* `mpi_ser raw=<hex>`                            `Mpi::from_slice(raw).to_bytes()`
* `mpi_parse data=<hex>`                         `ok:<body hex>:<unread octets>` / `err`
* `issuer_fp fp=<ver>:<hex>` / `issuer_kid kid=<hex>`     whole subpacket as written
* `issuer_fp_parse data=<hex>` / `issuer_kid_parse data=<hex>`  subpacket body as read
* `sign_issuers body=<hex> digest=<hex>`         issuers the signing helpers write for the key
* `match_sig kids=<hex,..> fps=<ver:hex,..> kid=<hex> fp=<ver:hex>`
* `rcpt_ser rc=<3:kid | 6:anon | 6:ver:hex>`     version octet + recipient field
* `rcpt_parse data=<hex>`
* `rcpt_for body=<hex> digest=<hex> pv=<3|6>`    recipient written for the key
* `match_pkesk rc=<..> kid=<hex> fp=<ver:hex>`
-/
namespace Rpgp.Ops.C13
open Rpgp

def constH (d : Bytes) : Hashes := ⟨fun _ => d, fun _ => d, fun _ => d⟩

def showCk (b : Bytes) : String :=
  let (n, x, y) := cksum b
  s!"{n}.{x}.{y}"

def parseFp (s : String) : Option Fp :=
  match s.splitOn ":" with
  | [v, h] => do pure ⟨← v.toNat?, ← fromHex h⟩
  | _ => none

def showFp (fp : Fp) : String := s!"{fp.ver}:{hexOrDash fp.bytes}"

def parseFpList (s : String) : Option (List Fp) :=
  if s = "-" then some [] else (s.splitOn ",").mapM parseFp

def parseRc (s : String) : Option Recipient :=
  match s.splitOn ":" with
  | ["3", kid] => do pure (.v3 (← fromHex kid))
  | ["6", "anon"] => some (.v6 none)
  | ["6", v, h] => do pure (.v6 (some ⟨← v.toNat?, ← fromHex h⟩))
  | ["other", v] => do pure (.other (← v.toNat?))
  | _ => none

def showRc : Recipient → String
  | .v3 kid => s!"3:{hexOrDash kid}"
  | .v6 none => "6:anon"
  | .v6 (some fp) => s!"6:{showFp fp}"
  | .other v => s!"other:{v}"

def optBytes (o : Option Bytes) : String :=
  match o with
  | some b => okBytes b
  | none => "err"

def handle (op : String) (a : Args) : Option String :=
  match op with
  | "pubkey" => do
    let strict ← a.nat "strict"
    let body ← a.bytes "body"
    let d ← a.bytes "digest"
    match parseBodyCur (strict == 1) body with
    | none => pure "err"
    | some (k, _) =>
      match preimage k, legacyKeyId (constH d) k with
      | some pre, some kid => pure s!"ok:{k.version}:{hexOrDash pre}:{hexOrDash kid}"
      | _, _ => pure "err"
  | "pubkey_pat" => do
    let ver ← a.nat "ver"
    let created ← a.nat "created"
    let alg ← a.nat "alg"
    let seed ← a.nat "seed"
    let len ← a.nat "len"
    let k : PubKey := { version := ver, created, expiry := 0, alg, mat := [.raw (pattern seed len)] }
    match preimage k with
    | some pre => pure ("ok:" ++ showCk pre)
    | none => pure "err"
  | "keyid" => do
    let ver ← a.nat "ver"
    let fp ← a.bytes "fp"
    if ver = 4 then pure (okBytes (keyIdV4 fp))
    else if ver = 6 then pure (okBytes (keyIdV6 fp))
    else if ver = 3 then pure (okBytes (keyIdV3 fp))
    else pure "err"
  | "mpi_ser" => do
    let raw ← a.bytes "raw"
    pure (okBytes (mpiFromSliceSer raw))
  | "mpi_parse" => do
    let d ← a.bytes "data"
    match mpiParse d with
    | some (b, r) => pure s!"ok:{hexOrDash b}:{r.length}"
    | none => pure "err"
  | "issuer_fp" => do
    let fp ← a.get? "fp" >>= parseFp
    pure (optBytes ((issuerFpBody fp).map (subpacket Gen.spIssuerFpWr)))
  | "issuer_kid" => do
    let kid ← a.bytes "kid"
    pure (okBytes (subpacket Gen.spIssuerKeyIdWr kid))
  | "issuer_fp_parse" => do
    let d ← a.bytes "data"
    match parseIssuerFp d with
    | some fp => pure ("ok:" ++ showFp fp)
    | none => pure "err"
  | "issuer_kid_parse" => do
    let d ← a.bytes "data"
    pure (optBytes (parseIssuerKeyId d))
  | "sign_issuers" => do
    let body ← a.bytes "body"
    let d ← a.bytes "digest"
    match parsePubBody body with
    | none => pure "err"
    | some (k, _) =>
      match signIssuers (constH d) k with
      | none => pure "err"
      | some iss =>
        let ks := if iss.keyIds.isEmpty then "-" else ",".intercalate (iss.keyIds.map hexOrDash)
        let fs := if iss.fps.isEmpty then "-" else ",".intercalate (iss.fps.map showFp)
        pure s!"ok:kids={ks};fps={fs}"
  | "match_sig" => do
    let kids ← a.list "kids"
    let fps ← a.get? "fps" >>= parseFpList
    let kid ← a.bytes "kid"
    let fp ← a.get? "fp" >>= parseFp
    pure (okBool (matchIdentity { keyIds := kids, fps := fps } kid fp))
  | "rcpt_ser" => do
    let rc ← a.get? "rc" >>= parseRc
    pure (optBytes (serRecipient rc))
  | "rcpt_parse" => do
    let d ← a.bytes "data"
    match parseRecipient d with
    | some (rc, _) => pure s!"ok:{showRc rc}"
    | none => pure "err"
  | "rcpt_for" => do
    let body ← a.bytes "body"
    let d ← a.bytes "digest"
    let pv ← a.nat "pv"
    match parsePubBody body with
    | none => pure "err"
    | some (k, _) =>
      match recipientFor (constH d) k pv with
      | some rc => pure (optBytes (serRecipient rc))
      | none => pure "err"
  | "match_pkesk" => do
    let rc ← a.get? "rc" >>= parseRc
    let kid ← a.bytes "kid"
    let fp ← a.get? "fp" >>= parseFp
    pure (okBool (pkeskMatch rc kid fp))
  | _ => none

end Rpgp.Ops.C13
