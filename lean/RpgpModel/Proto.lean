import RpgpModel.Bytes
/-!
# Proto — line-protocol helpers shared by the per-property op handlers (`RpgpModel/Ops/*.lean`)

Requests are `op k1=v1 k2=v2 …`; byte strings are lowercase hex (`-` = empty), lists of byte
strings are comma separated.  Answers: `ok:<payload>`, `err[:<class>]`, `none`, or `bad-request`.
-/
namespace Rpgp

abbrev Args := List (String × String)

def parseArgs (ws : List String) : Args :=
  ws.filterMap fun w =>
    match w.splitOn "=" with
    | [k, v] => some (k, v)
    | _ => none

def Args.get? (a : Args) (k : String) : Option String := (a.find? (·.1 == k)).map (·.2)

def Args.bytes (a : Args) (k : String) : Option Bytes := a.get? k >>= fromHex

def Args.nat (a : Args) (k : String) : Option Nat := a.get? k >>= String.toNat?

def parseList (s : String) : Option (List Bytes) :=
  if s = "-" then some [] else (s.splitOn ",").mapM fromHex

def Args.list (a : Args) (k : String) : Option (List Bytes) := a.get? k >>= parseList

def okBytes (b : Bytes) : String := "ok:" ++ hexOrDash b
def okBool (b : Bool) : String := if b then "ok:1" else "ok:0"


def parseNatList (s : String) : Option (List Nat) :=
  if s = "-" then some [] else (s.splitOn ",").mapM String.toNat?

def Args.natList (a : Args) (k : String) : Option (List Nat) := a.get? k >>= parseNatList

end Rpgp
