import RpgpModel.Proto
import RpgpModel.Ring
/-!
# Ops.C18 — line-protocol ops for the session-key search (model: `RpgpModel/Ring.lean`)

```
ring ae=<0|1> ga=<0|1> keys=<K;K;…|-> kpw=<n> mpw=<m> sks=<S,S,…|-> esks=<E;E;…|-> un=<row;row;…|->
     pk=<row;row;…|-> sk=<row;row;…|-> ed=<S|x>
  K    = comp/comp/…            (first = primary), comp = <locked 0|1>.<keyid hex>.<fp version>.<fp hex>
  S    = a.<alg>.<hex> | b.<hex> | c.<hex>        (PlainSessionKey V3_4 / V5 / V6)
  E    = p3.<keyid hex> | p6.<fp version>.<fp hex> | p6.- | po.<version> | s.<version>.<alg> | so.<version>
  un   = per component (global order): one 0/1 per key password — does password j unlock it
  pk   = per PKESK (in order): per component `x` | S — result of PlainSecretParams::decrypt
  sk   = per supported SKESK (in order): per message password `x` | S
  ed   = the session key under which the encrypted data packet opens
answer: ok:<keys>/<message passwords>/<session keys>  (one letter per InnerRingResult) | err:<class>
match esk=<E> id=<keyid hex>.<fp version>.<fp hex>      → ok:0|1   (match_identity)
pkdecode v6=<0|1> data=<hex>                               → ok:S | err   (tail of PlainSecretParams::decrypt)
xdecode kind=<25519|448> v6=<0|1> alg=<n|-> key=<hex>      → ok:S | err
skdecode data=<hex>                                        → ok:S | err   (SKESK v4 plausibility)
prepare alg=<n|-> x=<0|1> key=<hex>                        → ok:<hex>     (prepare_session_key_for_encryption)
```
The primitive tables (`un`, `pk`, `sk`, `ed`) are measured by the harness on the real primitives; the
model performs the search.
-/
namespace Rpgp.Ops.C18
open Rpgp Rpgp.Ring

def splitDash (sep : String) (s : String) : List String := if s = "-" then [] else s.splitOn sep

def parseSK (s : String) : Option SessionKey :=
  match s.splitOn "." with
  | ["a", alg, h] => do pure (.v3_4 (← alg.toNat?) (← fromHex h))
  | ["b", h] => do pure (.v5 (← fromHex h))
  | ["c", h] => do pure (.v6 (← fromHex h))
  | _ => none

def showSK : SessionKey → String
  | .v3_4 a k => s!"a.{a}.{hexOrDash k}"
  | .v5 k => s!"b.{hexOrDash k}"
  | .v6 k => s!"c.{hexOrDash k}"

/-- table entry: `x` = failure -/
def parseEntry (s : String) : Option (Option SessionKey) :=
  if s = "x" then some none else (parseSK s).map some

def parseRow (s : String) : Option (List (Option SessionKey)) := (splitDash "," s).mapM parseEntry

/-- component: `(locked, ident)` -/
def parseComp (s : String) : Option (Bool × Ident) :=
  match s.splitOn "." with
  | [l, kid, fv, fh] => do
    pure (l == "1", { keyId := ← fromHex kid, fp := { ver := ← fv.toNat?, bytes := ← fromHex fh } })
  | _ => none

def parseIdent (s : String) : Option Ident :=
  match s.splitOn "." with
  | [kid, fv, fh] => do pure { keyId := ← fromHex kid, fp := { ver := ← fv.toNat?, bytes := ← fromHex fh } }
  | _ => none

/-- ESK; ciphertext handles are the running indices among PKESKs / supported SKESKs -/
def parseEsks : List String → Nat → Nat → Option (List (Esk Nat Nat))
  | [], _, _ => some []
  | s :: rest, ip, is =>
    match s.splitOn "." with
    | ["p3", kid] => do
      let id ← fromHex kid
      pure (.pk (.v3 id ip) :: (← parseEsks rest (ip + 1) is))
    | ["p6", "-"] => do pure (.pk (.v6 none ip) :: (← parseEsks rest (ip + 1) is))
    | ["p6", fv, fh] => do
      let f : Fingerprint := { ver := ← fv.toNat?, bytes := ← fromHex fh }
      pure (.pk (.v6 (some f) ip) :: (← parseEsks rest (ip + 1) is))
    | ["po", v] => do pure (.pk (.other (← v.toNat?)) :: (← parseEsks rest (ip + 1) is))
    | ["s", v, a] => do pure (.sk (.known (← v.toNat?) (← a.toNat?) is) :: (← parseEsks rest ip (is + 1)))
    | ["so", v] => do pure (.sk (.other (← v.toNat?)) :: (← parseEsks rest ip is))
    | _ => none

/-- keys with global component numbering; secrets are handles = component index -/
def buildKeys : List (List (Bool × Ident)) → Nat → List (SecKey Nat Nat)
  | [], _ => []
  | cs :: rest, n =>
    let mk (i : Nat) (c : Bool × Ident) : Comp Nat Nat :=
      { ident := c.2, secret := if c.1 then .encrypted (n + i) else .plain (n + i) }
    match cs with
    | [] => buildKeys rest n
    | p :: subs =>
      { primary := mk 0 p, subkeys := (List.range subs.length).zipWith (fun i c => mk (i + 1) c) subs }
        :: buildKeys rest (n + cs.length)

def resLetter : InnerRes → Char
  | .unchecked => 'U' | .noMatch => 'N' | .invalidPassword => 'W'
  | .inconsistentSessionKey => 'C' | .invalid => 'I' | .ok => 'O'

def showResList (l : List InnerRes) : String := if l.isEmpty then "-" else String.ofList (l.map resLetter)

def showRR (r : RingResult) : String :=
  s!"{showResList r.secretKeys}/{showResList r.messagePassword}/{showResList r.sessionKeys}"

def showRingErr : RingErr → String
  | .notEncrypted => "err:not-encrypted"
  | .find .plaintextSkesk => "err:plaintext-skesk"
  | .find .inconsistent => "err:inconsistent"
  | .missingKey => "err:missing"
  | .edata => "err:edata"

def handleRing (a : Args) : Option String := do
  let ae ← a.nat "ae"
  let ga ← a.nat "ga"
  let keysS ← a.get? "keys"
  let comps ← (splitDash ";" keysS).mapM fun k => (k.splitOn "/").mapM parseComp
  let kpw ← a.nat "kpw"
  let mpw ← a.nat "mpw"
  let sks ← (splitDash "," (← a.get? "sks")).mapM parseSK
  let esks ← parseEsks (splitDash ";" (← a.get? "esks")) 0 0
  let un : List (List Char) := (splitDash ";" (← a.get? "un")).map String.toList
  let pk ← (splitDash ";" (← a.get? "pk")).mapM parseRow
  let sk ← (splitDash ";" (← a.get? "sk")).mapM parseRow
  let edS ← a.get? "ed"
  let ed : Option SessionKey ← if edS = "x" then some none else (parseSK edS).map some
  let P : Prims Nat Nat Nat Nat Nat := {
    unlock := fun e pw => if ((un.getD e []).getD pw '0') == '1' then some e else none
    pkDec := fun p ct _ => ((pk.getD ct []).getD p none)
    skDec := fun ct pw => ((sk.getD ct []).getD pw none) }
  let ring : Ring Nat Nat Nat := {
    secretKeys := buildKeys comps 0
    keyPasswords := List.range kpw
    messagePasswords := List.range mpw
    sessionKeys := sks
    gnupgAead := ga == 1 }
  let openEd (_ : Unit) (k : SessionKey) : Option Unit := if some k = ed then some () else none
  match decryptTheRing P openEd ring (Msg.encrypted esks ()) (ae == 1) with
  | .ok (_, rr) => pure ("ok:" ++ showRR rr)
  | .error e => pure (showRingErr e)

def optNat (a : Args) (k : String) : Option (Option Nat) := do
  let v ← a.get? k
  if v = "-" then pure none else (v.toNat?).map some

def showOptSK : Option SessionKey → String
  | some k => "ok:" ++ showSK k
  | none => "err"

def handle (op : String) (a : Args) : Option String :=
  match op with
  | "ring" => handleRing a
  | "match" => do
    let es ← parseEsks [← a.get? "esk"] 0 0
    let id ← parseIdent (← a.get? "id")
    match es with
    | [.pk e] => pure (okBool (e.matchIdentity id))
    | _ => none
  | "pkdecode" => do
    let v6 ← a.nat "v6"
    pure (showOptSK (decodePkSessionKey (v6 == 1) (← a.bytes "data")))
  | "xdecode" => do
    let v6 ← a.nat "v6"
    let alg ← optNat a "alg"
    let key ← a.bytes "key"
    match ← a.get? "kind" with
    | "25519" => pure (showOptSK (decodeX25519SessionKey (v6 == 1) alg key))
    | "448" => pure (showOptSK (some (decodeX448SessionKey alg key)))
    | _ => none
  | "skdecode" => do pure (showOptSK (decodeSkeskV4 (← a.bytes "data")))
  | "prepare" => do
    let alg ← optNat a "alg"
    let x ← a.nat "x"
    pure (okBytes (prepareSessionKey alg (← a.bytes "key") (x == 1)))
  | _ => none

end Rpgp.Ops.C18
