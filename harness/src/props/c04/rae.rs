//! Part G — `read_after_error_no_panic`: a reader that has returned `Err` may be polled again.
//!
//! For every reader-like object the crate hands out, drive it to its FIRST error (truncated /
//! corrupted input, or an injected fault of the underlying source) and then call, each under its own
//! catch_unwind: read ×3, fill_buf ×3, consume, read_to_end, the iterator's next() ×3, and every
//! accessor the public API exposes on the object (and on the variant readers reachable through the
//! public fields of `Message`): no panic, ever.
//!
//! Objects: Message at every nesting (literal, compressed, SEIPD v1 / v2, SED, GnuPG AEAD, one-pass
//! signed, prefixed signed, encrypted(compressed(signed(literal)))), Dearmor, Base64Reader,
//! Base64Decoder, sym / aead StreamDecryptor and StreamEncryptor, NormalizedReader, PacketParser,
//! LineWriter over a failing sink.

use std::io::{BufRead, BufReader, Read, Write};

use pgp::armor::Dearmor;
use pgp::base64::{Base64Decoder, Base64Reader};
use pgp::composed::{DecryptionOptions, Message, MessageBuilder, PlainSessionKey, RawSessionKey, TheRing};
use pgp::crypto::aead::{AeadAlgorithm, ChunkSize};
use pgp::crypto::hash::HashAlgorithm;
use pgp::crypto::sym::SymmetricKeyAlgorithm;
use pgp::line_writer::{LineBreak, LineWriter};
use pgp::normalize_lines::NormalizedReader;
use pgp::packet::PacketParser;
use pgp::types::{CompressionAlgorithm, KeyVersion, Password, StringToKey};
use rand::{Rng, SeedableRng};
use rand_chacha::ChaCha8Rng;

use super::containers::{container, Kind};
use super::guard;
use crate::ctx::{hx, Ctx};
use crate::gen;
use crate::io::{ScheduledReader, ScheduledWriter};

const ORACLE: &str = "read_after_error_no_panic";

struct Rec<'a> {
    ctx: &'a mut Ctx,
    object: String,
    input: String,
}

impl Rec<'_> {
    /// one guarded call on the object
    fn call<T>(&mut self, what: &str, f: impl FnOnce() -> T) -> Option<T> {
        let r = guard(f);
        // site: kind of object and kind of call; the instance (message shape, call number) is in the input
        let kind = self.object.split('[').next().unwrap_or("").trim_end();
        let call = what.split('#').next().unwrap_or(what);
        let site = format!("{kind} after its first error :: {call}");
        let input = format!("object={} call={what} {}", self.object, self.input);
        match &r {
            Ok(_) => self.ctx.oracle(ORACLE, &site, &input, true, ""),
            Err(p) => {
                self.ctx.oracle(ORACLE, &site, &input, false, &format!("PANIC {p}"));
                self.ctx.stat(&format!("rae:panic:{}:{what}", self.object));
            }
        }
        r.ok()
    }
}

fn show_data(data: &[u8]) -> String {
    if data.len() > 400 {
        format!("{}..({} octets)", hx(&data[..48]), data.len())
    } else {
        hx(data)
    }
}

/// poll a BufRead after its first error
fn poke_bufread<R: BufRead>(rec: &mut Rec, r: &mut R) {
    let mut buf = [0u8; 37];
    for i in 0..3 {
        rec.call(&format!("read#{i}"), || r.read(&mut buf).is_ok());
    }
    for i in 0..3 {
        let n = rec.call(&format!("fill_buf#{i}"), || r.fill_buf().map(|b| b.len()).unwrap_or(0)).unwrap_or(0);
        rec.call(&format!("consume({})#{i}", if n > 0 { "1" } else { "0" }), || r.consume(n.min(1)));
    }
    rec.call("read_to_end", || {
        let mut v = Vec::new();
        r.read_to_end(&mut v).is_ok()
    });
    rec.call("read(after read_to_end)", || r.read(&mut buf).is_ok());
    rec.call("read(empty buffer)", || r.read(&mut []).is_ok());
}

fn poke_read<R: Read>(rec: &mut Rec, r: &mut R) {
    let mut buf = [0u8; 37];
    for i in 0..3 {
        rec.call(&format!("read#{i}"), || r.read(&mut buf).is_ok());
    }
    rec.call("read_to_end", || {
        let mut v = Vec::new();
        r.read_to_end(&mut v).is_ok()
    });
    rec.call("read(after read_to_end)", || r.read(&mut buf).is_ok());
    rec.call("read(empty buffer)", || r.read(&mut []).is_ok());
}

/// read in small pieces until the first error; `true` = an error was seen
fn read_until_error<R: Read>(r: &mut R, piece: usize, cap: usize) -> bool {
    let mut buf = vec![0u8; piece.max(1)];
    let mut total = 0usize;
    loop {
        match r.read(&mut buf) {
            Ok(0) => return false,
            Ok(n) => {
                total += n;
                if total > cap {
                    return false;
                }
            }
            Err(_) => return true,
        }
    }
}

// ---------------------------------------------------------------------------------------------
// Message
// ---------------------------------------------------------------------------------------------

pub struct Built {
    pub name: &'static str,
    pub bytes: Vec<u8>,
    pub password: bool,
    pub options: (bool, bool),
    pub streaming: bool,
    pub session_key: Option<PlainSessionKey>,
}

fn build_messages(rng: &mut ChaCha8Rng, key: &pgp::composed::SignedSecretKey, payload: &[u8]) -> Vec<Built> {
    let pw = Password::from("hunter2");
    let mut v = Vec::new();
    let mut push = |name: &'static str, r: Result<pgp::errors::Result<Vec<u8>>, String>, password: bool| {
        if let Ok(Ok(bytes)) = r {
            v.push(Built { name, bytes, password, options: (false, false), streaming: false, session_key: None });
        }
    };
    let s2k = |rng: &mut ChaCha8Rng| StringToKey::Salted { hash_alg: HashAlgorithm::Sha256, salt: rng.gen() };
    push("literal", guard(|| MessageBuilder::from_bytes("f", payload.to_vec()).to_vec(&mut *rng)), false);
    push(
        "literal-partial",
        guard(|| {
            let mut b = MessageBuilder::from_reader("f", std::io::Cursor::new(payload.to_vec()));
            b.partial_chunk_size(512)?;
            b.to_vec(&mut *rng)
        }),
        false,
    );
    for (name, alg) in [("compressed-zip", CompressionAlgorithm::ZIP), ("compressed-zlib", CompressionAlgorithm::ZLIB), ("compressed-bzip2", CompressionAlgorithm::BZip2)] {
        push(
            name,
            guard(|| {
                let mut b = MessageBuilder::from_bytes("f", payload.to_vec());
                b.compression(alg);
                b.to_vec(&mut *rng)
            }),
            false,
        );
    }
    push(
        "signed-one-pass",
        guard(|| {
            let mut b = MessageBuilder::from_bytes("f", payload.to_vec());
            b.sign(&**key, Password::empty(), HashAlgorithm::Sha256);
            b.to_vec(&mut *rng)
        }),
        false,
    );
    push(
        "signed-one-pass-twice",
        guard(|| {
            let mut b = MessageBuilder::from_bytes("f", payload.to_vec());
            b.sign(&**key, Password::empty(), HashAlgorithm::Sha256);
            b.sign(&**key, Password::empty(), HashAlgorithm::Sha512);
            b.to_vec(&mut *rng)
        }),
        false,
    );
    push(
        "seipd1",
        guard(|| {
            let mut b = MessageBuilder::from_bytes("f", payload.to_vec()).seipd_v1(&mut *rng, SymmetricKeyAlgorithm::AES128);
            b.encrypt_with_password(s2k(&mut *rng), &pw)?;
            b.to_vec(&mut *rng)
        }),
        true,
    );
    push(
        "seipd2",
        guard(|| {
            let mut b = MessageBuilder::from_bytes("f", payload.to_vec()).seipd_v2(&mut *rng, SymmetricKeyAlgorithm::AES128, AeadAlgorithm::Ocb, ChunkSize::C64B);
            let k = s2k(&mut *rng);
            b.encrypt_with_password(&mut *rng, k, &pw)?;
            b.to_vec(&mut *rng)
        }),
        true,
    );
    push(
        "seipd1(compressed(signed(literal)))",
        guard(|| {
            let mut b = MessageBuilder::from_bytes("f", payload.to_vec()).seipd_v1(&mut *rng, SymmetricKeyAlgorithm::AES256);
            b.compression(CompressionAlgorithm::ZLIB);
            b.sign(&**key, Password::empty(), HashAlgorithm::Sha256);
            b.encrypt_with_password(s2k(&mut *rng), &pw)?;
            b.to_vec(&mut *rng)
        }),
        true,
    );
    push(
        "seipd2(compressed(signed(literal)))",
        guard(|| {
            let mut b = MessageBuilder::from_bytes("f", payload.to_vec()).seipd_v2(&mut *rng, SymmetricKeyAlgorithm::AES256, AeadAlgorithm::Gcm, ChunkSize::C64B);
            b.compression(CompressionAlgorithm::ZIP);
            b.sign(&**key, Password::empty(), HashAlgorithm::Sha256);
            let k = s2k(&mut *rng);
            b.encrypt_with_password(&mut *rng, k, &pw)?;
            b.to_vec(&mut *rng)
        }),
        true,
    );
    // prefixed signature: Signature, Literal (from the one-pass form)
    if let Some(op) = v.iter().find(|b| b.name == "signed-one-pass") {
        use pgp::ser::Serialize;
        let ps: Vec<pgp::packet::Packet> = PacketParser::new(&op.bytes[..]).filter_map(|p| p.ok()).collect();
        if ps.len() == 3 {
            let mut bytes = ps[2].to_bytes().unwrap_or_default();
            bytes.extend(ps[1].to_bytes().unwrap_or_default());
            v.push(Built { name: "signed-prefixed", bytes, password: false, options: (false, false), streaming: false, session_key: None });
        }
    }
    // attacker-made SED and GnuPG AEAD containers around a session key the recipient holds
    let sk16 = PlainSessionKey::V3_4 { sym_alg: SymmetricKeyAlgorithm::AES128, key: RawSessionKey::from(vec![0x42u8; 16]) };
    v.push(Built { name: "sed(garbage)", bytes: container(rng, Kind::Sed, 0, 0, 0, 200), password: false, options: (true, false), streaming: false, session_key: Some(sk16.clone()) });
    v.push(Built { name: "gnupg-aead(garbage)", bytes: container(rng, Kind::Gnupg, 7, 2, 0, 300), password: false, options: (false, true), streaming: false, session_key: Some(sk16) });
    // the SEIPD v1 messages once more, read in streaming mode (the reader itself meets the error)
    let extra: Vec<Built> = v
        .iter()
        .filter(|b| b.name.starts_with("seipd1"))
        .map(|b| Built { name: if b.name == "seipd1" { "seipd1-streaming" } else { "seipd1-streaming(compressed(signed(literal)))" }, bytes: b.bytes.clone(), password: true, options: (false, false), streaming: true, session_key: None })
        .collect();
    v.extend(extra);
    v
}

/// everything the public API lets a caller ask of a `Message` (by reference)
fn poke_message(rec: &mut Rec, m: &mut Message<'_>, key: &pgp::composed::SignedPublicKey) {
    poke_bufread(rec, m);
    rec.call("is_literal/is_compressed/is_signed/is_encrypted/is_one_pass_signed", || {
        (m.is_literal(), m.is_compressed(), m.is_signed(), m.is_encrypted(), m.is_one_pass_signed())
    });
    rec.call("packet_header()", || m.packet_header());
    rec.call("literal_data_header()", || m.literal_data_header().is_some());
    rec.call("verify()", || m.verify(key).is_ok());
    rec.call("verify_nested()", || m.verify_nested(&[key]).is_ok());
    rec.call("verify_read()", || m.verify_read(key).is_ok());
    rec.call("as_data_vec()", || m.as_data_vec().is_ok());
    rec.call("as_data_string()", || m.as_data_string().is_ok());
    rec.call("get_mut()", || {
        let _ = m.get_mut();
    });
    rec.call("Debug", || format!("{m:?}").len());
    // the variant readers reachable through the public fields
    match m {
        Message::Literal { reader, .. } => {
            rec.call("Literal.reader.is_done()", || reader.is_done());
            rec.call("Literal.reader.packet_header()", || reader.packet_header());
            rec.call("Literal.reader.data_header()", || reader.data_header().file_name().len());
            rec.call("Literal.reader.get_mut()", || {
                let _ = reader.get_mut();
            });
        }
        Message::Compressed { reader, .. } => {
            rec.call("Compressed.reader.is_done()", || reader.is_done());
            rec.call("Compressed.reader.packet_header()", || reader.packet_header());
            rec.call("Compressed.reader.get_mut()", || {
                let _ = reader.get_mut();
            });
        }
        Message::Signed { reader, .. } => {
            rec.call("Signed.reader.num_signatures()", || (reader.num_signatures(), reader.num_one_pass_signatures(), reader.num_regular_signatures()));
            rec.call("Signed.reader.hash(0)/signature(0)/signatures()", || (reader.hash(0).is_some(), reader.signature(0).is_some(), reader.signatures().is_some()));
            rec.call("Signed.reader.is_done()", || reader.is_done());
            rec.call("Signed.reader.get_ref()", || {
                let _ = reader.get_ref();
            });
            rec.call("Signed.reader.get_mut()", || {
                let _ = reader.get_mut();
            });
        }
        Message::Encrypted { edata, .. } => {
            rec.call("Encrypted.edata.packet_header()/tag()", || (edata.packet_header(), edata.tag()));
            rec.call("Encrypted.edata.get_mut()", || {
                let _ = edata.get_mut();
            });
        }
    }
}

fn open_message<'a>(b: &Built, src: Box<dyn BufRead + Send + 'a>, pw: &Password) -> Option<Message<'a>>
where
{
    struct Dbg<'b>(Box<dyn BufRead + Send + 'b>);
    impl std::fmt::Debug for Dbg<'_> {
        fn fmt(&self, f: &mut std::fmt::Formatter<'_>) -> std::fmt::Result {
            f.write_str("source")
        }
    }
    impl Read for Dbg<'_> {
        fn read(&mut self, buf: &mut [u8]) -> std::io::Result<usize> {
            self.0.read(buf)
        }
    }
    impl BufRead for Dbg<'_> {
        fn fill_buf(&mut self) -> std::io::Result<&[u8]> {
            self.0.fill_buf()
        }
        fn consume(&mut self, amt: usize) {
            self.0.consume(amt)
        }
    }
    let m = Message::from_bytes(Dbg(src)).ok()?;
    let mut m = if m.is_encrypted() {
        let mut o = DecryptionOptions::new();
        if b.options.0 {
            o = o.enable_legacy();
        }
        if b.options.1 {
            o = o.enable_gnupg_aead();
        }
        if b.streaming {
            o = o.set_seipdv1_read_mode(pgp::types::Seipdv1ReadMode::Streaming);
        }
        let ring = TheRing {
            message_password: if b.password { vec![pw] } else { vec![] },
            session_keys: b.session_key.iter().cloned().collect(),
            decrypt_options: o,
            ..Default::default()
        };
        m.decrypt_the_ring(ring, true).ok()?.0
    } else {
        m
    };
    for _ in 0..4 {
        if m.is_compressed() {
            m = m.decompress().ok()?;
        }
    }
    Some(m)
}

fn message_case(ctx: &mut Ctx, b: &Built, data: &[u8], what: &str, fault: Option<(usize, usize)>, key: &pgp::composed::SignedPublicKey) {
    let pw = Password::from("hunter2");
    let src: Box<dyn BufRead + Send> = match fault {
        Some((chunk, at)) => Box::new(BufReader::with_capacity(64, ScheduledReader::new(data, &vec![chunk; data.len() / chunk.max(1) + 2]).with_fault(at))),
        None => Box::new(std::io::Cursor::new(data.to_vec())),
    };
    let input = format!("message={} {what} fault={fault:?} data={}", b.name, show_data(data));
    // opening itself must not panic
    let opened = guard(|| open_message(b, src, &pw));
    let mut rec = Rec { ctx, object: format!("Message[{}]", b.name), input };
    let Ok(opened) = opened else {
        rec.ctx.oracle("no_panic", "Message::from_bytes / decrypt_the_ring / decompress", &rec.input, false, "PANIC while opening");
        return;
    };
    let Some(mut m) = opened else {
        rec.ctx.stat("rae:message:error-while-opening(consumed)");
        return;
    };
    let errored = guard(|| read_until_error(&mut m, 29, 1 << 22));
    match errored {
        Ok(true) => {
            rec.ctx.stat(&format!("rae:message:{}:driven-to-error", b.name));
            poke_message(&mut rec, &mut m, key);
            // finally the consuming calls
            rec.call("into_inner() -> PacketBodyReader accessors", move || {
                let mut inner = m.into_inner();
                let _ = inner.is_done();
                let _ = inner.packet_header();
                let mut buf = [0u8; 8];
                let _ = inner.read(&mut buf);
                let _ = inner.get_mut();
            });
        }
        Ok(false) => {
            rec.ctx.stat(&format!("rae:message:{}:no-error", b.name));
        }
        Err(p) => rec.ctx.oracle("no_panic", "Message::read", &rec.input, false, &format!("PANIC {p}")),
    }
}

fn messages(ctx: &mut Ctx, rng: &mut ChaCha8Rng) {
    let key = crate::keys::ed25519_x25519(ChaCha8Rng::seed_from_u64(ctx.seed ^ 0x7AE), KeyVersion::V4);
    let public = key.to_public_key();
    let small = gen::random_text(rng, 60, b"abc \n");
    let large = gen::random_text(rng, 20_000, b"abcdefgh \n");
    for (payload, big) in [(&small, false), (&large, true)] {
        for b in build_messages(rng, &key, payload) {
            let n = b.bytes.len();
            // truncations
            let cuts: Vec<usize> = if !big {
                let step = ctx.pick(3, 1);
                (1..n).step_by(step).collect()
            } else {
                let mut c: Vec<usize> = vec![n - 1, n - 2, n.saturating_sub(23), n / 2, 8192, 8193, 8191, 512, 600, 16384, 16500];
                if ctx.thorough() {
                    c.extend((1..n).step_by(997));
                }
                c.retain(|&x| x > 0 && x < n);
                c
            };
            for cut in cuts {
                message_case(ctx, &b, &b.bytes[..cut], &format!("truncated at {cut}/{n}"), None, &public);
            }
            // corruptions
            let flips: Vec<usize> = if !big { (0..n).step_by(ctx.pick(5, 1)).collect() } else { vec![n - 1, n.saturating_sub(10), n / 2, n / 3, 700, 9000.min(n - 1)] };
            for i in flips.into_iter().filter(|&i| i < n) {
                let mut d = b.bytes.clone();
                d[i] ^= 0x41;
                message_case(ctx, &b, &d, &format!("octet {i} xor 0x41"), None, &public);
            }
            // source faults
            let chunk = if big { 1000 } else { 7 };
            let calls = n / chunk + 3;
            let faults: Vec<usize> = if ctx.thorough() || !big { (0..calls).step_by(if big { 1 } else { ctx.pick(2, 1) }).collect() } else { vec![0, 1, 2, calls / 2, calls - 3, calls - 2] };
            for at in faults {
                message_case(ctx, &b, &b.bytes, &format!("source fault at read #{at} (chunks of {chunk})"), Some((chunk, at)), &public);
            }
        }
    }
}

// ---------------------------------------------------------------------------------------------
// the other readers
// ---------------------------------------------------------------------------------------------

fn faulty<'a>(data: &[u8], chunk: usize, at: usize) -> ScheduledReader {
    ScheduledReader::new(data, &vec![chunk; data.len() / chunk.max(1) + 2]).with_fault(at)
}

fn other_readers(ctx: &mut Ctx, rng: &mut ChaCha8Rng) {
    let body = gen::random_bytes(rng, 700);
    // an armored block
    let armored = {
        use base64::Engine;
        let b64 = base64::engine::general_purpose::STANDARD.encode(&body);
        let mut s = b"-----BEGIN PGP MESSAGE-----\nComment: x\n\n".to_vec();
        for l in b64.as_bytes().chunks(64) {
            s.extend_from_slice(l);
            s.push(b'\n');
        }
        s.extend_from_slice(b"=AAAA\n-----END PGP MESSAGE-----\n");
        s
    };
    let n = armored.len();
    let cuts: Vec<usize> = (1..n).step_by(ctx.pick(23, 3)).collect();
    for &cut in &cuts {
        for variant in 0..2 {
            let mut d = armored[..cut].to_vec();
            if variant == 1 {
                d.extend_from_slice(b"!!!!\n");
            }
            let input = format!("armor truncated at {cut}/{n}{} data={}", if variant == 1 { " + garbage" } else { "" }, show_data(&d));
            {
                let mut rec = Rec { ctx, object: "Dearmor".into(), input: input.clone() };
                let mut r = Dearmor::new(&d[..]);
                if guard(|| read_until_error(&mut r, 50, 1 << 20)).unwrap_or(true) {
                    poke_read(&mut rec, &mut r);
                    rec.call("read_header()", || r.read_header().is_ok());
                    rec.call("crc24_status()", || format!("{:?}", r.crc24_status()).len());
                }
            }
            {
                let mut rec = Rec { ctx, object: "BufReader<Dearmor> (as the parsers use it)".into(), input: input.clone() };
                let mut r = BufReader::new(Dearmor::new(&d[..]));
                if guard(|| read_until_error(&mut r, 50, 1 << 20)).unwrap_or(true) {
                    poke_bufread(&mut rec, &mut r);
                }
            }
            {
                let mut rec = Rec { ctx, object: "PacketParser<BufReader<Dearmor>>".into(), input };
                let mut p = PacketParser::new(BufReader::new(Dearmor::new(&d[..])));
                for i in 0..6 {
                    rec.call(&format!("next()#{i}"), || p.next().map(|r| r.is_ok()));
                }
            }
        }
    }
    for at in 0..(n / 100 + 3) {
        let input = format!("armor with a source fault at read #{at} (chunks of 100) data={}", show_data(&armored));
        let mut rec = Rec { ctx, object: "Dearmor".into(), input };
        let mut r = Dearmor::new(BufReader::with_capacity(64, faulty(&armored, 100, at)));
        if guard(|| read_until_error(&mut r, 50, 1 << 20)).unwrap_or(true) {
            poke_read(&mut rec, &mut r);
        }
    }
    // base64
    let b64 = &armored[40..n - 40];
    for at in 0..8 {
        let input = format!("base64 text with a source fault at read #{at} (chunks of 100) data={}", show_data(b64));
        {
            let mut rec = Rec { ctx, object: "Base64Reader".into(), input: input.clone() };
            let mut r = Base64Reader::new(BufReader::with_capacity(64, faulty(b64, 100, at)));
            if guard(|| read_until_error(&mut r, 50, 1 << 20)).unwrap_or(true) {
                poke_read(&mut rec, &mut r);
            }
        }
        {
            let mut rec = Rec { ctx, object: "Base64Decoder<Base64Reader>".into(), input };
            let mut r = Base64Decoder::new(Base64Reader::new(BufReader::with_capacity(64, faulty(b64, 100, at))));
            if guard(|| read_until_error(&mut r, 50, 1 << 20)).unwrap_or(true) {
                poke_read(&mut rec, &mut r);
            }
        }
    }
    for bad in [&b"AAAA*AAA"[..], b"A", b"AA=A", b"====", b"AAA\xff"] {
        let mut rec = Rec { ctx, object: "Base64Decoder<Base64Reader>".into(), input: format!("malformed base64 data={}", hx(bad)) };
        let mut r = Base64Decoder::new(Base64Reader::new(bad));
        let _ = guard(|| read_until_error(&mut r, 3, 1 << 20));
        poke_read(&mut rec, &mut r);
    }
    // packet parser over binary data
    let packets = {
        let mut s = Vec::new();
        for i in 0..5u8 {
            s.extend(crate::frame::frame_fixed(true, 11, 1, &[b'b', 0, 0, 0, 0, 0, i, i, i]).expect("frame"));
        }
        s.extend(crate::frame::frame_fixed(true, 2, 1, &[4, 0, 22, 8, 0, 0]).expect("frame"));
        s
    };
    for cut in 0..packets.len() {
        let d = &packets[..cut];
        let mut rec = Rec { ctx, object: "PacketParser".into(), input: format!("packet stream truncated at {cut} data={}", hx(d)) };
        let mut p = PacketParser::new(d);
        for i in 0..10 {
            rec.call(&format!("next()#{i}"), || p.next().map(|r| r.is_ok()));
        }
    }
    for at in 0..(packets.len() / 5 + 2) {
        let mut rec = Rec { ctx, object: "PacketParser".into(), input: format!("packet stream with a source fault at read #{at} (chunks of 5) data={}", hx(&packets)) };
        let mut p = PacketParser::new(BufReader::with_capacity(8, faulty(&packets, 5, at)));
        for i in 0..10 {
            rec.call(&format!("next()#{i}"), || p.next().map(|r| r.is_ok()));
        }
    }
    // stream decryptors / encryptors
    let key = [7u8; 16];
    let plain = gen::random_bytes(rng, 3000);
    let v1 = SymmetricKeyAlgorithm::AES128.encrypt_protected(&mut *rng, &key, &plain).unwrap_or_default();
    let v2 = {
        let mut out = Vec::new();
        if let Ok(mut e) = pgp::packet::SymEncryptedProtectedData::encrypt_seipdv2_stream(SymmetricKeyAlgorithm::AES128, AeadAlgorithm::Ocb, ChunkSize::C64B, &key, [3u8; 32], &plain[..]) {
            let _ = e.read_to_end(&mut out);
        }
        out
    };
    let mut dec_cases: Vec<(String, Vec<u8>, Option<usize>)> = Vec::new();
    for (name, ct) in [("v1", &v1), ("v2", &v2)] {
        for cut in [0usize, 1, 5, 17, 18, 19, 40, 100, ct.len() / 2, ct.len() - 23, ct.len() - 17, ct.len() - 1] {
            if cut < ct.len() {
                dec_cases.push((format!("{name} truncated at {cut}/{}", ct.len()), ct[..cut].to_vec(), None));
            }
        }
        for i in [0usize, 17, 100, ct.len() - 1] {
            let mut d = ct.clone();
            d[i] ^= 1;
            dec_cases.push((format!("{name} bit flipped at {i}"), d, None));
        }
        for at in 0..(ct.len() / 500 + 3) {
            dec_cases.push((format!("{name} source fault at read #{at} (chunks of 500)"), ct.clone(), Some(at)));
        }
    }
    for (what, ct, fault) in dec_cases {
        let is_v1 = what.starts_with("v1");
        let src: Box<dyn BufRead> = match fault {
            Some(at) => Box::new(BufReader::with_capacity(64, faulty(&ct, 500, at))),
            None => Box::new(std::io::Cursor::new(ct.clone())),
        };
        let input = format!("{what} key={} data={}", hx(&key), show_data(&ct));
        if is_v1 {
            for mode in [pgp::types::Seipdv1ReadMode::Streaming, pgp::types::Seipdv1ReadMode::default()] {
                let src: Box<dyn BufRead> = match fault {
                    Some(at) => Box::new(BufReader::with_capacity(64, faulty(&ct, 500, at))),
                    None => Box::new(std::io::Cursor::new(ct.clone())),
                };
                let mut rec = Rec { ctx, object: format!("crypto::sym::StreamDecryptor ({mode:?})"), input: input.clone() };
                let Ok(Ok(mut d)) = guard(|| SymmetricKeyAlgorithm::AES128.stream_decryptor_protected(mode, &key, src)) else { continue };
                if guard(|| read_until_error(&mut d, 61, 1 << 20)).unwrap_or(true) {
                    poke_bufread(&mut rec, &mut d);
                }
            }
            let _ = src;
        } else {
            let mut rec = Rec { ctx, object: "crypto::aead::StreamDecryptor".into(), input };
            let Ok(Ok(mut d)) = guard(|| pgp::crypto::aead::StreamDecryptor::new_rfc9580(SymmetricKeyAlgorithm::AES128, AeadAlgorithm::Ocb, ChunkSize::C64B, &[3u8; 32], &key, src)) else { continue };
            if guard(|| read_until_error(&mut d, 61, 1 << 20)).unwrap_or(true) {
                poke_bufread(&mut rec, &mut d);
            }
        }
    }
    for at in 0..8 {
        let input = format!("plaintext source fault at read #{at} (chunks of 500), {} octets", plain.len());
        {
            let mut rec = Rec { ctx, object: "crypto::aead::StreamEncryptor".into(), input: input.clone() };
            if let Ok(Ok(mut e)) = guard(|| pgp::packet::SymEncryptedProtectedData::encrypt_seipdv2_stream(SymmetricKeyAlgorithm::AES128, AeadAlgorithm::Ocb, ChunkSize::C64B, &key, [3u8; 32], faulty(&plain, 500, at))) {
                if guard(|| read_until_error(&mut e, 61, 1 << 20)).unwrap_or(true) {
                    poke_read(&mut rec, &mut e);
                }
            }
        }
        {
            let mut rec = Rec { ctx, object: "crypto::sym::StreamEncryptor".into(), input: input.clone() };
            if let Ok(Ok(mut e)) = guard(|| SymmetricKeyAlgorithm::AES128.stream_encryptor(&mut *rng, &key, faulty(&plain, 500, at))) {
                if guard(|| read_until_error(&mut e, 61, 1 << 20)).unwrap_or(true) {
                    poke_read(&mut rec, &mut e);
                }
            }
        }
        {
            let mut rec = Rec { ctx, object: "NormalizedReader".into(), input };
            let mut r = NormalizedReader::new(faulty(&plain, 500, at), LineBreak::Crlf);
            if guard(|| read_until_error(&mut r, 61, 1 << 20)).unwrap_or(true) {
                poke_read(&mut rec, &mut r);
            }
        }
    }
    // a line writer over a failing sink
    for at in 0..6 {
        let mut rec = Rec { ctx, object: "LineWriter over a failing sink".into(), input: format!("sink fault at write #{at}") };
        let mut sink = ScheduledWriter::new(&[]).with_fault(at);
        let mut w = LineWriter::<_, generic_array::typenum::U64>::new(&mut sink, LineBreak::Lf);
        let mut errored = false;
        for _ in 0..12 {
            if w.write_all(&[b'x'; 50]).is_err() {
                errored = true;
                break;
            }
        }
        if errored {
            for i in 0..3 {
                rec.call(&format!("write#{i}"), || w.write(&[b'y'; 70]).is_ok());
            }
            rec.call("flush", || w.flush().is_ok());
            rec.call("finish", || w.finish().is_ok());
            rec.call("finish again", || w.finish().is_ok());
        }
        rec.call("drop", move || drop(w));
    }
}

pub fn run(ctx: &mut Ctx) {
    let mut rng = ChaCha8Rng::seed_from_u64(ctx.seed ^ 0xC046);
    messages(ctx, &mut rng);
    other_readers(ctx, &mut rng);
    // correspondence for the modelled hand-over (LiteralDataReader): a literal packet announcing 100
    // octets with 10 present, polled 4 times: fill #1 fails, then three more calls
    let d = [0xcbu8, 0x64, 0x62, 0, 0, 0, 0, 0, b'a', b'b', b'c', b'd'];
    let r = guard(|| {
        let mut m = Message::from_bytes(&d[..])?;
        let mut buf = [0u8; 16];
        for _ in 0..4 {
            let _ = m.read(&mut buf);
        }
        Ok::<_, pgp::errors::Error>(())
    });
    // steps: <bufferEmpty><fillOk><short>
    ctx.case("lit_calls steps=100,110,110,110".into(), if r.is_ok() { "ok".into() } else { "panic".into() });
    let ok = guard(|| {
        let d2 = [0xcbu8, 0x0a, 0x62, 0, 0, 0, 0, 0, b'a', b'b', b'c', b'd'];
        let mut m = Message::from_bytes(&d2[..])?;
        let mut buf = [0u8; 16];
        for _ in 0..4 {
            let _ = m.read(&mut buf);
        }
        Ok::<_, pgp::errors::Error>(())
    });
    ctx.case("lit_calls steps=111,010,110,110".into(), if ok.is_ok() { "ok".into() } else { "panic".into() });
}
