/-!
# Bytes — shared byte-level vocabulary of the rpgp model

Core Lean only (no Mathlib, no Batteries import) so that the driver links as a native
executable.  Bytes are `UInt8`; all arithmetic is done on `.toNat`.
-/
namespace Rpgp

abbrev Byte := UInt8
abbrev Bytes := List UInt8

def CR : Byte := 13
def LF : Byte := 10
def SP : Byte := 32
def TAB : Byte := 9
def DASH : Byte := 45

/-- big-endian encoding of `n` on `k` octets (value taken modulo `256^k`, like an `as` cast). -/
def beBytes : Nat → Nat → Bytes
  | 0, _ => []
  | k + 1, n => (n / 256 ^ k % 256).toUInt8 :: beBytes k n

/-- big-endian decoding. -/
def beNat (bs : Bytes) : Nat := bs.foldl (fun acc b => acc * 256 + b.toNat) 0

def be16 (n : Nat) : Bytes := beBytes 2 n
def be32 (n : Nat) : Bytes := beBytes 4 n
def be64 (n : Nat) : Bytes := beBytes 8 n

/-- last byte is CR -/
def endsCR : Bytes → Bool
  | [] => false
  | [b] => b == CR
  | _ :: r => endsCR r

/-! ## hex (line protocol) -/

def hexDigit (n : Nat) : Char :=
  if n < 10 then Char.ofNat (48 + n) else Char.ofNat (87 + n)

def toHex (bs : Bytes) : String :=
  String.ofList (bs.flatMap fun b => [hexDigit (b.toNat / 16), hexDigit (b.toNat % 16)])

def hexVal (c : Char) : Option Nat :=
  if '0' ≤ c ∧ c ≤ '9' then some (c.toNat - 48)
  else if 'a' ≤ c ∧ c ≤ 'f' then some (c.toNat - 87)
  else if 'A' ≤ c ∧ c ≤ 'F' then some (c.toNat - 55)
  else none

def fromHexChars : List Char → Option Bytes
  | [] => some []
  | a :: b :: r => do
    let x ← hexVal a
    let y ← hexVal b
    let rest ← fromHexChars r
    pure ((x * 16 + y).toUInt8 :: rest)
  | _ => none

/-- `-` stands for the empty string in the line protocol. -/
def fromHex (s : String) : Option Bytes :=
  if s = "-" then some [] else fromHexChars s.toList

def hexOrDash (bs : Bytes) : String := if bs.isEmpty then "-" else toHex bs

end Rpgp
