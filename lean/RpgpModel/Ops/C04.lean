import RpgpModel.Proto
import RpgpModel.Panics
namespace Rpgp.Ops.C04
open Rpgp Rpgp.Panics Rpgp.Panics.Out

def showWith {α : Type} (f : α → String) : Out α → String
  | .ok a => "ok:" ++ f a
  | .err => "err"
  | .panic => "panic"

def showSk : SessionKey → String
  | .v34 a k => s!"v34:{a}:{hexOrDash k}"
  | .v5 k => s!"v5:{hexOrDash k}"
  | .v6 k => s!"v6:{hexOrDash k}"

def showLen : Len → String
  | .fixed n => s!"f{n}"
  | .part n => s!"p{n}"
  | .indet => "i"

/-- `x` = the primitive rejected, otherwise hex -/
def optBytes (a : Args) (k : String) : Option (Option Bytes) := do
  let v ← a.get? k
  if v = "x" then pure none else (fromHex v).map some

def optNat (a : Args) (k : String) : Option (Option Nat) := do
  let v ← a.get? k
  if v = "-" then pure none else v.toNat?.map some

/-- `v34:<alg>` | `v5` | `v6` -/
def skKind (a : Args) (k : String) : Option SkKind := do
  let v ← a.get? k
  match v.splitOn ":" with
  | ["v34", n] => (n.toNat?).map SkKind.v34
  | ["v5"] => some .v5
  | ["v6"] => some .v6
  | _ => none

def handle (op : String) (a : Args) : Option String :=
  match op with
  | "edata_admit" => do
    let kind ← a.get? "kind"
    let sk ← skKind a "sk"
    let keyLen ← a.nat "keylen"
    match kind with
    | "sed" => pure (sedAdmit ((← a.nat "legacy") == 1) sk keyLen).cls
    | "seipd1" => pure (seipd1Admit sk keyLen).cls
    | "seipd2" => pure (seipd2AdmitSk (← a.nat "sym") (← a.nat "aead") (← a.nat "cs") sk keyLen).cls
    | "gnupg" => pure (gnupgAdmit ((← a.nat "optin") == 1) (← a.nat "sym") (← a.nat "aead") sk keyLen).cls
    | _ => none
  | "gnupg_open" => do
    pure (gnupgOpen ((← a.nat "optin") == 1) (← a.nat "sym") (← a.nat "aead") (← skKind a "sk") (← a.nat "keylen")
      (← optBytes a "opened")).cls
  | "rsa_verify" => do
    pure (rsaVerify (← a.nat "ks") (← a.nat "sig") ((← a.nat "valid") == 1)).cls
  | "sig_shape" => do
    let alg ← (match (← a.get? "alg") with
      | "rsa" => some SigAlg.rsa | "field" => some .field | "dsa" => some .dsa | "native" => some .native | _ => none)
    let native := (← a.get? "value") == "native"
    pure (sigShape alg (← a.nat "unit") native (← a.natList "lens") ((← a.nat "valid") == 1)).cls
  | "lit_calls" => do
    -- steps=<bufferEmpty><fillOk><short> triples as digits
    let v ← a.get? "steps"
    let steps ← (if v = "-" then some [] else (v.splitOn ",").mapM fun w =>
      match w.toList with
      | [x, y, z] => some (x == '1', y == '1', z == '1')
      | _ => none)
    pure (litCalls litFillInnerCur .body steps).cls
  | "pkesk_decode" => do
    let typ ← a.nat "typ"
    let dk ← a.bytes "dk"
    match a.get? "via" with
    | some "ecdh" => pure (showWith showSk (pkeskDecodeViaEcdhCur (typ == 6) (pkcs5Pad dk)))
    | _ => pure (showWith showSk (if typ == 6 then pkeskDecodeV6 dk else pkeskDecodeV3Cur dk))
  | "pkesk_x" => do
    let v6 ← a.nat "v6"
    let sym ← optNat a "sym"
    let key ← a.bytes "key"
    pure (showWith showSk (pkeskDecodeX (v6 == 1) sym key))
  | "skesk4" => do
    let dk ← a.bytes "dk"
    pure (showWith showSk (skeskV4DecodeCur dk))
  | "skesk5" => do
    pure (showWith showSk (skeskV5Decode (← a.nat "sym") (← a.nat "aead") (← a.nat "keylen") (← optBytes a "opened")))
  | "skesk6" => do
    pure (showWith showSk (skeskV6Decode (← a.nat "sym") (← a.nat "aead") (← optBytes a "opened")))
  | "aeskw" => do
    pure (showWith hexOrDash (aesKwUnwrapCur (← a.nat "key") (← a.nat "data") (← optBytes a "prim")))
  | "ecdh_unpad" => do
    pure (showWith hexOrDash (ecdhUnpad (← a.bytes "padded")))
  | "ecdh_derive" => do
    pure (showWith hexOrDash (ecdhDeriveCur (← a.nat "eklen") (← a.nat "esklen") (← a.nat "keklen") (← optBytes a "unwrapped")))
  | "aead_setup" => do
    pure (showWith (fun (k, n) => s!"{k}:{n}") (aeadSetup (← a.nat "sym") (← a.nat "aead")))
  | "seipd2_new" => do
    pure (streamDecryptorNew (← a.nat "sym") (← a.nat "aead")).cls
  | "seipd2_admit" => do
    pure (seipd2Admit (← a.nat "sym") (← a.nat "aead") (← a.nat "cs") (← a.nat "keylen")).cls
  | "seipd2_open" => do
    pure (seipd2Open (← a.nat "sym") (← a.nat "aead") (← a.nat "cs") (← a.nat "keylen") (← optBytes a "opened")).cls
  | "hdr" => do
    let d ← a.bytes "data"
    pure (showWith (fun (h, r) => s!"{if h.newFormat then 1 else 0}:{h.tag}:{showLen h.len}:{r.length}") (parseHeaderC d))
  | "esc" => do
    pure (showWith hexOrDash (encSecretChecksumCur (← a.nat "usage") (← a.bytes "data")))
  | "argon2" => do
    pure (argon2Admit (← a.nat "t") (← a.nat "p") (← a.nat "m") (← a.nat "ks")).cls
  | "s2k_hashed" => do
    pure (s2kDeriveHashed (← optNat a "dsz") (← a.nat "ks") (← a.nat "pw") (← optNat a "coded")).cls
  | "mpi" => do
    pure (showWith (fun (m, r) => s!"{hexOrDash m}:{r.length}") (mpiDecode (← a.bytes "data")))
  | "subpkt" => do
    pure (showWith (fun (n, r) => s!"{n}:{r.length}") (subpacketLenC (← a.bytes "data")))
  | "b64read" => do
    let src ← a.list "src"
    pure (showWith (fun (o, rest) => s!"{hexOrDash o}:{hexOrDash rest.flatten}") (b64ReadCur (← a.nat "into") src))
  | "crc" => do
    pure (showWith (fun n => s!"{n}") (readChecksum (← a.bytes "dec")))
  | "dearmor_calls" => do
    -- steps=<ok><more> pairs as digits, e.g. 10,00
    let v ← a.get? "steps"
    let steps ← (if v = "-" then some [] else (v.splitOn ",").mapM fun w =>
      match w.toList with
      | [x, y] => some (x == '1', y == '1')
      | _ => none)
    pure (dearmorCalls dearmorCallCur .header steps).cls
  | "clearbody" => do
    pure (showWith (fun (x, _) => hexOrDash x) (readCleartextBody (← a.bytes "text")))
  | "nread" => do
    pure (showWith hexOrDash (normalizedReadC (← a.bytes "lb") Gen.normalizedReaderWindow (← a.bytes "data")))
  | "lw" => do
    pure (showWith hexOrDash (lwSession (← a.nat "n") (← a.bytes "lb") (← a.list "writes") ⟨[], false⟩))
  | _ => none

end Rpgp.Ops.C04
