import RpgpProofs.ArmorBody2
import RpgpProofs.ArmorType
import RpgpProofs.ArmorLine
/-!
# `Dearmor` on well-formed armor text: footer stage and the assembled reader
-/
namespace Rpgp.Armor

/-! ## footer -/

/-- footer line and whatever follows it -/
def footText (t : BlockType) (tail : Bytes) : Bytes :=
  DASH5 ++ (asc "END " ++ (typeName t ++ (DASH5 ++ tail)))

theorem footText_eq (t : BlockType) (tail : Bytes) :
    footText t tail = 45 :: 45 :: (asc "---END " ++ (typeName t ++ (DASH5 ++ tail))) := by
  have : asc "---END " = [45, 45, 45] ++ asc "END " := by decide
  simp [footText, DASH5, this]

theorem armorFoot_eq (t : BlockType) (crc : Option Nat) :
    armorFoot t crc = (match crc with
      | some c => EQS :: b64enc (crcOctets c) ++ [LF]
      | none => []) ++ footText t [LF] := by
  have e1 : asc "-----END " = DASH5 ++ asc "END " := by decide
  have e2 : asc "-----\n" = DASH5 ++ [LF] := by decide
  cases crc <;> simp [armorFoot, footText, e1, e2, List.append_assoc]

theorem armorFooterLine_ok (t : BlockType) (tail : Bytes) (ht : typeOk t = true) :
    ∃ r, armorFooterLine (asc "---END " ++ (typeName t ++ (DASH5 ++ tail))) = .ok t r := by
  simp only [armorFooterLine, tagS_append, parseType_typeName t _ ht]
  cases h : (lineEnding tail).complete with
  | ok a r => exact ⟨r, rfl⟩
  | inc => exact ⟨tail, rfl⟩
  | err => exact ⟨tail, rfl⟩

theorem manyLineEndings_les (les : List Bytes) (hles : ∀ le ∈ les, IsNl le) (r : Bytes) :
    ∀ fuel, les.length ≤ fuel → manyLineEndings fuel (les.flatten ++ 45 :: r) = .ok () (45 :: r) := by
  induction les with
  | nil =>
    intro fuel _
    cases fuel with
    | zero => rfl
    | succ f => simp [manyLineEndings, lineEnding, LF, CR]
  | cons le rest ih =>
    intro fuel hf
    cases fuel with
    | zero => simp at hf
    | succ f =>
      have hle := hles le (by simp)
      have := ih (fun x hx => hles x (by simp [hx])) f (by simp at hf; omega)
      simp only [List.flatten_cons, List.append_assoc, manyLineEndings, lineEnding_nl le _ hle, this]

theorem les_length (les : List Bytes) (hles : ∀ le ∈ les, IsNl le) : les.length ≤ les.flatten.length := by
  induction les with
  | nil => simp
  | cons le rest ih =>
    have hle := hles le (by simp)
    have := ih (fun x hx => hles x (by simp [hx]))
    have h1 : 1 ≤ le.length := by rcases hle with rfl | rfl <;> simp
    simp only [List.flatten_cons, List.length_append, List.length_cons]
    omega

theorem les_crlf (les : List Bytes) (hles : ∀ le ∈ les, IsNl le) : ∀ c ∈ les.flatten, c = CR ∨ c = LF := by
  intro c hc
  simp only [List.mem_flatten] at hc
  obtain ⟨le, hle, hc⟩ := hc
  rcases hles le hle with rfl | rfl
  · simp at hc; exact Or.inr hc
  · simp at hc; rcases hc with rfl | rfl <;> simp

theorem footerSep_les (les : List Bytes) (hles : ∀ le ∈ les, IsNl le) (r : Bytes) :
    footerSep (les.flatten ++ 45 :: 45 :: r) = .ok () r := by
  have := manyLineEndings_les les hles (45 :: r) (les.flatten ++ 45 :: 45 :: r).length
    (by have := les_length les hles; simp only [List.length_append, List.length_cons]; omega)
  simp only [footerSep]
  rw [this]
  simp [tagS]

/-- footer without a checksum line -/
theorem footerParser_nocrc (t : BlockType) (tail : Bytes) (ht : typeOk t = true) :
    ∃ r, footerParser (footText t tail) = .ok (none, t) r := by
  obtain ⟨r, hr⟩ := armorFooterLine_ok t tail ht
  refine ⟨r, ?_⟩
  rw [footText_eq]
  have hsep := footerSep_les [] (by simp) (asc "---END " ++ (typeName t ++ (DASH5 ++ tail)))
  simp only [List.flatten_nil, List.nil_append] at hsep
  have h1 : footerCrcAlt1 (45 :: 45 :: (asc "---END " ++ (typeName t ++ (DASH5 ++ tail)))) = .err := by
    simp [footerCrcAlt1, tagS, EQS]
  have h2 : footerCrcAlt2 (45 :: 45 :: (asc "---END " ++ (typeName t ++ (DASH5 ++ tail)))) =
      .ok none (asc "---END " ++ (typeName t ++ (DASH5 ++ tail))) := by
    simp [footerCrcAlt2, manyEq, EQS, hsep]
  simp only [footerParser, footerCrcRaw, h1, h2, PR.orElse, hr]

theorem beNat_three (a b c : Byte) : beNat [a, b, c] = a.toNat * 65536 + b.toNat * 256 + c.toNat := by
  simp [beNat]; omega

theorem readChecksum_crcOctets (c : Nat) (hc : c < 16777216) : readChecksum (b64enc (crcOctets c)) = some c := by
  have e1 : Gen.wrCrcShiftHi = 16 := rfl
  have e2 : Gen.wrCrcShiftMid = 8 := rfl
  simp only [readChecksum, b64dec_b64enc, crcOctets, e1, e2]
  have h1 : (c / 2 ^ 16 % 256).toUInt8.toNat = c / 65536 % 256 := by
    simp [Nat.toUInt8]
  have h2 : (c / 2 ^ 8 % 256).toUInt8.toNat = c / 256 % 256 := by
    simp [Nat.toUInt8]
  have h3 : (c % 256).toUInt8.toNat = c % 256 := by
    simp [Nat.toUInt8]
  simp only [List.length_cons, List.length_nil, Nat.sub_self, List.replicate_zero, List.append_nil, beNat_three,
    h1, h2, h3, Option.some.injEq]
  omega

/-- the four checksum characters written by `write_footer` -/
theorem crcChars (c : Nat) : ∃ x1 x2 x3 x4, b64enc (crcOctets c) = [x1, x2, x3, x4] ∧
    isB64Sym x1 = true ∧ isB64Sym x2 = true ∧ isB64Sym x3 = true ∧ isB64Sym x4 = true := by
  obtain ⟨w, x, y, z, he, _, _, hw, hx, hy, hz⟩ :=
    dec4_enc3 (c / 2 ^ Gen.wrCrcShiftHi % 256).toUInt8 (c / 2 ^ Gen.wrCrcShiftMid % 256).toUInt8 (c % 256).toUInt8
  exact ⟨w, x, y, z, by simp [crcOctets, b64enc, he], hw, hx, hy, hz⟩

/-- footer with a checksum line followed by any number of line breaks -/
theorem footerParser_crc (t : BlockType) (tail : Bytes) (ht : typeOk t = true) (c : Nat) (hc : c < 16777216)
    (x1 x2 x3 x4 : Byte) (hx : b64enc (crcOctets c) = [x1, x2, x3, x4])
    (les : List Bytes) (hles : ∀ le ∈ les, IsNl le) :
    ∃ r, footerParser (EQS :: x1 :: x2 :: x3 :: x4 :: (les.flatten ++ footText t tail)) = .ok (some c, t) r := by
  obtain ⟨r, hr⟩ := armorFooterLine_ok t tail ht
  refine ⟨r, ?_⟩
  rw [footText_eq]
  have hsep := footerSep_les les hles (asc "---END " ++ (typeName t ++ (DASH5 ++ tail)))
  have e4 : Gen.footerCrcChars = 4 := rfl
  have h1 : footerCrcAlt1 (EQS :: x1 :: x2 :: x3 :: x4 :: (les.flatten ++ 45 :: 45 :: (asc "---END " ++ (typeName t ++ (DASH5 ++ tail))))) =
      .ok (some [x1, x2, x3, x4]) (asc "---END " ++ (typeName t ++ (DASH5 ++ tail))) := by
    simp [footerCrcAlt1, tagS, e4, hsep]
  have hck := readChecksum_crcOctets c hc
  rw [hx] at hck
  simp only [footerParser, footerCrcRaw, h1, PR.orElse, hck, Option.map_some, hr]

/-! ## the assembled reader -/

/-- the optional checksum line, followed by any number of line breaks -/
def crcText (ck : Option Nat) (les : List Bytes) : Bytes :=
  match ck with
  | none => []
  | some c => EQS :: b64enc (crcOctets c) ++ les.flatten

/-- everything after the header section -/
def restText (B : Bytes) (ck : Option Nat) (les : List Bytes) (t : BlockType) (tail : Bytes) : Bytes :=
  B ++ (crcText ck les ++ footText t tail)

/-- armor text in all the shapes the reader is meant to tolerate: leading text, LF or CRLF, a
separator line of blanks, CR/LF anywhere in the base64 part (`BodyText`), optional checksum line,
line breaks before the footer line, any trailing text -/
def armorText (lead nl ws : Bytes) (t : BlockType) (h : Headers) (B : Bytes) (ck : Option Nat)
    (les : List Bytes) (tail : Bytes) : Bytes :=
  headText lead nl ws t h ++ restText B ck les t tail

/-- what `Dearmor` returns for data `d` read under checksum `ck` -/
def dearmorResult (crcCheck : Bool) (t : BlockType) (h : Headers) (d : Bytes) (ck : Option Nat) :
    Except DearmorErr Dearmored :=
  match crcStatus crcCheck ck d with
  | .checkedInvalid _ _ => .error .crcMismatch
  | st => .ok { typ := t, headers := h, data := d, checksum := ck, status := st }

/-- body and footer stages on the text after the header -/
theorem dearmor_rest (crcCheck : Bool) (t : BlockType) (h : Headers) (d B : Bytes) (ck : Option Nat)
    (les : List Bytes) (tail : Bytes) (ht : typeOk t = true) (hB : BodyText B (b64enc d))
    (hck : ∀ c, ck = some c → c < 16777216) (hles : ∀ le ∈ les, IsNl le) :
    (let raw := restText B ck les t tail
     let b := decodeBody Gen.b64DecBufSize (raw.length + 1) [] 0 raw
     match footerParser (b.2.1 ++ b.2.2) with
     | .inc => Except.error DearmorErr.footerEof
     | .err => .error .footerBad
     | .ok (ck', ft) _ =>
       if t ≠ ft then .error .typeMismatch
       else
         let st := crcStatus crcCheck ck' b.1
         match st with
         | .checkedInvalid _ _ => .error .crcMismatch
         | _ => .ok { typ := t, headers := h, data := b.1, checksum := ck', status := st }) =
    dearmorResult crcCheck t h d ck := by
  have ecap : Gen.b64DecBufSize = 4 * 256 := rfl
  have hfoot : footText t tail = 45 :: ([45, 45, 45, 45] ++ (asc "END " ++ (typeName t ++ (DASH5 ++ tail)))) := by
    simp [footText, DASH5]
  cases ck with
  | none =>
    have hraw : restText B none les t tail = B ++ 45 :: ([45, 45, 45, 45] ++ (asc "END " ++ (typeName t ++ (DASH5 ++ tail)))) := by
      simp [restText, crcText, hfoot]
    have hdec := decodeBody_nocrc 256 (by omega) d.length d B ([45, 45, 45, 45] ++ (asc "END " ++ (typeName t ++ (DASH5 ++ tail)))) ((restText B none les t tail).length + 1)
      (Nat.le_refl _) hB (by rw [hraw]; omega)
    obtain ⟨r, hr⟩ := footerParser_nocrc t tail ht
    simp only [ecap]
    rw [hraw] at hdec ⊢
    rw [hdec]
    simp only [List.nil_append, ← hfoot, hr, dearmorResult]
    simp only [ne_eq, not_true_eq_false, if_false]
    generalize crcStatus crcCheck none d = st
    cases st <;> rfl
  | some c =>
    obtain ⟨x1, x2, x3, x4, hx, h1, h2, h3, h4⟩ := crcChars c
    have hc := hck c rfl
    have hraw : restText B (some c) les t tail =
        B ++ EQS :: x1 :: x2 :: x3 :: x4 :: (les.flatten ++ 45 :: ([45, 45, 45, 45] ++ (asc "END " ++ (typeName t ++ (DASH5 ++ tail))))) := by
      simp [restText, crcText, hx, hfoot]
    obtain ⟨left, raw', hdec, hform⟩ := decodeBody_crc x1 x2 x3 x4 les.flatten ([45, 45, 45, 45] ++ (asc "END " ++ (typeName t ++ (DASH5 ++ tail)))) h1 h2 h3 h4 (les_crlf les hles)
      256 (by omega) d.length d B ((restText B (some c) les t tail).length + 1) (Nat.le_refl _) hB (by rw [hraw]; omega)
    simp only [ecap]
    rw [hraw] at hdec ⊢
    rw [hdec]
    have hfp : ∃ r, footerParser (left ++ raw') = .ok (some c, t) r := by
      rcases hform with e | e
      · rw [e, ← hfoot]
        exact footerParser_crc t tail ht c hc x1 x2 x3 x4 hx les hles
      · rw [e, ← hfoot]
        have := footerParser_crc t tail ht c hc x1 x2 x3 x4 hx [] (by simp)
        simpa using this
    obtain ⟨r, hr⟩ := hfp
    simp only [hr, dearmorResult]
    simp only [ne_eq, not_true_eq_false, if_false]
    generalize crcStatus crcCheck (some c) d = st
    cases st <;> rfl

/-- **Dearmor on well-formed armor text**, for every payload, every admissible type and header map,
every tolerated layout, and every source schedule whose first `fill_buf` view contains the
header section -/
theorem dearmor_armorText (crcCheck : Bool) (lead nl ws : Bytes) (t : BlockType) (h : Headers) (d B : Bytes)
    (ck : Option Nat) (les : List Bytes) (tail : Bytes) (X1 : Bytes) (cs : List Bytes)
    (hlead : ∀ b ∈ lead, b ≠ 45) (hnl : IsNl nl) (hws : ∀ b ∈ ws, b = SP ∨ b = TAB)
    (ht : typeOk t = true) (hh : WFHeaders h = true) (hB : BodyText B (b64enc d))
    (hck : ∀ c, ck = some c → c < 16777216) (hles : ∀ le ∈ les, IsNl le)
    (hsplit : X1 ++ cs.flatten = restText B ck les t tail) :
    dearmor crcCheck ((headText lead nl ws t h ++ X1) :: cs) = dearmorResult crcCheck t h d ck := by
  have hhp := headerParser_headText lead nl ws t h X1 hlead hnl hws ht hh
  have hne : (headText lead nl ws t h ++ X1).isEmpty = false := by
    simp [headText, DASH5]
  have hrb : readFromBuf headerParser [] ((headText lead nl ws t h ++ X1) :: cs) =
      .ok ((t, h, !lead.isEmpty), restText B ck les t tail) := by
    simp only [readFromBuf, hne, List.nil_append, hhp]
    simp [hsplit]
  have := dearmor_rest crcCheck t h d B ck les tail ht hB hck hles
  simp only [dearmor, hrb]
  exact this

/-- result record for data `d` under checksum `ck`, CRC checking off -/
def readBack (t : BlockType) (h : Headers) (d : Bytes) (ck : Option Nat) : Except DearmorErr Dearmored :=
  .ok { typ := t, headers := h, data := d, checksum := ck,
        status := match ck with | none => .noCrc | some c => .unchecked c }

theorem dearmorResult_unchecked (t : BlockType) (h : Headers) (d : Bytes) (ck : Option Nat) :
    dearmorResult false t h d ck = readBack t h d ck := by
  cases ck <;> rfl

end Rpgp.Armor
