# ---- C07 key generation: builder tables, MPI codec, padding sizes, native point prefixes -------
# Table items are callables on the file text returning a bit mask / id (see extract_constants.py).
KB = "src/composed/key/builder.rs"
KT_ORDER = ["Rsa", "ECDH", "Ed25519Legacy", "ECDSA", "Dsa", "Ed25519", "Ed448", "X25519", "X448"]
CURVE_ORDER = ["Curve25519Legacy", "Ed25519Legacy", "P256", "P384", "P521", "BrainpoolP256r1",
               "BrainpoolP384r1", "BrainpoolP512r1", "Secp256k1"]


def _fn_body(text, sig):
    i = text.index(sig)
    j = text.index("{", i)
    depth = 0
    for k in range(j, len(text)):
        if text[k] == "{":
            depth += 1
        elif text[k] == "}":
            depth -= 1
            if depth == 0:
                return text[j:k + 1]
    raise ValueError(sig)


def _kt_bool_mask(fn_sig):
    """bit i set iff KeyType variant i (order of `enum KeyType`) is in a `=> true` arm of `fn_sig`"""
    def f(text):
        body = _fn_body(text, fn_sig)
        seen, mask = set(), 0
        for m in re.finditer(r"((?:KeyType::\w+(?:\([^)]*\))?\s*\|?\s*)+)=>\s*(true|false)", body):
            for name in re.findall(r"KeyType::(\w+)", m.group(1)):
                if name in KT_ORDER:
                    seen.add(name)
                    if m.group(2) == "true":
                        mask |= 1 << KT_ORDER.index(name)
        return mask if len(seen) == len(KT_ORDER) else None
    return f


item("ktCanSignMask", KB, _kt_bool_mask("pub fn can_sign(&self) -> bool"),
     "KeyType::can_sign: bit i = variant i of enum KeyType (Rsa, ECDH, Ed25519Legacy, ECDSA, Dsa, Ed25519, Ed448, X25519, X448)")
item("ktCanEncryptMask", KB, _kt_bool_mask("pub fn can_encrypt(&self) -> bool"),
     "KeyType::can_encrypt: bit i = variant i of enum KeyType")


def _kt_alg(variant):
    def f(text):
        body = _fn_body(text, "pub fn to_alg(&self) -> PublicKeyAlgorithm")
        m = re.search(r"KeyType::%s(?:\(_\))? => PublicKeyAlgorithm::(\w+)" % variant, body)
        pk = read("src/crypto/public_key.rs")
        mm = re.search(r"^\s*%s = (\d+),?" % m.group(1), pk, re.M)
        return int(mm.group(1))
    return f


for _v in KT_ORDER:
    item("ktAlg" + _v, KB, _kt_alg(_v), "KeyType::to_alg for KeyType::%s, resolved through enum PublicKeyAlgorithm" % _v)


def _curve_mask(pattern):
    def f(text):
        m = re.search(pattern, text, re.S)
        mask = 0
        for name in re.findall(r"ECCCurve::(\w+)", m.group(1)):
            mask |= 1 << CURVE_ORDER.index(name)
        return mask
    return f


item("ecdsaValidateCurveMask", KB,
     _curve_mask(r"KeyType::ECDSA\(curve\) => match curve \{\s*((?:ECCCurve::\w+\s*\|?\s*)+)=> \{\}"),
     "validate_keytype: curves accepted for ECDSA (bit i = variant i of enum ECCCurve)")


def _gen_curve_mask(text):
    body = _fn_body(text, "pub fn generate<R: Rng + CryptoRng>(mut rng: R, curve: &ECCCurve)")
    mask = 0
    for name in re.findall(r"ECCCurve::(\w+) => \{", body):
        mask |= 1 << CURVE_ORDER.index(name)
    return mask


item("ecdsaGenerateCurveMask", "src/crypto/ecdsa.rs", _gen_curve_mask, "ecdsa::SecretKey::generate: supported curves")
item("ecdhGenerateCurveMask", "src/crypto/ecdh.rs", _gen_curve_mask, "ecdh::SecretKey::generate: supported curves")
item("rsaMinBits", KB, r"KeyType::Rsa\(size\) => \{\s*if \*size < (\d+)", "validate_keytype: minimum RSA size")

# ---- types/mpi.rs ------------------------------------------------------------------------------
MP = "src/types/mpi.rs"
item("maxExternMpiBits", MP, r"const MAX_EXTERN_MPI_BITS: u16 = (\d+);", "mpi.rs MAX_EXTERN_MPI_BITS")
item("mpiRoundAdd", MP, r"let len_bytes = \(len_bits \+ (\d+)\) >> (\d+);", "Mpi::try_from_reader: (bits + k) >> s, k", group=1)
item("mpiRoundShift", MP, r"let len_bytes = \(len_bits \+ (\d+)\) >> (\d+);", "Mpi::try_from_reader: (bits + k) >> s, s", group=2)
item("mpiBitsPerByte", MP, r"\(val\.len\(\) \* (\d+)\) - val\[0\]\.leading_zeros\(\)", "bit_size: len * 8 - leading_zeros")

# ---- fixed scalar sizes ------------------------------------------------------------------------
EC = "src/crypto/ecc_curve.rs"
for _c in ["Curve25519Legacy", "Ed25519Legacy", "P256", "P384", "P521", "Secp256k1"]:
    item("secretLen" + _c, EC, r"pub const fn secret_key_length.*?ECCCurve::%s => (\d+)" % _c,
         "ECCCurve::secret_key_length(%s) (pad_key size)" % _c)
for _c in ["P256", "P384", "P521", "Secp256k1"]:
    item("ecdsaSecretLen" + _c, "src/crypto/ecdsa.rs", r"fn secret_key_length.*?Self::%s \{ \.\. \} => Some\((\d+)\)" % _c,
         "ecdsa::SecretKey::secret_key_length(%s)" % _c)
for _c in ["P256", "P384", "P521", "Secp256k1"]:
    item("ecdsaPadLen" + _c, "src/crypto/ecdsa.rs",
         r"fn try_from_mpi.*?EcdsaPublicParams::%s \{ \.\. \} => \{\s*let raw = crate::types::pad_key::<(\d+)>" % _c,
         "ecdsa::SecretKey::try_from_mpi(%s): pad_key size" % _c)
item("c25519PadLen", "src/crypto/ecdh.rs", r"pub fn try_from_bytes_rev\(bytes: &\[u8\]\) -> Result<Self> \{.*?pad_key::<(\d+)>\((?:&rev|bytes)\)", "Curve25519Legacy::try_from_bytes_rev pad size")
flag("fixD8fC25519Import", "src/crypto/ecdh.rs", r"pub fn try_from_bytes_rev\(bytes: &\[u8\]\) -> Result<Self> \{[^}]*?let mut secret_raw = pad_key::<\d+>\(bytes\)\?;\s*secret_raw\.reverse\(\);",
     "D8f repaired (import): the big-endian MPI value is padded to 32 octets before it is reversed")
flag("fixD8fC25519Export", "src/crypto/ecdh.rs", r"Self::Curve25519Legacy\(key\) => \{\s*let bytes = key\.to_bytes_rev\(\);.*?Mpi::from_slice\(&bytes\)\s*\}",
     "D8f repaired (export): the reversed scalar is written as an MPI without its leading zero octets")

# ---- native points with the 0x40 prefix --------------------------------------------------------
EL = "src/types/params/public/eddsa_legacy.rs"
item("eddsaLegacyRdPrefix", EL, r"ensure_eq!\(q\.as_ref\(\)\[0\], (0x[0-9a-fA-F]+)", "EddsaLegacyPublicParams::try_from_reader: required prefix octet")
item("eddsaLegacyRdLen", EL, r"ensure_eq!\(q\.len\(\), (\d+)", "EddsaLegacyPublicParams::try_from_reader: required length of Q")
item("eddsaLegacyWrPrefix", EL, r"fn to_writer.*?mpi\.push\((0x[0-9a-fA-F]+)\)", "EddsaLegacyPublicParams::to_writer: prefix octet")
item("ecdh25519WrPrefix", "src/types/params/public/ecdh.rs", r"fn to_writer.*?mpi\.push\((0x[0-9a-fA-F]+)\)", "EcdhPublicParams::to_writer (Curve25519Legacy): prefix octet")
item("ecdh25519RdLen", "src/types/params/public/ecdh.rs", r"ensure_eq!\(p\.len\(\), (\d+), \"invalid public key length\"", "EcdhPublicParams::try_from_mpi (Curve25519Legacy): required length")

# ---- EdDSA legacy signature re-padding (packet/key/public.rs verify) ----------------------------
PK = "src/packet/key/public.rs"
item("eddsaSigRLimit", PK, r"ensure!\(r\.len\(\) < (\d+), \"invalid R", "verify (EdDSALegacy): r.len() < k")
item("eddsaSigSLimit", PK, r"ensure!\(s\.len\(\) < (\d+), \"invalid S", "verify (EdDSALegacy): s.len() < k")
item("eddsaSigLen", PK, r"let mut sig_bytes = vec!\[0u8; (\d+)\];", "verify (EdDSALegacy): rebuilt signature length")
item("eddsaSigHalf", PK, r"sig_bytes\[\((\d+) - r\.len\(\)\)\.\.(\d+)\]\.copy_from_slice\(r\)", "verify (EdDSALegacy): r is right-aligned in the first k octets", group=2)

# ---- signature types, subpacket ids, key flag bits, signing hash ----------------------------------
ST = "src/packet/signature/types.rs"
item("sigTypeCertPositive", ST, r"CertPositive = (0x[0-9A-Fa-f]+)", "SignatureType::CertPositive")
item("sigTypeSubkeyBinding", ST, r"SubkeyBinding = (0x[0-9A-Fa-f]+)", "SignatureType::SubkeyBinding")
item("sigTypeKeyBinding", ST, r"\bKeyBinding = (0x[0-9A-Fa-f]+)", "SignatureType::KeyBinding (primary key binding, back-signature)")
item("sigTypeKey", ST, r"\bKey = (0x[0-9A-Fa-f]+)", "SignatureType::Key (direct key signature)")
SP = "src/packet/signature/subpacket.rs"
for _n, _l in [("SignatureCreationTime", "spCreationTime"), ("IssuerKeyId", "spIssuerKeyId"), ("PreferredSymmetricAlgorithms", "spPrefSym"),
               ("PreferredHashAlgorithms", "spPrefHash"), ("PreferredCompressionAlgorithms", "spPrefComp"), ("PrimaryUserId", "spPrimaryUserId"),
               ("KeyFlags", "spKeyFlags"), ("Features", "spFeatures"), ("EmbeddedSignature", "spEmbeddedSignature"),
               ("IssuerFingerprint", "spIssuerFingerprint"), ("PreferredAead", "spPrefAead")]:
    item(_l, SP, r"SubpacketType::%s => (\d+)," % _n, "SubpacketType::%s id" % _n)


def _kf_bit(field):
    def f(text):
        i = text.index("pub struct KnownKeyFlags")
        body = text[i:text.index("}", i)]
        pos = 0
        for m in re.finditer(r"#\[bits\((\d+)\)\]\s*(\w+):", body):
            if m.group(2) == field:
                return pos
            pos += int(m.group(1))
        return None
    return f


for _f, _l in [("certify", "kfCertifyBit"), ("sign", "kfSignBit"), ("encrypt_comms", "kfEncryptCommsBit"),
               ("encrypt_storage", "kfEncryptStorageBit"), ("authentication", "kfAuthenticationBit")]:
    item(_l, ST, _kf_bit(_f), "KnownKeyFlags bit position of `%s` (lsb order)" % _f)


def _sign_hash(token):
    def f(text):
        body = _fn_body(text, "pub fn hash_alg(&self) -> HashAlgorithm")
        prev = 0
        hs = read("src/crypto/hash.rs")
        for m in re.finditer(r"=>\s*HashAlgorithm::(\w+)", body):
            arm = body[prev:m.start()]
            prev = m.end()
            if token in arm:
                mm = re.search(r"^\s*%s = (\d+),?" % m.group(1), hs, re.M)
                return int(mm.group(1))
        return None
    return f


for _t, _l in [("PublicParams::RSA(", "signHashRsa"), ("PublicParams::DSA(", "signHashDsa"), ("PublicParams::EdDSALegacy(", "signHashEddsaLegacy"),
               ("PublicParams::Ed25519(", "signHashEd25519"), ("EcdsaPublicParams::P256", "signHashEcdsaP256"),
               ("EcdsaPublicParams::Secp256k1", "signHashEcdsaSecp256k1"), ("EcdsaPublicParams::P384", "signHashEcdsaP384"),
               ("EcdsaPublicParams::P521", "signHashEcdsaP521"), ("PublicParams::Ed448(", "signHashEd448")]:
    item(_l, "src/types/params/public.rs", _sign_hash(_t), "PublicParams::hash_alg for %s…) resolved through enum HashAlgorithm" % _t)
