import RpgpProofs.ArmorB64
import RpgpProofs.ArmorBody
/-!
# The strict decoder accepts canonical encodings only
-/
namespace Rpgp.Armor

def b64valInvOk (c : Byte) : Bool :=
  match b64val c with
  | some v => b64char v == c && decide (v < 64)
  | none => true

theorem b64char_val : ∀ c : Byte, ∀ v, b64val c = some v → b64char v = c ∧ v < 64 := by
  have : ∀ c : Byte, b64valInvOk c = true := by
    apply byte_forall
    decide +kernel
  intro c v h
  have := this c
  simp only [b64valInvOk, h, Bool.and_eq_true, beq_iff_eq, decide_eq_true_eq] at this
  exact this

theorem toUInt8_toNat_lt (n : Nat) (h : n < 256) : n.toUInt8.toNat = n := by
  simp [Nat.toUInt8]; omega

theorem dec4_canonical (a b c e : Byte) (q : Bytes) (h : dec4 a b c e = some q) :
    ∃ x y z, q = [x, y, z] ∧ enc3 x y z = [a, b, c, e] := by
  simp only [dec4, Option.bind_eq_bind, Option.pure_def] at h
  cases h0 : b64val a with
  | none => simp [h0] at h
  | some v0 =>
    cases h1 : b64val b with
    | none => simp [h0, h1] at h
    | some v1 =>
      cases h2 : b64val c with
      | none => simp [h0, h1, h2] at h
      | some v2 =>
        cases h3 : b64val e with
        | none => simp [h0, h1, h2, h3] at h
        | some v3 =>
          simp only [h0, h1, h2, h3, Option.bind_some, Option.some.injEq] at h
          obtain ⟨e0, l0⟩ := b64char_val a v0 h0
          obtain ⟨e1, l1⟩ := b64char_val b v1 h1
          obtain ⟨e2, l2⟩ := b64char_val c v2 h2
          obtain ⟨e3, l3⟩ := b64char_val e v3 h3
          refine ⟨_, _, _, h.symm, ?_⟩
          simp only [enc3]
          rw [toUInt8_toNat_lt _ (by omega), toUInt8_toNat_lt _ (by omega), toUInt8_toNat_lt _ (by omega)]
          have k0 : ((v0 * 262144 + v1 * 4096 + v2 * 64 + v3) / 65536 % 256 * 65536 +
              (v0 * 262144 + v1 * 4096 + v2 * 64 + v3) / 256 % 256 * 256 +
              (v0 * 262144 + v1 * 4096 + v2 * 64 + v3) % 256) = v0 * 262144 + v1 * 4096 + v2 * 64 + v3 := by omega
          rw [k0]
          have k1 : (v0 * 262144 + v1 * 4096 + v2 * 64 + v3) / 262144 % 64 = v0 := by omega
          have k2 : (v0 * 262144 + v1 * 4096 + v2 * 64 + v3) / 4096 % 64 = v1 := by omega
          have k3 : (v0 * 262144 + v1 * 4096 + v2 * 64 + v3) / 64 % 64 = v2 := by omega
          have k4 : (v0 * 262144 + v1 * 4096 + v2 * 64 + v3) % 64 = v3 := by omega
          rw [k1, k2, k3, k4, e0, e1, e2, e3]

theorem decLast_canonical (a b c e : Byte) (q : Bytes) (h : decLast a b c e = some q) :
    b64enc q = [a, b, c, e] := by
  unfold decLast at h
  by_cases he : e = EQS
  · simp only [he, if_true] at h
    by_cases hc : c = EQS
    · simp only [hc, if_true, Option.bind_eq_bind, Option.pure_def] at h
      cases h0 : b64val a with
      | none => simp [h0] at h
      | some v0 =>
        cases h1 : b64val b with
        | none => simp [h0, h1] at h
        | some v1 =>
          simp only [h0, h1, Option.bind_some] at h
          by_cases hm : (v0 * 64 + v1) % 16 = 0
          · simp only [hm, if_true, Option.some.injEq] at h
            obtain ⟨e0, l0⟩ := b64char_val a v0 h0
            obtain ⟨e1, l1⟩ := b64char_val b v1 h1
            subst h
            simp only [b64enc, enc1, he, hc]
            rw [toUInt8_toNat_lt _ (by omega)]
            have k1 : (v0 * 64 + v1) / 16 * 16 / 64 % 64 = v0 := by omega
            have k2 : (v0 * 64 + v1) / 16 * 16 % 64 = v1 := by omega
            rw [k1, k2, e0, e1]
          · simp [hm] at h
    · simp only [hc, if_false, Option.bind_eq_bind, Option.pure_def] at h
      cases h0 : b64val a with
      | none => simp [h0] at h
      | some v0 =>
        cases h1 : b64val b with
        | none => simp [h0, h1] at h
        | some v1 =>
          cases h2 : b64val c with
          | none => simp [h0, h1, h2] at h
          | some v2 =>
            simp only [h0, h1, h2, Option.bind_some] at h
            by_cases hm : (v0 * 4096 + v1 * 64 + v2) % 4 = 0
            · simp only [hm, if_true, Option.some.injEq] at h
              obtain ⟨e0, l0⟩ := b64char_val a v0 h0
              obtain ⟨e1, l1⟩ := b64char_val b v1 h1
              obtain ⟨e2, l2⟩ := b64char_val c v2 h2
              subst h
              simp only [b64enc, enc2, he]
              rw [toUInt8_toNat_lt _ (by omega), toUInt8_toNat_lt _ (by omega)]
              have k0 : ((v0 * 4096 + v1 * 64 + v2) / 1024 * 256 + (v0 * 4096 + v1 * 64 + v2) / 4 % 256) * 4 =
                  v0 * 4096 + v1 * 64 + v2 := by omega
              rw [k0]
              have k1 : (v0 * 4096 + v1 * 64 + v2) / 4096 % 64 = v0 := by omega
              have k2 : (v0 * 4096 + v1 * 64 + v2) / 64 % 64 = v1 := by omega
              have k3 : (v0 * 4096 + v1 * 64 + v2) % 64 = v2 := by omega
              rw [k1, k2, k3, e0, e1, e2]
            · simp [hm] at h
  · simp only [he, if_false] at h
    obtain ⟨x, y, z, hq, henc⟩ := dec4_canonical a b c e q h
    subst hq
    simp [b64enc, henc]

/-- **canonical only**: whatever the strict decoder accepts is the encoding of what it returns
(no alternative padding, no non-zero spare bits, no foreign symbols) -/
theorem b64dec_canonical : ∀ (n : Nat) (t d : Bytes), t.length ≤ n → b64dec t = some d → b64enc d = t := by
  intro n
  induction n with
  | zero =>
    intro t d hl h
    have : t = [] := List.eq_nil_of_length_eq_zero (by omega)
    subst this
    simp [b64dec] at h; subst h; rfl
  | succ n ih =>
    intro t d hl h
    match t, h with
    | [], h => simp [b64dec] at h; subst h; rfl
    | [_], h => simp [b64dec] at h
    | [_, _], h => simp [b64dec] at h
    | [_, _, _], h => simp [b64dec] at h
    | [a, b, c, e], h =>
      simp only [b64dec] at h
      exact decLast_canonical a b c e d h
    | a :: b :: c :: e :: x :: r, h =>
      rw [b64dec_quad a b c e (x :: r) (by simp)] at h
      cases hq : dec4 a b c e with
      | none => simp [hq] at h
      | some q =>
        cases hr : b64dec (x :: r) with
        | none => simp [hq, hr] at h
        | some rest =>
          simp only [hq, hr, Option.bind_some, Option.some.injEq] at h
          obtain ⟨x', y', z', hq', henc⟩ := dec4_canonical a b c e q hq
          have := ih (x :: r) rest (by simp at hl ⊢; omega) hr
          subst h hq'
          simp [b64enc, henc, this]

/-- a single quantum decodes to one, two or three octets -/
theorem decLast_length (a b c e : Byte) (q : Bytes) (h : decLast a b c e = some q) :
    1 ≤ q.length ∧ q.length ≤ 3 := by
  have := decLast_canonical a b c e q h
  have hl := b64enc_length q
  rw [this] at hl
  simp at hl
  omega

end Rpgp.Armor
