#!/bin/bash
# refresh_ws.sh <id>: bring a builder workspace up to date with /verif (working tree) and /repo (HEAD working tree);
# files that exist only in the workspace are kept, build directories are kept.
set -e
ID="$1"; W=/tmp/w/$ID
rsync -a --exclude .git --exclude harness/target --exclude lean/.lake --exclude work --exclude replays --exclude evidence /verif/ "$W/verif/"
rsync -a --delete --exclude target --exclude .git /repo/ "$W/repo/"
sed -i "s#path = \"/repo\"#path = \"$W/repo\"#" "$W/verif/harness/Cargo.toml"
sed -i "s#cp /repo/Cargo.lock#cp $W/repo/Cargo.lock#" "$W/verif/setup.sh"
echo refreshed $W
