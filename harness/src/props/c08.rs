//! C08 — secret-key locking: the right password restores the key, nothing else does.
//!
//! Correspondence ops (model: RpgpModel/SecretKey.lean, driver: RpgpModel/Ops/C08.lean):
//!   sk_usage  ver= o=                 usage octet -> S2kParams variant built by parse_secret_fields,
//!                                     octet written back, admitted by SecretParams::from_slice
//!   sk_parse  ver= fmt= data=         SecretParams::from_slice on the secret part of a key packet
//!   sk_ser    ver= var= .. data=      SecretParams::Encrypted(..).to_writer
//!   sk_pub    ver= created= ..        PubKeyInner serialisation (the bytes bound as AEAD AD)
//!   sk_lock   .. mat= <tables>        SecretKey::set_password_with_s2k (PlainSecretParams::encrypt)
//!   sk_unlock .. data= <tables>       SecretKey::unlock (EncryptedSecretParams::unlock)
//! The primitives of the model are one-entry tables carried by the request; the harness fills them
//! by evaluating its own RFC 9580 plan (S2K, CFB, SHA-1, HKDF-SHA256, EAX/OCB/GCM) with the
//! RustCrypto crates.  No rpgp code is used to fill a table.
//!
//! Oracles (from the property text only):
//!   lock_unlock_roundtrip      "Locking .. and unlocking it with the same password returns exactly the
//!                               original secret material, for every supported S2K usage, specifier,
//!                               cipher, AEAD mode and key version"
//!   roundtrip_after_serialize  ".. also after the locked key has been serialized and parsed"
//!   wire_unlock_any_usage      "a locked key that the library accepts from the wire unlocks with its
//!                               password whichever S2K usage octet it carries" (keys hand-built by
//!                               the harness: 253, 254, 255 and legacy cipher octets)
//!   wrong_password_fails       "Unlocking with any other password .. fails with an error"
//!   tamper_blob_fails          ".. or after any change to the protected bytes .. fails"
//!   tamper_public_aead_fails   ".. or (for AEAD protection) to the bound public key fields, fails"
//!   tamper_s2k_params_never_other_material   quantifier: single-bit flips of the S2K params: an error
//!                               or the original material, never different key material
//!   tamper_public_never_other_material       same for the public fields of non-AEAD keys

use cfb_mode::cipher::{AsyncStreamCipher, KeyIvInit};
use digest::DynDigest;
use pgp::composed::{Deserializable, KeyType, SecretKeyParamsBuilder, SignedSecretKey, SubkeyParamsBuilder};
use pgp::crypto::aead::AeadAlgorithm;
use pgp::crypto::ecc_curve::ECCCurve;
use pgp::crypto::hash::HashAlgorithm;
use pgp::crypto::public_key::PublicKeyAlgorithm;
use pgp::crypto::sym::SymmetricKeyAlgorithm;
use pgp::packet::{Packet, PacketParser, PacketTrait, PubKeyInner, PublicKey, PublicSubkey, SecretKey, SecretSubkey};
use pgp::ser::Serialize;
use pgp::types::{
    EncryptedSecretParams, KeyDetails, KeyVersion, Password, PlainSecretParams, PublicParams, S2kParams, SecretParams,
    StringToKey, Timestamp,
};
use rand::{Rng, RngCore, SeedableRng};

use crate::ctx::{guarded, hx, Ctx};
use crate::frame;

// ------------------------------------------------------------------------------------------
// independent primitives (RustCrypto, RFC 9580 §3.7.1) — no rpgp code below this line until
// "real crate"
// ------------------------------------------------------------------------------------------

fn new_hash(id: u8) -> Option<Box<dyn DynDigest>> {
    Some(match id {
        1 => Box::new(md5::Md5::default()),
        2 => Box::new(sha1::Sha1::default()),
        3 => Box::new(ripemd::Ripemd160::default()),
        8 => Box::new(sha2::Sha256::default()),
        9 => Box::new(sha2::Sha384::default()),
        10 => Box::new(sha2::Sha512::default()),
        11 => Box::new(sha2::Sha224::default()),
        12 => Box::new(sha3::Sha3_256::default()),
        14 => Box::new(sha3::Sha3_512::default()),
        _ => return None,
    })
}

fn h_md5(d: &[u8]) -> Vec<u8> {
    let mut h = new_hash(1).expect("md5");
    h.update(d);
    h.finalize().to_vec()
}

fn h_sha1(d: &[u8]) -> Vec<u8> {
    let mut h = new_hash(2).expect("sha1");
    h.update(d);
    h.finalize().to_vec()
}

fn decode_count(c: u8) -> usize {
    (16 + (c & 15) as usize) << ((c >> 4) as usize + 6)
}

/// RFC 9580 §3.7.1.1-3: simple / salted / iterated-and-salted
fn own_s2k_hash(hash: u8, salt: &[u8], pw: &[u8], count: Option<u8>, ks: usize) -> Option<Vec<u8>> {
    new_hash(hash)?;
    let mut out = Vec::new();
    let mut round = 0usize;
    let mut data = salt.to_vec();
    data.extend_from_slice(pw);
    while out.len() < ks {
        let mut h = new_hash(hash)?;
        h.update(&vec![0u8; round]);
        match count {
            None => h.update(&data),
            Some(c) => {
                let total = decode_count(c).max(data.len());
                let mut fed = 0usize;
                while !data.is_empty() && fed + data.len() <= total {
                    h.update(&data);
                    fed += data.len();
                }
                if !data.is_empty() {
                    h.update(&data[..total - fed]);
                }
            }
        }
        out.extend_from_slice(&h.finalize());
        round += 1;
    }
    out.truncate(ks);
    Some(out)
}

/// RFC 9580 §3.7.1.4 with the admission limits documented in types/s2k.rs (t, p <= 32; m <= 2 GiB)
fn own_argon2(salt: &[u8], t: u8, p: u8, m_enc: u8, pw: &[u8], ks: usize) -> Option<Vec<u8>> {
    if t > 32 || p > 32 {
        return None;
    }
    let min_m = if p == 0 { 0 } else { (p as f32).log2().ceil() as u8 };
    if m_enc < min_m || m_enc > 31 {
        return None;
    }
    let m = 1u32.checked_shl(m_enc as u32)?;
    if m > 2 * 1024 * 1024 {
        return None;
    }
    let params = argon2::Params::new(m, t as u32, p as u32, Some(ks)).ok()?;
    let a2 = argon2::Argon2::new(argon2::Algorithm::Argon2id, argon2::Version::V0x13, params);
    let mut out = vec![0u8; ks];
    a2.hash_password_into(pw, salt, &mut out).ok()?;
    Some(out)
}

fn own_key_size(sym: u8) -> usize {
    match sym {
        1 | 3 | 4 | 7 | 11 => 16,
        2 | 8 | 12 => 24,
        9 | 10 | 13 => 32,
        _ => 0,
    }
}

fn own_block_size(sym: u8) -> usize {
    match sym {
        1..=4 => 8,
        7..=13 => 16,
        _ => 0,
    }
}

fn own_nonce_size(mode: u8) -> usize {
    match mode {
        1 => 16,
        2 => 15,
        3 => 12,
        _ => 0,
    }
}

/// plain CFB (full block feedback, no OpenPGP prefix / resync) with the given IV
fn own_cfb(sym: u8, key: &[u8], iv: &[u8], data: &[u8], enc: bool) -> Option<Vec<u8>> {
    let mut buf = data.to_vec();
    macro_rules! go {
        ($c:ty) => {{
            if enc {
                cfb_mode::Encryptor::<$c>::new_from_slices(key, iv).ok()?.encrypt(&mut buf);
            } else {
                cfb_mode::Decryptor::<$c>::new_from_slices(key, iv).ok()?.decrypt(&mut buf);
            }
        }};
    }
    match sym {
        1 => go!(idea::Idea),
        2 => go!(des::TdesEde3),
        3 => go!(cast5::Cast5),
        4 => go!(blowfish::Blowfish),
        7 => go!(aes::Aes128),
        8 => go!(aes::Aes192),
        9 => go!(aes::Aes256),
        10 => go!(twofish::Twofish),
        11 => go!(camellia::Camellia128),
        12 => go!(camellia::Camellia192),
        13 => go!(camellia::Camellia256),
        _ => return None,
    }
    Some(buf)
}

fn own_hkdf(ikm: &[u8], info: &[u8]) -> Vec<u8> {
    let hk = hkdf::Hkdf::<sha2::Sha256>::new(None, ikm);
    let mut okm = vec![0u8; 32];
    hk.expand(info, &mut okm).expect("hkdf");
    okm
}

/// AEAD seal / open; `key` is the 32-octet HKDF output, truncated to the cipher's key size
fn own_aead(sym: u8, mode: u8, key: &[u8], nonce: &[u8], ad: &[u8], data: &[u8], seal: bool) -> Option<Vec<u8>> {
    use aead::{Aead, KeyInit, Payload};
    use generic_array::typenum::{U12, U15, U16};
    use generic_array::GenericArray;
    if nonce.len() != own_nonce_size(mode) || own_nonce_size(mode) == 0 {
        return None;
    }
    let ks = match sym {
        7 => 16,
        8 => 24,
        9 => 32,
        _ => return None,
    };
    if key.len() < ks {
        return None;
    }
    let key = &key[..ks];
    let pl = Payload { msg: data, aad: ad };
    macro_rules! go {
        ($c:ty) => {{
            let c = <$c>::new_from_slice(key).ok()?;
            let n = GenericArray::from_slice(nonce);
            if seal { c.encrypt(n, pl).ok() } else { c.decrypt(n, pl).ok() }
        }};
    }
    match (sym, mode) {
        (7, 1) => go!(eax::Eax<aes::Aes128>),
        (8, 1) => go!(eax::Eax<aes::Aes192>),
        (9, 1) => go!(eax::Eax<aes::Aes256>),
        (7, 2) => go!(ocb3::Ocb3<aes::Aes128, U15, U16>),
        (8, 2) => go!(ocb3::Ocb3<aes::Aes192, U15, U16>),
        (9, 2) => go!(ocb3::Ocb3<aes::Aes256, U15, U16>),
        (7, 3) => go!(aes_gcm::Aes128Gcm),
        (8, 3) => go!(aes_gcm::AesGcm<aes::Aes192, U12>),
        (9, 3) => go!(aes_gcm::Aes256Gcm),
        _ => None,
    }
}

fn sum16(d: &[u8]) -> u16 {
    (d.iter().map(|&b| b as u32).sum::<u32>() & 0xffff) as u16
}

// ------------------------------------------------------------------------------------------
// the harness' own description of S2K specifiers and S2K usage parameters
// ------------------------------------------------------------------------------------------

#[derive(Clone, Debug, PartialEq)]
enum HS2k {
    Simple(u8),
    Salted(u8, [u8; 8]),
    Iter(u8, [u8; 8], u8),
    Argon2([u8; 16], u8, u8, u8),
    /// reserved (2), private (100..=110) and unknown types: type octet + opaque rest
    Opaque(u8, Vec<u8>),
}

impl HS2k {
    fn ser(&self) -> Vec<u8> {
        match self {
            HS2k::Simple(h) => vec![0, *h],
            HS2k::Salted(h, s) => [&[1, *h][..], &s[..]].concat(),
            HS2k::Iter(h, s, c) => [&[3, *h][..], &s[..], &[*c][..]].concat(),
            HS2k::Argon2(s, t, p, m) => [&[4][..], &s[..], &[*t, *p, *m][..]].concat(),
            HS2k::Opaque(t, d) => [&[*t][..], &d[..]].concat(),
        }
    }

    fn kind(&self) -> &'static str {
        match self {
            HS2k::Simple(_) => "simple",
            HS2k::Salted(..) => "salted",
            HS2k::Iter(..) => "iterated",
            HS2k::Argon2(..) => "argon2",
            HS2k::Opaque(..) => "opaque",
        }
    }

    fn derive(&self, pw: &[u8], ks: usize) -> Option<Vec<u8>> {
        match self {
            HS2k::Simple(h) => own_s2k_hash(*h, &[], pw, None, ks),
            HS2k::Salted(h, s) => own_s2k_hash(*h, s, pw, None, ks),
            HS2k::Iter(h, s, c) => own_s2k_hash(*h, s, pw, Some(*c), ks),
            HS2k::Argon2(s, t, p, m) => own_argon2(s, *t, *p, *m, pw, ks),
            HS2k::Opaque(..) => None,
        }
    }

    fn to_rpgp(&self) -> StringToKey {
        match self {
            HS2k::Simple(h) => StringToKey::Simple { hash_alg: HashAlgorithm::from(*h) },
            HS2k::Salted(h, s) => StringToKey::Salted { hash_alg: HashAlgorithm::from(*h), salt: *s },
            HS2k::Iter(h, s, c) => StringToKey::IteratedAndSalted { hash_alg: HashAlgorithm::from(*h), salt: *s, count: *c },
            HS2k::Argon2(s, t, p, m) => StringToKey::Argon2 { salt: *s, t: *t, p: *p, m_enc: *m },
            HS2k::Opaque(2, d) => StringToKey::Reserved { unknown: d.clone().into() },
            HS2k::Opaque(t @ 100..=110, d) => StringToKey::Private { typ: *t, unknown: d.clone().into() },
            HS2k::Opaque(t, d) => StringToKey::Other { typ: *t, unknown: d.clone().into() },
        }
    }
}

/// var: 1 legacy CFB (usage octet = cipher), 2 AEAD (253), 3 CFB+SHA-1 (254), 4 CFB+sum16 (255)
#[derive(Clone, Debug, PartialEq)]
struct HP {
    var: u8,
    sym: u8,
    mode: u8,
    s2k: HS2k,
    iv: Vec<u8>,
}

impl HP {
    fn usage_octet(&self) -> u8 {
        match self.var {
            1 => self.sym,
            2 => 253,
            3 => 254,
            _ => 255,
        }
    }

    fn to_rpgp(&self) -> S2kParams {
        let sym_alg = SymmetricKeyAlgorithm::from(self.sym);
        match self.var {
            1 => S2kParams::LegacyCfb { sym_alg, iv: self.iv.clone().into() },
            2 => S2kParams::Aead {
                sym_alg,
                aead_mode: AeadAlgorithm::from(self.mode),
                s2k: self.s2k.to_rpgp(),
                nonce: self.iv.clone().into(),
            },
            3 => S2kParams::Cfb { sym_alg, s2k: self.s2k.to_rpgp(), iv: self.iv.clone().into() },
            _ => S2kParams::MalleableCfb { sym_alg, s2k: self.s2k.to_rpgp(), iv: self.iv.clone().into() },
        }
    }

    /// RFC 9580 §5.5.3: the secret part of the packet (usage octet .. protected data)
    fn wire(&self, ver: u8, blob: &[u8]) -> Vec<u8> {
        let s2k = self.s2k.ser();
        let mut f = Vec::new();
        match self.var {
            1 => f.extend_from_slice(&self.iv),
            2 => {
                f.push(self.sym);
                f.push(self.mode);
                if ver == 6 {
                    f.push(s2k.len() as u8);
                }
                f.extend_from_slice(&s2k);
                f.extend_from_slice(&self.iv);
            }
            3 => {
                f.push(self.sym);
                if ver == 6 {
                    f.push(s2k.len() as u8);
                }
                f.extend_from_slice(&s2k);
                f.extend_from_slice(&self.iv);
            }
            _ => {
                f.push(self.sym);
                f.extend_from_slice(&s2k);
                f.extend_from_slice(&self.iv);
            }
        }
        let mut out = vec![self.usage_octet()];
        if ver == 6 {
            out.push(f.len() as u8);
        }
        out.extend_from_slice(&f);
        out.extend_from_slice(blob);
        out
    }

    fn req(&self) -> String {
        let s2k = if self.var == 1 { "-".to_string() } else { hx(&self.s2k.ser()) };
        format!("var={} sym={} mode={} s2k={} iv={}", self.var, self.sym, self.mode, s2k, hx(&self.iv))
    }

    fn own_key(&self, pw: &[u8]) -> Option<Vec<u8>> {
        if self.var == 1 { Some(h_md5(pw)) } else { self.s2k.derive(pw, own_key_size(self.sym)) }
    }
}

fn own_info(tag: u8, ver: u8, sym: u8, mode: u8) -> Vec<u8> {
    vec![0xC0 | tag, ver, sym, mode]
}

fn own_ad(tag: u8, pub_body: &[u8]) -> Vec<u8> {
    let mut ad = vec![0xC0 | tag];
    ad.extend_from_slice(pub_body);
    ad
}

/// RFC 9580 §3.7.2.1 / §5.5.3: the protected data for each usage
fn own_protect(ver: u8, tag: u8, pub_body: &[u8], hp: &HP, pw: &[u8], raw: &[u8]) -> Option<Vec<u8>> {
    match hp.var {
        2 => {
            let dk = hp.own_key(pw)?;
            let okm = own_hkdf(&dk, &own_info(tag, ver, hp.sym, hp.mode));
            own_aead(hp.sym, hp.mode, &okm, &hp.iv, &own_ad(tag, pub_body), raw, true)
        }
        3 => {
            let key = hp.own_key(pw)?;
            let mut pt = raw.to_vec();
            pt.extend_from_slice(&h_sha1(raw));
            own_cfb(hp.sym, &key, &hp.iv, &pt, true)
        }
        _ => {
            let key = hp.own_key(pw)?;
            let mut pt = raw.to_vec();
            pt.extend_from_slice(&sum16(raw).to_be_bytes());
            own_cfb(hp.sym, &key, &hp.iv, &pt, true)
        }
    }
}

#[derive(Default)]
struct Tables {
    ks: usize,
    dk: Option<Vec<u8>>,
    md5: Vec<u8>,
    hin: Option<Vec<u8>>,
    hout: Option<Vec<u8>>,
    cfb: Option<(Vec<u8>, Vec<u8>, Vec<u8>, Vec<u8>)>,
    hk: Option<(Vec<u8>, Vec<u8>, Vec<u8>)>,
    ae: Option<(Vec<u8>, Vec<u8>, Vec<u8>, Vec<u8>, Vec<u8>)>,
}

fn ohx(o: &Option<Vec<u8>>) -> String {
    match o {
        Some(v) => hx(v),
        None => "none".to_string(),
    }
}

impl Tables {
    fn line(&self) -> String {
        let mut s = format!("ks={} dk={} md5={} hin={} hout={}", self.ks, ohx(&self.dk), hx(&self.md5), ohx(&self.hin), ohx(&self.hout));
        match &self.cfb {
            Some((k, v, p, c)) => s.push_str(&format!(" ck={} civ={} cpt={} cct={}", hx(k), hx(v), hx(p), hx(c))),
            None => s.push_str(" ck=none civ=none cpt=none cct=none"),
        }
        match &self.hk {
            Some((i, f, o)) => s.push_str(&format!(" hikm={} hinfo={} hokm={}", hx(i), hx(f), hx(o))),
            None => s.push_str(" hikm=none hinfo=none hokm=none"),
        }
        match &self.ae {
            Some((k, n, d, p, c)) => s.push_str(&format!(" akey={} anonce={} aad={} apt={} act={}", hx(k), hx(n), hx(d), hx(p), hx(c))),
            None => s.push_str(" akey=none anonce=none aad=none apt=none act=none"),
        }
        s
    }
}

fn base_tables(hp: &HP, pw: &[u8]) -> Tables {
    let ks = own_key_size(hp.sym);
    Tables { ks, dk: if hp.var == 1 { None } else { hp.s2k.derive(pw, ks) }, md5: h_md5(pw), ..Default::default() }
}

/// tables for the lock direction: the harness' plan applied to the material
fn tables_lock(ver: u8, tag: u8, pub_body: &[u8], hp: &HP, pw: &[u8], raw: &[u8]) -> Tables {
    let mut t = base_tables(hp, pw);
    match hp.var {
        2 => {
            if let Some(dk) = &t.dk {
                let info = own_info(tag, ver, hp.sym, hp.mode);
                let okm = own_hkdf(dk, &info);
                let ad = own_ad(tag, pub_body);
                t.hk = Some((dk.clone(), info, okm.clone()));
                if let Some(ct) = own_aead(hp.sym, hp.mode, &okm, &hp.iv, &ad, raw, true) {
                    t.ae = Some((okm, hp.iv.clone(), ad, raw.to_vec(), ct));
                }
            }
        }
        _ => {
            let mut pt = raw.to_vec();
            if hp.var == 3 {
                t.hin = Some(raw.to_vec());
                t.hout = Some(h_sha1(raw));
                pt.extend_from_slice(&h_sha1(raw));
            } else {
                pt.extend_from_slice(&sum16(raw).to_be_bytes());
            }
            if let Some(key) = hp.own_key(pw) {
                if let Some(ct) = own_cfb(hp.sym, &key, &hp.iv, &pt, true) {
                    t.cfb = Some((key, hp.iv.clone(), pt, ct));
                }
            }
        }
    }
    t
}

/// tables for the unlock direction: the primitives applied to the protected data as found
fn tables_unlock(ver: u8, tag: u8, pub_body: &[u8], hp: &HP, pw: &[u8], blob: &[u8]) -> Tables {
    let mut t = base_tables(hp, pw);
    match hp.var {
        2 => {
            if let Some(dk) = &t.dk {
                let info = own_info(tag, ver, hp.sym, hp.mode);
                let okm = own_hkdf(dk, &info);
                let ad = own_ad(tag, pub_body);
                t.hk = Some((dk.clone(), info, okm.clone()));
                if let Some(pt) = own_aead(hp.sym, hp.mode, &okm, &hp.iv, &ad, blob, false) {
                    t.ae = Some((okm, hp.iv.clone(), ad, pt, blob.to_vec()));
                }
            }
        }
        _ => {
            if let Some(key) = hp.own_key(pw) {
                if let Some(pt) = own_cfb(hp.sym, &key, &hp.iv, blob, false) {
                    if hp.var == 3 && pt.len() >= 20 {
                        let body = pt[..pt.len() - 20].to_vec();
                        t.hout = Some(h_sha1(&body));
                        t.hin = Some(body);
                    }
                    t.cfb = Some((key, hp.iv.clone(), pt, blob.to_vec()));
                }
            }
        }
    }
    t
}

// ------------------------------------------------------------------------------------------
// real crate
// ------------------------------------------------------------------------------------------

#[derive(Clone)]
struct KeyFix {
    name: &'static str,
    fmt: &'static str,
    ver: u8,
    alg: PublicKeyAlgorithm,
    inner: PubKeyInner,
    pubp: PublicParams,
    plain: PlainSecretParams,
    raw: Vec<u8>,
    pub_body: Vec<u8>,
    created: u32,
}

fn kv(ver: u8) -> KeyVersion {
    KeyVersion::from(ver)
}

/// the password through one of the conversions the API offers, in rotation: the octets are the
/// password, whichever way they were handed over (`&[u8]`, `&str`, `String` when they are UTF-8)
fn mk_password(pw: &[u8]) -> Password {
    static K: std::sync::atomic::AtomicUsize = std::sync::atomic::AtomicUsize::new(0);
    let k = K.fetch_add(1, std::sync::atomic::Ordering::Relaxed);
    match (std::str::from_utf8(pw), k % 3) {
        (Ok(s), 1) => Password::from(s),
        (Ok(s), 2) => Password::from(s.to_string()),
        _ => Password::from(pw),
    }
}

fn raw_of(p: &PlainSecretParams) -> Vec<u8> {
    let mut v = Vec::new();
    // version 6 form = to_writer_raw without the v3/v4 checksum
    p.to_writer(&mut v, KeyVersion::V6).expect("serialise plain material");
    v
}

#[derive(Clone)]
enum AnyKey {
    P(SecretKey),
    S(SecretSubkey),
}

impl AnyKey {
    fn build(fix: &KeyFix, tag: u8, secret: SecretParams) -> Option<AnyKey> {
        if tag == 5 {
            Some(AnyKey::P(SecretKey::new(PublicKey::from_inner(fix.inner.clone()).ok()?, secret).ok()?))
        } else {
            Some(AnyKey::S(SecretSubkey::new(PublicSubkey::from_inner(fix.inner.clone()).ok()?, secret).ok()?))
        }
    }

    fn lock(&mut self, pw: &[u8], p: S2kParams) -> Result<(), String> {
        let pw = mk_password(pw);
        match self {
            AnyKey::P(k) => k.set_password_with_s2k(&pw, p).map_err(|e| e.to_string()),
            AnyKey::S(k) => k.set_password_with_s2k(&pw, p).map_err(|e| e.to_string()),
        }
    }

    fn unlock_raw(&self, pw: &[u8]) -> Result<Vec<u8>, String> {
        let pw = mk_password(pw);
        let r = match self {
            AnyKey::P(k) => k.unlock(&pw, |_, plain| Ok(raw_of(plain))),
            AnyKey::S(k) => k.unlock(&pw, |_, plain| Ok(raw_of(plain))),
        };
        match r {
            Ok(Ok(v)) => Ok(v),
            Ok(Err(e)) => Err(e.to_string()),
            Err(e) => Err(e.to_string()),
        }
    }

    fn remove_password(&mut self, pw: &[u8]) -> Result<(), String> {
        let pw = mk_password(pw);
        match self {
            AnyKey::P(k) => k.remove_password(&pw).map_err(|e| e.to_string()),
            AnyKey::S(k) => k.remove_password(&pw).map_err(|e| e.to_string()),
        }
    }

    fn secret_params(&self) -> &SecretParams {
        match self {
            AnyKey::P(k) => k.secret_params(),
            AnyKey::S(k) => k.secret_params(),
        }
    }

    fn packet_bytes(&self) -> Option<Vec<u8>> {
        let mut v = Vec::new();
        match self {
            AnyKey::P(k) => k.to_writer_with_header(&mut v).ok()?,
            AnyKey::S(k) => k.to_writer_with_header(&mut v).ok()?,
        }
        Some(v)
    }

    fn public_body(&self) -> Option<Vec<u8>> {
        match self {
            AnyKey::P(k) => k.public_key().to_bytes().ok(),
            AnyKey::S(k) => k.public_key().to_bytes().ok(),
        }
    }

    fn body_bytes(&self) -> Option<Vec<u8>> {
        match self {
            AnyKey::P(k) => k.to_bytes().ok(),
            AnyKey::S(k) => k.to_bytes().ok(),
        }
    }
}

fn parse_key_packet(bytes: &[u8]) -> Result<AnyKey, String> {
    match PacketParser::new(bytes).next() {
        Some(Ok(Packet::SecretKey(k))) => Ok(AnyKey::P(k)),
        Some(Ok(Packet::SecretSubkey(k))) => Ok(AnyKey::S(k)),
        Some(Ok(_)) => Err("not a secret key packet".into()),
        Some(Err(e)) => Err(e.to_string()),
        None => Err("no packet".into()),
    }
}

/// the unlock result as a canonical answer
fn ans_unlock(r: &Result<Result<Vec<u8>, String>, String>) -> String {
    match r {
        Ok(Ok(v)) => format!("ok:{}", hx(v)),
        Ok(Err(_)) => "err".to_string(),
        Err(_) => "panic".to_string(),
    }
}

fn describe(sp: &SecretParams) -> String {
    match sp {
        SecretParams::Plain(p) => format!("ok:plain:{}", hx(&raw_of(p))),
        SecretParams::Encrypted(e) => {
            let id = e.string_to_key_id();
            let ser = |s: &StringToKey| s.to_bytes().map(|b| hx(&b)).unwrap_or_else(|_| "?".into());
            let (var, sym, mode, s2k, iv) = match e.string_to_key_params() {
                S2kParams::Unprotected => (0, 0u8, 0u8, "-".to_string(), "-".to_string()),
                S2kParams::LegacyCfb { sym_alg, iv } => (1, u8::from(*sym_alg), 0, "-".to_string(), hx(iv)),
                S2kParams::Aead { sym_alg, aead_mode, s2k, nonce } => (2, u8::from(*sym_alg), u8::from(*aead_mode), ser(s2k), hx(nonce)),
                S2kParams::Cfb { sym_alg, s2k, iv } => (3, u8::from(*sym_alg), 0, ser(s2k), hx(iv)),
                S2kParams::MalleableCfb { sym_alg, s2k, iv } => (4, u8::from(*sym_alg), 0, ser(s2k), hx(iv)),
            };
            format!("ok:enc:{var}:{id}:{sym}:{mode}:{s2k}:{iv}:{}", hx(e.data()))
        }
    }
}

fn variant_code(p: &S2kParams) -> u8 {
    match p {
        S2kParams::Unprotected => 0,
        S2kParams::LegacyCfb { .. } => 1,
        S2kParams::Aead { .. } => 2,
        S2kParams::Cfb { .. } => 3,
        S2kParams::MalleableCfb { .. } => 4,
    }
}

// ------------------------------------------------------------------------------------------
// key fixtures
// ------------------------------------------------------------------------------------------

fn key_types(thorough: bool) -> Vec<(&'static str, &'static str, KeyType, bool, bool)> {
    // name, material format, type, allowed in v4, allowed in v6
    let mut v = vec![
        ("ed25519", "f32", KeyType::Ed25519, true, true),
        ("x25519", "f32", KeyType::X25519, true, true),
        ("ed448", "f57", KeyType::Ed448, true, true),
        ("x448", "x448", KeyType::X448, true, true),
        ("ed25519legacy", "m", KeyType::Ed25519Legacy, true, false),
        ("ecdh-cv25519", "m", KeyType::ECDH(ECCCurve::Curve25519Legacy), true, false),
        ("ecdh-p256", "m", KeyType::ECDH(ECCCurve::P256), true, true),
        ("ecdh-cv25519-kdfalt", "m", KeyType::ECDH(ECCCurve::Curve25519Legacy), true, false),
        ("ecdh-p256-kdfalt", "m", KeyType::ECDH(ECCCurve::P256), true, true),
        ("ecdsa-p256", "m", KeyType::ECDSA(ECCCurve::P256), true, true),
        ("ecdsa-p384", "m", KeyType::ECDSA(ECCCurve::P384), true, true),
        ("ecdsa-p521", "m", KeyType::ECDSA(ECCCurve::P521), true, true),
        ("ecdsa-secp256k1", "m", KeyType::ECDSA(ECCCurve::Secp256k1), true, true),
        ("rsa2048", "m,m,m,m", KeyType::Rsa(2048), true, true),
        ("dsa1024", "m", KeyType::Dsa(pgp::composed::DsaKeySize::B1024), true, true),
    ];
    if thorough {
        v.push(("ecdh-p384", "m", KeyType::ECDH(ECCCurve::P384), true, true));
        v.push(("ecdh-p521", "m", KeyType::ECDH(ECCCurve::P521), true, true));
        v.push(("rsa3072", "m,m,m,m", KeyType::Rsa(3072), true, true));
    }
    v
}

fn make_fixtures(ctx: &mut Ctx) -> Vec<KeyFix> {
    let mut out = Vec::new();
    for (name, fmt, kt, v4, v6) in key_types(ctx.thorough()) {
        for ver in [4u8, 6] {
            if (ver == 4 && !v4) || (ver == 6 && !v6) {
                continue;
            }
            let created: u32 = 0x5f00_0000 + ctx.rng.gen_range(0..0x00ff_ffff);
            let r = guarded(|| {
                let (mut pubp, sec) = kt.generate(&mut ctx.rng).ok()?;
                // ECDH keys carry their KDF parameters (hash, key-wrap cipher) in the public part: the
                // generator always writes the per-curve defaults; other legal pairs (GnuPG's P-384
                // default AES-256, SHA-512 ...) must lock and unlock just the same
                if name.ends_with("-kdfalt") {
                    use pgp::types::EcdhPublicParams as E;
                    if let PublicParams::ECDH(e) = &mut pubp {
                        match e {
                            E::Curve25519Legacy { hash, alg_sym, .. } | E::P256 { hash, alg_sym, .. } | E::P384 { hash, alg_sym, .. } | E::P521 { hash, alg_sym, .. } => {
                                *hash = HashAlgorithm::Sha512;
                                *alg_sym = SymmetricKeyAlgorithm::AES256;
                            }
                            _ => {}
                        }
                    }
                }
                let SecretParams::Plain(ref plain) = sec else { return None };
                let plain = plain.clone();
                let alg = kt.to_alg();
                let inner = PubKeyInner::new(kv(ver), alg, Timestamp::from_secs(created), None, pubp.clone()).ok()?;
                let pub_body = inner.to_bytes().ok()?;
                let raw = raw_of(&plain);
                Some(KeyFix { name, fmt, ver, alg, inner, pubp, plain, raw, pub_body, created })
            });
            match r {
                Ok(Some(f)) => {
                    ctx.stat(&format!("fixture:{name}:v{ver}"));
                    out.push(f)
                }
                _ => ctx.note(&format!("fixture {name} v{ver} could not be generated")),
            }
        }
    }
    out
}

// ------------------------------------------------------------------------------------------
// parameter generators
// ------------------------------------------------------------------------------------------

const STRONG_HASHES: [u8; 6] = [8, 9, 10, 11, 12, 14];
const WEAK_HASHES: [u8; 3] = [1, 2, 3];
const CFB_SYMS: [u8; 11] = [1, 2, 3, 4, 7, 8, 9, 10, 11, 12, 13];
const AEAD_SYMS: [u8; 3] = [7, 8, 9];

fn rand_arr<const N: usize>(rng: &mut impl RngCore) -> [u8; N] {
    let mut a = [0u8; N];
    rng.fill_bytes(&mut a);
    a
}

fn gen_s2k(ctx: &mut Ctx, kind: usize, hash: u8) -> HS2k {
    match kind {
        0 => HS2k::Simple(hash),
        1 => HS2k::Salted(hash, rand_arr(&mut ctx.rng)),
        2 => {
            // count octets: boundaries and a few random ones, kept cheap (<= ~1 MiB hashed)
            let c = [0u8, 1, 15, 16, 96, 100, 143, ctx.rng.gen_range(0..160)][ctx.rng.gen_range(0..8)];
            HS2k::Iter(hash, rand_arr(&mut ctx.rng), c)
        }
        _ => {
            let p = [1u8, 1, 2, 4][ctx.rng.gen_range(0..4)];
            let t = [1u8, 1, 2, 3][ctx.rng.gen_range(0..4)];
            let m = ctx.rng.gen_range(5u8..=8).max(3 + (p as f32).log2().ceil() as u8);
            HS2k::Argon2(rand_arr(&mut ctx.rng), t, p, m)
        }
    }
}

fn gen_iv(ctx: &mut Ctx, n: usize) -> Vec<u8> {
    crate::gen::random_bytes(&mut ctx.rng, n)
}

fn passwords(ctx: &mut Ctx) -> Vec<Vec<u8>> {
    let long: Vec<u8> = (0..200).map(|i| (i as u8).wrapping_mul(37).wrapping_add(1)).collect();
    vec![
        vec![],
        b"password".to_vec(),
        vec![0xff, 0xfe, 0x00, 0x80, 0xc3, 0x28],
        long,
        "пароль-密码".as_bytes().to_vec(),
        // (what a prompt or a file hands over: line ends, blanks — they are part of the password)
        b"hunter2\r\n".to_vec(),
        b"hunter2\n\n".to_vec(),
        b" hunter2 \t".to_vec(),
        b"\n".to_vec(),
        crate::gen::random_bytes(&mut ctx.rng, 17),
        // longer than the smallest iterated-S2K octet counts (1024, 1088): salt ‖ password is then
        // hashed once in full, so passwords that agree on a long prefix still differ
        (0..1100u32).map(|i| (i as u8).wrapping_mul(11).wrapping_add(3)).collect(),
    ]
}

// ------------------------------------------------------------------------------------------
// cases
// ------------------------------------------------------------------------------------------

struct Locked {
    hp: HP,
    pw: Vec<u8>,
    tag: u8,
    key: AnyKey,
    blob: Vec<u8>,
    /// true: produced by the library's set_password_with_s2k; false: hand-built by the harness
    by_library: bool,
}

fn req_head(op: &str, fix: &KeyFix, tag: u8, hp: &HP, pw: &[u8]) -> String {
    format!("{op} ver={} tag={} {} pub={} fmt={} pw={}", fix.ver, tag, hp.req(), hx(&fix.pub_body), fix.fmt, hx(pw))
}

/// one unlock through the real crate + the correspondence case for it
fn unlock_case(ctx: &mut Ctx, fix: (u8, &str), tag: u8, hp: &HP, pw: &[u8], key: &AnyKey, blob: &[u8], pub_body: &[u8], what: &str) -> Result<Result<Vec<u8>, String>, String> {
    let r = guarded(|| key.unlock_raw(pw));
    let t = tables_unlock(fix.0, tag, pub_body, hp, pw, blob);
    let req = format!(
        "sk_unlock ver={} tag={} {} pub={} fmt={} pw={} data={} {}",
        fix.0, tag, hp.req(), hx(pub_body), fix.1, hx(pw), hx(blob), t.line()
    );
    ctx.case(req, ans_unlock(&r));
    ctx.stat(&format!("unlock:{what}:{}", match &r { Ok(Ok(_)) => "ok", Ok(Err(_)) => "err", Err(_) => "panic" }));
    r
}

/// lock through the library; correspondence + round-trip oracles
fn lock_case(ctx: &mut Ctx, fix: &KeyFix, tag: u8, hp: &HP, pw: &[u8]) -> Option<Locked> {
    let plain_key = AnyKey::build(fix, tag, SecretParams::Plain(fix.plain.clone()))?;
    let r = guarded(|| {
        let mut k = plain_key.clone();
        k.lock(pw, hp.to_rpgp()).map(|_| k)
    });
    let t = tables_lock(fix.ver, tag, &fix.pub_body, hp, pw, &fix.raw);
    let req = format!("{} mat={} {}", req_head("sk_lock", fix, tag, hp, pw), hx(&fix.raw), t.line());
    let site = "SecretKey::set_password_with_s2k -> unlock".to_string();
    let cfg = format!("{} usage={} s2k={} sym={} mode={} pwlen={}", fix.name, hp.usage_octet(), hp.s2k.kind(), hp.sym, hp.mode, pw.len());
    match r {
        Err(_) => {
            ctx.case(req.clone(), "panic".into());
            ctx.oracle("lock_unlock_roundtrip", &site, &req, false, "set_password_with_s2k panicked");
            None
        }
        Ok(Err(_)) => {
            ctx.case(req, "err".into());
            ctx.stat(&format!("lock:refused:usage{}:{}", hp.usage_octet(), hp.s2k.kind()));
            None
        }
        Ok(Ok(k)) => {
            let SecretParams::Encrypted(e) = k.secret_params() else {
                ctx.oracle("lock_unlock_roundtrip", &site, &req, false, "not encrypted after set_password");
                return None;
            };
            let blob = e.data().to_vec();
            ctx.case(req.clone(), format!("ok:{}", hx(&blob)));
            ctx.stat(&format!("lock:ok:v{}:usage{}:{}:sym{}:mode{}", fix.ver, hp.usage_octet(), hp.s2k.kind(), hp.sym, hp.mode));
            // "unlocking it with the same password returns exactly the original secret material"
            let u = unlock_case(ctx, (fix.ver, fix.fmt), tag, hp, pw, &k, &blob, &fix.pub_body, "right_pw");
            let ok = matches!(&u, Ok(Ok(m)) if *m == fix.raw);
            ctx.oracle("lock_unlock_roundtrip", &site, &req, ok, &format!("{cfg}: unlock => {}", short(&ans_unlock(&u))));
            // remove_password restores the plain packet
            let rp = guarded(|| {
                let mut k2 = k.clone();
                k2.remove_password(pw).map(|_| k2)
            });
            let ok2 = match &rp {
                Ok(Ok(k2)) => matches!(k2.secret_params(), SecretParams::Plain(p) if raw_of(p) == fix.raw),
                _ => false,
            };
            ctx.oracle("lock_unlock_roundtrip", "SecretKey::set_password_with_s2k -> remove_password", &req, ok2, &cfg);
            // "also after the locked key has been serialized and parsed"
            let rs = guarded(|| {
                let bytes = k.packet_bytes().ok_or_else(|| "serialise failed".to_string())?;
                let parsed = parse_key_packet(&bytes)?;
                parsed.unlock_raw(pw)
            });
            let ok3 = matches!(&rs, Ok(Ok(m)) if *m == fix.raw);
            ctx.oracle(
                "roundtrip_after_serialize",
                "SecretKey::set_password_with_s2k -> to_writer_with_header -> PacketParser -> unlock",
                &req,
                ok3,
                &format!("{cfg}: {}", short(&ans_unlock(&rs))),
            );
            // the secret part as written must be what the model's writer / parser say
            if let (Some(body), true) = (k.body_bytes(), true) {
                if body.len() >= fix.pub_body.len() && body[..fix.pub_body.len()] == fix.pub_body[..] {
                    let sec = &body[fix.pub_body.len()..];
                    ctx.case(format!("sk_ser ver={} {} data={}", fix.ver, hp.req(), hx(&blob)), format!("ok:{}", hx(sec)));
                    parse_case(ctx, fix, sec, "library_written");
                }
            }
            Some(Locked { hp: hp.clone(), pw: pw.to_vec(), tag, key: k, blob, by_library: true })
        }
    }
}

fn short(s: &str) -> String {
    if s.len() > 6000 { format!("{}…", &s[..60]) } else { s.to_string() }
}

/// SecretParams::from_slice on the secret part of a packet
fn parse_case(ctx: &mut Ctx, fix: &KeyFix, sec: &[u8], what: &str) -> Option<SecretParams> {
    let r = guarded(|| SecretParams::from_slice(sec, kv(fix.ver), fix.alg, &fix.pubp));
    let ans = match &r {
        Ok(Ok(sp)) => describe(sp),
        Ok(Err(_)) => "err".to_string(),
        Err(_) => "panic".to_string(),
    };
    ctx.stat(&format!("parse:{what}:{}", ans.split(':').take(2).collect::<Vec<_>>().join(":")));
    ctx.case(format!("sk_parse ver={} fmt={} data={}", fix.ver, fix.fmt, hx(sec)), ans);
    match r {
        Ok(Ok(sp)) => Some(sp),
        _ => None,
    }
}

/// a key packet built by the harness from the RFC layout (never through the library's writer),
/// given to the library's parser
fn wire_case(ctx: &mut Ctx, fix: &KeyFix, tag: u8, hp: &HP, pw: &[u8]) -> Option<Locked> {
    let blob = own_protect(fix.ver, tag, &fix.pub_body, hp, pw, &fix.raw)?;
    let sec = hp.wire(fix.ver, &blob);
    let mut body = fix.pub_body.clone();
    body.extend_from_slice(&sec);
    // (current and legacy header format, minimal and non-minimal length forms, in rotation: what is
    //  derived from the key packet — the AEAD info / associated data — does not depend on its framing)
    static FRAMING: std::sync::atomic::AtomicUsize = std::sync::atomic::AtomicUsize::new(0);
    let fk = FRAMING.fetch_add(1, std::sync::atomic::Ordering::Relaxed);
    let packet = match fk % 4 {
        1 => frame::frame_fixed(false, tag, if body.len() < 256 { 0 } else if body.len() < 65536 { 1 } else { 2 }, &body)?,
        2 => frame::frame_fixed(false, tag, 2, &body)?,
        3 => frame::frame_fixed(true, tag, 5, &body)?,
        _ => frame::frame_fixed(true, tag, if body.len() < 192 { 1 } else if body.len() < 8384 { 2 } else { 5 }, &body)?,
    };
    let input = format!("packet={} pw={}", hx(&packet), hx(pw));
    let site = format!("PacketParser -> SecretKey::unlock (harness-built packet, usage octet {})", if hp.var == 1 { "legacy".to_string() } else { hp.usage_octet().to_string() });
    parse_case(ctx, fix, &sec, "harness_built");
    let parsed = guarded(|| parse_key_packet(&packet));
    ctx.stat(&format!("wire:v{}:usage{}:{}", fix.ver, if hp.var == 1 { "legacy".to_string() } else { hp.usage_octet().to_string() }, match &parsed { Ok(Ok(_)) => "accepted", Ok(Err(_)) => "rejected", Err(_) => "panic" }));
    match parsed {
        Err(_) => {
            ctx.oracle("wire_unlock_any_usage", &site, &input, false, "parser panicked");
            None
        }
        Ok(Err(_)) => None, // not accepted from the wire: the property says nothing
        Ok(Ok(k)) => {
            // "a locked key that the library accepts from the wire unlocks with its password
            //  whichever S2K usage octet it carries"
            let u = guarded(|| k.unlock_raw(pw));
            let ok = matches!(&u, Ok(Ok(m)) if *m == fix.raw);
            if !unlock_supported(fix.ver, hp) {
                // RFC 9580 forbids (or rpgp deliberately declines) unlocking this combination
                // (v6 with simple S2K / weak hash / usage 255, AEAD with simple or salted S2K, legacy
                // with a cipher whose key is not 16 octets): never different material, else no claim
                ctx.stat(&format!("wire:policy_refusable:v{}:usage{}:{}:{}", fix.ver, hp.usage_octet(), hp.s2k.kind(), if ok { "unlocked" } else { "refused" }));
                let fine = matches!(&u, Ok(Err(_))) || ok;
                ctx.oracle("wire_unlock_never_other_material", &site, &input, fine, &short(&ans_unlock(&u)));
            } else {
            ctx.oracle("wire_unlock_any_usage", &site, &input, ok, &format!("{} s2k={} sym={}: unlock => {}", fix.name, hp.s2k.kind(), hp.sym, short(&ans_unlock(&u))));
            }
            // correspondence for the parameters the library actually parsed
            if let SecretParams::Encrypted(e) = k.secret_params() {
                if let Some(hp2) = hp_of(e.string_to_key_params()) {
                    let _ = unlock_case(ctx, (fix.ver, fix.fmt), tag, &hp2, pw, &k, e.data(), &fix.pub_body, "wire");
                }
            }
            // the same parameters given in memory (no parser involved)
            let mem = AnyKey::build(fix, tag, SecretParams::Encrypted(EncryptedSecretParams::new(blob.clone().into(), hp.to_rpgp())))?;
            let um = unlock_case(ctx, (fix.ver, fix.fmt), tag, hp, pw, &mem, &blob, &fix.pub_body, "in_memory");
            let okm = matches!(&um, Ok(Ok(m)) if *m == fix.raw);
            if unlock_supported(fix.ver, hp) {
                ctx.oracle("lock_unlock_roundtrip", &format!("EncryptedSecretParams::new(harness-built blob) -> SecretKey::unlock (usage {})", if hp.var == 1 { "legacy".to_string() } else { hp.usage_octet().to_string() }), &input, okm, &short(&ans_unlock(&um)));
            }
            if ok { Some(Locked { hp: hp.clone(), pw: pw.to_vec(), tag, key: k, blob, by_library: false }) } else if okm { Some(Locked { hp: hp.clone(), pw: pw.to_vec(), tag, key: mem, blob, by_library: false }) } else { None }
        }
    }
}

/// the secret material with its MPIs written the way other implementations write them: the bit
/// count rounded up to whole octets (GnuPG writes 256 for a 253-bit EdDSA scalar), or one leading zero
/// octet.  `None` when the material is not a sequence of MPIs or nothing would change.
fn noncanonical_raw(fix: &KeyFix, how: u8) -> Option<(Vec<u8>, Vec<u8>)> {
    if !fix.fmt.split(',').all(|f| f == "m") {
        return None;
    }
    if how == 2 {
        // a SHORT value: the first MPI with its most significant octet zero, stored minimally (one
        // octet fewer) — what one key in 256 looks like when another implementation stores a scalar
        // it does not clamp.  The material is canonical: it comes back as it is.
        // (single-MPI materials only: RSA / DSA parameters are checked against each other)
        if fix.raw.len() < 4 || fix.fmt != "m" {
            return None;
        }
        let bits = u16::from_be_bytes([fix.raw[0], fix.raw[1]]) as usize;
        let len = bits.div_ceil(8);
        if len < 3 || 2 + len > fix.raw.len() {
            return None;
        }
        let val = &fix.raw[3..2 + len]; // drop the top octet
        let mut short = crate::wire::mpi(val);
        short.extend_from_slice(&fix.raw[2 + len..]);
        return Some((short.clone(), short));
    }
    let mut out = Vec::new();
    let mut i = 0usize;
    let mut changed = false;
    while i + 2 <= fix.raw.len() {
        let bits = u16::from_be_bytes([fix.raw[i], fix.raw[i + 1]]) as usize;
        let len = bits.div_ceil(8);
        if i + 2 + len > fix.raw.len() {
            return None;
        }
        let val = &fix.raw[i + 2..i + 2 + len];
        if how == 0 {
            if bits % 8 != 0 {
                changed = true;
            }
            out.extend_from_slice(&((len * 8) as u16).to_be_bytes());
            out.extend_from_slice(val);
        } else {
            changed = true;
            out.extend_from_slice(&((len * 8 + 8) as u16).to_be_bytes());
            out.push(0);
            out.extend_from_slice(val);
        }
        i += 2 + len;
    }
    if i != fix.raw.len() || !changed {
        return None;
    }
    Some((out, fix.raw.clone()))
}

/// a key from the wire whose secret MPIs are not minimally encoded: whichever usage octet protects it,
/// the right password restores the (same) material (oracle only)
fn wire_noncanonical_case(ctx: &mut Ctx, fix: &KeyFix, tag: u8, hp: &HP, pw: &[u8], how: u8) {
    let Some((raw, expected)) = noncanonical_raw(fix, how) else { return };
    let Some(blob) = own_protect(fix.ver, tag, &fix.pub_body, hp, pw, &raw) else { return };
    let sec = hp.wire(fix.ver, &blob);
    let mut body = fix.pub_body.clone();
    body.extend_from_slice(&sec);
    let Some(packet) = frame::frame_fixed(true, tag, if body.len() < 192 { 1 } else if body.len() < 8384 { 2 } else { 5 }, &body) else { return };
    let usage = if hp.var == 1 { "legacy".to_string() } else { hp.usage_octet().to_string() };
    let site = format!("PacketParser -> SecretKey::unlock (harness-built packet, secret MPIs not minimally encoded, usage octet {usage})");
    let input = format!("{} form={} packet={} pw={}", fix.name, match how { 0 => "bit count rounded up", 1 => "leading zero octet", _ => "value one octet short (top octet zero, stored minimally)" }, hx(&packet), hx(pw));
    let parsed = guarded(|| parse_key_packet(&packet));
    match parsed {
        Err(_) => ctx.oracle("wire_unlock_any_usage", &site, &input, false, "parser panicked"),
        Ok(Err(_)) => ctx.stat(&format!("wire_noncanonical:usage{usage}:rejected_by_parser")),
        Ok(Ok(k)) => {
            // (through the model as well: its material parser normalises MPIs as the library does)
            let u = unlock_case(ctx, (fix.ver, fix.fmt), tag, hp, pw, &k, &blob, &fix.pub_body, "wire_noncanonical");
            ctx.stat(&format!("wire_noncanonical:usage{usage}:{}", if matches!(&u, Ok(Ok(_))) { "unlocked" } else { "refused" }));
            if unlock_supported(fix.ver, hp) {
                ctx.oracle("wire_unlock_any_usage", &site, &input, matches!(&u, Ok(Ok(m)) if *m == expected), &short(&ans_unlock(&u)));
            } else {
                ctx.oracle("wire_unlock_never_other_material", &site, &input, matches!(&u, Ok(Err(_))) || matches!(&u, Ok(Ok(m)) if *m == expected), &short(&ans_unlock(&u)));
            }
        }
    }
}

/// configurations for which the RFC lets a reader unlock (used only to decide whether an in-memory
/// unlock of a harness-built blob is expected to succeed)
fn unlock_supported(ver: u8, hp: &HP) -> bool {
    let weak = matches!(hp.s2k, HS2k::Simple(h) | HS2k::Salted(h, _) | HS2k::Iter(h, _, _) if WEAK_HASHES.contains(&h));
    match hp.var {
        1 => ver != 6 && own_key_size(hp.sym) == 16,
        2 => matches!(hp.s2k, HS2k::Iter(..) | HS2k::Argon2(..)) && !(ver == 6 && weak),
        3 => !matches!(hp.s2k, HS2k::Argon2(..) | HS2k::Opaque(..)) && (ver != 6 || (!weak && !matches!(hp.s2k, HS2k::Simple(_)))),
        _ => ver != 6 && !matches!(hp.s2k, HS2k::Argon2(..) | HS2k::Opaque(..)),
    }
}

fn hs2k_of(s: &StringToKey) -> Option<HS2k> {
    Some(match s {
        StringToKey::Simple { hash_alg } => HS2k::Simple(u8::from(*hash_alg)),
        StringToKey::Salted { hash_alg, salt } => HS2k::Salted(u8::from(*hash_alg), *salt),
        StringToKey::IteratedAndSalted { hash_alg, salt, count } => HS2k::Iter(u8::from(*hash_alg), *salt, *count),
        StringToKey::Argon2 { salt, t, p, m_enc } => HS2k::Argon2(*salt, *t, *p, *m_enc),
        StringToKey::Reserved { unknown } => HS2k::Opaque(2, unknown.to_vec()),
        StringToKey::Private { typ, unknown } | StringToKey::Other { typ, unknown } => HS2k::Opaque(*typ, unknown.to_vec()),
    })
}

fn hp_of(p: &S2kParams) -> Option<HP> {
    Some(match p {
        S2kParams::Unprotected => return None,
        S2kParams::LegacyCfb { sym_alg, iv } => HP { var: 1, sym: u8::from(*sym_alg), mode: 0, s2k: HS2k::Simple(1), iv: iv.to_vec() },
        S2kParams::Aead { sym_alg, aead_mode, s2k, nonce } => HP { var: 2, sym: u8::from(*sym_alg), mode: u8::from(*aead_mode), s2k: hs2k_of(s2k)?, iv: nonce.to_vec() },
        S2kParams::Cfb { sym_alg, s2k, iv } => HP { var: 3, sym: u8::from(*sym_alg), mode: 0, s2k: hs2k_of(s2k)?, iv: iv.to_vec() },
        S2kParams::MalleableCfb { sym_alg, s2k, iv } => HP { var: 4, sym: u8::from(*sym_alg), mode: 0, s2k: hs2k_of(s2k)?, iv: iv.to_vec() },
    })
}

/// usage 255 / legacy cipher octet: RFC 9580 protects the material with a 16-bit sum only.  The
/// honest executable statement: an error, or material whose 16-bit sum equals the original's (the
/// format cannot tell those apart); material with a *different* sum must never be returned.
fn sum16_ok(ctx: &mut Ctx, u: &Result<Result<Vec<u8>, String>, String>, raw: &[u8]) -> bool {
    match u {
        Ok(Err(_)) => true,
        Ok(Ok(m)) if m == raw => {
            ctx.stat("sum16:accepted_same_material_after_normalisation");
            true
        }
        Ok(Ok(m)) if sum16(m) == sum16(raw) => {
            ctx.stat("sum16:accepted_DIFFERENT_material_with_colliding_sum");
            ctx.note("usage 255/legacy: a tampered blob or wrong key was accepted with different material whose 16-bit sum collides (format weakness, see oracle *_sum16)");
            true
        }
        _ => false,
    }
}

/// negative oracles on one locked key
fn negatives(ctx: &mut Ctx, fix: &KeyFix, l: &Locked, budget: usize) {
    let usage = if l.hp.var == 1 { "legacy".to_string() } else { l.hp.usage_octet().to_string() };
    let origin = if l.by_library { "library-locked" } else { "harness-built" };
    let site_u = format!("SecretKey::unlock (usage {usage}, {origin})");
    let sum16_usage = l.hp.var == 1 || l.hp.var == 4;
    // ---- "Unlocking with any other password .. fails with an error"
    let mut wrong: Vec<Vec<u8>> = vec![];
    let mut w = l.pw.clone();
    w.push(0);
    wrong.push(w);
    if !l.pw.is_empty() {
        let mut w = l.pw.clone();
        let n = w.len();
        w[n - 1] ^= 1;
        wrong.push(w);
        wrong.push(l.pw[..n - 1].to_vec());
    } else {
        wrong.push(b" ".to_vec());
    }
    for w in wrong.iter().take(budget.clamp(1, 3)) {
        let u = unlock_case(ctx, (fix.ver, fix.fmt), l.tag, &l.hp, w, &l.key, &l.blob, &fix.pub_body, "wrong_pw");
        let input = format!("usage={} {} pw={} wrong_pw={} data={}", usage, l.hp.req(), hx(&l.pw), hx(w), hx(&l.blob));
        if sum16_usage {
            // usage 255 / legacy: the only check the format has is a 16-bit sum; a wrong key is
            // rejected unless the garbage happens to parse and to carry a matching sum (2^-16)
            let ok = sum16_ok(ctx, &u, &fix.raw);
            ctx.oracle("wrong_password_fails_sum16", &site_u, &input, ok, &short(&ans_unlock(&u)));
        } else {
            ctx.oracle("wrong_password_fails", &site_u, &input, matches!(u, Ok(Err(_))), &short(&ans_unlock(&u)));
        }
    }
    // ---- "after any change to the protected bytes .. fails": single-bit flips of the blob
    let nbits = l.blob.len() * 8;
    let mut bits: Vec<usize> = if nbits <= budget * 8 { (0..nbits).collect() } else {
        let mut v: Vec<usize> = vec![0, 7, nbits - 1, nbits - 8, nbits - 17, nbits - 160, nbits - 161, nbits / 2];
        v.retain(|&b| b < nbits);
        while v.len() < budget * 8 {
            v.push(ctx.rng.gen_range(0..nbits));
        }
        v
    };
    for b in [0usize, 1, 2, nbits.saturating_sub(17), nbits.saturating_sub(18), nbits.saturating_sub(10)] {
        if b < nbits {
            bits.push(b);
        }
    }
    if fix.fmt == "m,m,m,m" {
        // RSA: the last MPI (u) is recomputed by the library when the key is written; changes to the
        // stored octets of u (and of p, q in front of it) must be noticed all the same
        for k in (23usize..330).step_by(if budget > 2 { 5 } else { 13 }) {
            if 8 * k < nbits {
                bits.push(nbits - 8 * k + (k % 8));
            }
        }
    }
    bits.sort_unstable();
    bits.dedup();
    for (i, b) in bits.iter().enumerate() {
        let mut blob = l.blob.clone();
        blob[b / 8] ^= 1 << (b % 8);
        let Some(k) = AnyKey::build(fix, l.tag, SecretParams::Encrypted(EncryptedSecretParams::new(blob.clone().into(), l.hp.to_rpgp()))) else { continue };
        let input = format!("usage={} {} pw={} flipped_bit={} data={}", usage, l.hp.req(), hx(&l.pw), b, hx(&blob));
        // (RSA with a 16-bit sum: the library recomputes `u`, which the generic material model
        //  does not do; those flips are evaluated by the oracle only)
        let rsa_sum16 = sum16_usage && fix.fmt == "m,m,m,m";
        let u = if (i % 4 == 0 && !rsa_sum16) || (sum16_usage && l.blob.len() < 100) {
            unlock_case(ctx, (fix.ver, fix.fmt), l.tag, &l.hp, &l.pw, &k, &blob, &fix.pub_body, "tamper_blob")
        } else {
            let r = guarded(|| k.unlock_raw(&l.pw));
            ctx.stat(&format!("unlock:tamper_blob_oracle_only:{}", if matches!(r, Ok(Err(_))) { "err" } else { "other" }));
            r
        };
        if sum16_usage {
            let ok = sum16_ok(ctx, &u, &fix.raw);
            ctx.oracle("tamper_blob_fails_sum16", &site_u, &input, ok, &short(&ans_unlock(&u)));
        } else {
            ctx.oracle("tamper_blob_fails", &site_u, &input, matches!(u, Ok(Err(_))), &short(&ans_unlock(&u)));
        }
    }
    // truncation / extension of the protected bytes
    for cut in [1usize, 2, 16, 20] {
        for extend in [false, true] {
            let mut blob = l.blob.clone();
            if extend {
                blob.extend(std::iter::repeat(0u8).take(cut));
            } else if cut <= blob.len() {
                blob.truncate(blob.len() - cut);
            } else {
                continue;
            }
            let Some(k) = AnyKey::build(fix, l.tag, SecretParams::Encrypted(EncryptedSecretParams::new(blob.clone().into(), l.hp.to_rpgp()))) else { continue };
            let u = unlock_case(ctx, (fix.ver, fix.fmt), l.tag, &l.hp, &l.pw, &k, &blob, &fix.pub_body, "resize_blob");
            let input = format!("usage={} {} pw={} {}={} data={}", usage, l.hp.req(), hx(&l.pw), if extend { "extended" } else { "truncated" }, cut, hx(&blob));
            if sum16_usage {
                let ok = sum16_ok(ctx, &u, &fix.raw);
                ctx.oracle("tamper_blob_fails_sum16", &site_u, &input, ok, &short(&ans_unlock(&u)));
            } else {
                ctx.oracle("tamper_blob_fails", &site_u, &input, matches!(u, Ok(Err(_))), &short(&ans_unlock(&u)));
            }
        }
    }
    // ---- wire-level flips: S2K parameter fields and public fields
    let Some(packet) = l.key.packet_bytes() else { return };
    let Some(body) = l.key.body_bytes() else { return };
    let hdr = packet.len() - body.len();
    let pub_len = fix.pub_body.len();
    let sec_len = body.len() - pub_len;
    let params_len = sec_len - l.blob.len();
    // S2K params region: [hdr+pub_len, hdr+pub_len+params_len)
    let mut pbits: Vec<usize> = (0..params_len * 8).collect();
    if pbits.len() > budget * 16 {
        pbits = (0..budget * 16).map(|_| ctx.rng.gen_range(0..params_len * 8)).collect();
        pbits.sort_unstable();
        pbits.dedup();
    }
    for b in pbits {
        let mut p = packet.clone();
        p[hdr + pub_len + b / 8] ^= 1 << (b % 8);
        let r = guarded(|| parse_key_packet(&p).and_then(|k| k.unlock_raw(&l.pw)));
        let ok = if sum16_usage {
            // e.g. a flipped IV bit changes the first plaintext block: only the 16-bit sum guards it
            sum16_ok(ctx, &r, &fix.raw)
        } else {
            match &r {
                Ok(Err(_)) => true,
                Ok(Ok(m)) => *m == fix.raw,
                Err(_) => false,
            }
        };
        ctx.stat(&format!("tamper_s2k_params:{}", match &r { Ok(Err(_)) => "err", Ok(Ok(m)) if *m == fix.raw => "same_material", Ok(Ok(_)) => "other_material", Err(_) => "panic" }));
        if matches!(&r, Ok(Ok(m)) if *m == fix.raw) {
            // which octet of the secret part tolerated the flip (v6: octet 1 is the unchecked count)
            ctx.stat(&format!("tamper_s2k_params:same_material:v{}:usage{}:octet{}", fix.ver, usage, b / 8));
        }
        let input = format!("packet={} pw={} flipped_param_bit={}", hx(&p), hx(&l.pw), b);
        ctx.oracle(if sum16_usage { "tamper_s2k_params_sum16" } else { "tamper_s2k_params_never_other_material" }, &format!("PacketParser -> SecretKey::unlock (usage {usage})"), &input, ok, &short(&ans_unlock(&r)));
        // parser correspondence on the mutated secret part
        if b % 3 == 0 {
            parse_case(ctx, fix, &p[hdr + pub_len..], "mutated_params");
        }
    }
    // public fields region: [hdr, hdr+pub_len)
    let mut qbits: Vec<usize> = (0..pub_len * 8).collect();
    if qbits.len() > budget * 24 {
        let mut v: Vec<usize> = (0..48.min(pub_len * 8)).collect(); // version, creation time, algorithm
        while v.len() < budget * 24 {
            v.push(ctx.rng.gen_range(0..pub_len * 8));
        }
        v.sort_unstable();
        v.dedup();
        qbits = v;
    }
    for b in qbits {
        let mut p = packet.clone();
        p[hdr + b / 8] ^= 1 << (b % 8);
        let mut same_public = false;
        let r = guarded(|| {
            parse_key_packet(&p).and_then(|k| {
                same_public = k.public_body().map(|pb| pb == fix.pub_body).unwrap_or(false);
                k.unlock_raw(&l.pw)
            })
        });
        let input = format!("packet={} pw={} flipped_public_bit={}", hx(&p), hx(&l.pw), b);
        if l.hp.var == 2 && same_public {
            // the flip changed a redundant encoding only (e.g. the bit count of an MPI): the parsed
            // public key, hence the bound fields, are the original ones
            ctx.stat("tamper_public_aead:encoding_only_change");
            let ok = match &r {
                Ok(Err(_)) => true,
                Ok(Ok(m)) => *m == fix.raw,
                Err(_) => false,
            };
            ctx.oracle("tamper_public_never_other_material", "PacketParser -> SecretKey::unlock (usage 253)", &input, ok, &short(&ans_unlock(&r)));
        } else if l.hp.var == 2 {
            // "(for AEAD protection) to the bound public key fields, fails with an error"
            ctx.stat(&format!("tamper_public_aead:{}", match &r { Ok(Err(_)) => "err", Ok(Ok(_)) => "ok", Err(_) => "panic" }));
            ctx.oracle("tamper_public_aead_fails", "PacketParser -> SecretKey::unlock (usage 253)", &input, matches!(r, Ok(Err(_))), &short(&ans_unlock(&r)));
        } else {
            let ok = if sum16_usage {
                sum16_ok(ctx, &r, &fix.raw)
            } else {
                match &r {
                    Ok(Err(_)) => true,
                    Ok(Ok(m)) => *m == fix.raw,
                    Err(_) => false,
                }
            };
            ctx.stat(&format!("tamper_public_other:{}", match &r { Ok(Err(_)) => "err", Ok(Ok(_)) => "same_material", Err(_) => "panic" }));
            ctx.oracle("tamper_public_never_other_material", &format!("PacketParser -> SecretKey::unlock (usage {usage})"), &input, ok, &short(&ans_unlock(&r)));
        }
    }
    // AEAD: the packet type is bound too (secret key <-> secret subkey)
    if l.hp.var == 2 {
        let other = if l.tag == 5 { 7 } else { 5 };
        if let Some(k) = AnyKey::build(fix, other, SecretParams::Encrypted(EncryptedSecretParams::new(l.blob.clone().into(), l.hp.to_rpgp()))) {
            let u = unlock_case(ctx, (fix.ver, fix.fmt), other, &l.hp, &l.pw, &k, &l.blob, &fix.pub_body, "other_tag");
            let input = format!("usage=253 {} pw={} tag {}->{} data={}", l.hp.req(), hx(&l.pw), l.tag, other, hx(&l.blob));
            ctx.oracle("tamper_public_aead_fails", "SecretKey/SecretSubkey::unlock (usage 253, packet type swapped)", &input, matches!(u, Ok(Err(_))), &short(&ans_unlock(&u)));
        }
    }
}

fn usage_table(ctx: &mut Ctx, fixtures: &[KeyFix]) {
    // exhaustive: 256 usage octets x {v4, v6}; a well-formed secret part for each octet
    let Some(f4) = fixtures.iter().find(|f| f.name == "ed25519" && f.ver == 4) else { return };
    let Some(f6) = fixtures.iter().find(|f| f.name == "ed25519" && f.ver == 6) else { return };
    for o in 0u16..256 {
        let o = o as u8;
        let body = |ver: u8| -> Vec<u8> {
            let blob = vec![0x5a; 40];
            match o {
                0 => {
                    let mut v = vec![0u8];
                    v.extend_from_slice(&f4.raw);
                    if ver == 4 {
                        v.extend_from_slice(&sum16(&f4.raw).to_be_bytes());
                    }
                    v
                }
                253 => HP { var: 2, sym: 9, mode: 2, s2k: HS2k::Iter(8, [7; 8], 96), iv: vec![3; 15] }.wire(ver, &blob),
                254 => HP { var: 3, sym: 9, mode: 0, s2k: HS2k::Iter(8, [7; 8], 96), iv: vec![3; 16] }.wire(ver, &blob),
                255 => HP { var: 4, sym: 9, mode: 0, s2k: HS2k::Iter(8, [7; 8], 96), iv: vec![3; 16] }.wire(ver, &blob),
                _ => {
                    // legacy: cipher octet, IV of the cipher's block size (none for unknown ciphers);
                    // the v6 count octet must be non-zero, so v6 carries it only when there is an IV
                    let iv = vec![3u8; own_block_size(o)];
                    let mut v = vec![o];
                    if ver == 6 {
                        v.push(iv.len().max(1) as u8);
                    }
                    v.extend_from_slice(&iv);
                    v.extend_from_slice(&blob);
                    v
                }
            }
        };
        let p4 = guarded(|| SecretParams::from_slice(&body(4), KeyVersion::V4, f4.alg, &f4.pubp));
        let p6 = guarded(|| SecretParams::from_slice(&body(6), KeyVersion::V6, f6.alg, &f6.pubp));
        for (ver, this) in [(4u8, &p4), (6u8, &p6)] {
            // variant / id are read off the v4 parse when the v6 parse refuses the octet
            let src = match (this, &p4) {
                (Ok(Ok(sp)), _) => Some(sp),
                (_, Ok(Ok(sp))) => Some(sp),
                _ => None,
            };
            let ans = match src {
                Some(SecretParams::Plain(_)) => format!("ok:0:0:{}", matches!(this, Ok(Ok(_))) as u8),
                Some(SecretParams::Encrypted(e)) => format!("ok:{}:{}:{}", variant_code(e.string_to_key_params()), e.string_to_key_id(), matches!(this, Ok(Ok(_))) as u8),
                None => "err".to_string(),
            };
            ctx.case(format!("sk_usage ver={ver} o={o}"), ans.clone());
            // the usage octet survives a parse -> serialise cycle
            if let Ok(Ok(sp)) = this {
                let back = guarded(|| {
                    let mut v = Vec::new();
                    sp.to_writer(&mut v, kv(ver)).map(|_| v)
                });
                let ok = matches!(&back, Ok(Ok(v)) if v.first() == Some(&o));
                ctx.oracle(
                    "usage_octet_survives_reserialisation",
                    "SecretParams::from_slice -> SecretParams::to_writer",
                    &format!("ver={ver} secret_part={}", hx(&body(ver))),
                    ok,
                    &format!("octet {o} read, written back as {:?}", back.ok().and_then(|r| r.ok()).and_then(|v| v.first().copied())),
                );
            }
        }
        ctx.stat("usage_table_octets");
    }
}

fn pub_body_cases(ctx: &mut Ctx, fixtures: &[KeyFix]) {
    for f in fixtures {
        let params = match f.pubp.to_bytes() {
            Ok(p) => p,
            Err(_) => continue,
        };
        ctx.case(
            format!("sk_pub ver={} created={} exp=0 alg={} params={}", f.ver, f.created, u8::from(f.alg), hx(&params)),
            format!("ok:{}", hx(&f.pub_body)),
        );
    }
}

fn ser_cases(ctx: &mut Ctx) {
    // EncryptedSecretParams::to_writer for every variant x version, including the opaque S2K kinds
    // (no length in v6 -> error) and over-long parameter fields
    let blob = vec![0xa5u8; 24];
    let s2ks = vec![
        HS2k::Simple(8),
        HS2k::Salted(10, [1; 8]),
        HS2k::Iter(8, [2; 8], 255),
        HS2k::Argon2([3; 16], 1, 4, 21),
        HS2k::Opaque(2, vec![9, 9, 9]),
        HS2k::Opaque(101, vec![1, 2]),
        HS2k::Opaque(77, vec![]),
    ];
    for ver in [3u8, 4, 6] {
        for s2k in &s2ks {
            for var in [2u8, 3, 4] {
                let ivlen = if var == 2 { 15 } else { 16 };
                let hp = HP { var, sym: 9, mode: 2, s2k: s2k.clone(), iv: vec![0x11; ivlen] };
                ser_case(ctx, ver, &hp, &blob);
            }
        }
        for (sym, ivlen) in [(3u8, 8usize), (9, 16), (9, 0), (200, 0), (9, 254), (9, 255), (9, 256), (9, 300)] {
            let hp = HP { var: 1, sym, mode: 0, s2k: HS2k::Simple(1), iv: vec![0x22; ivlen] };
            ser_case(ctx, ver, &hp, &blob);
        }
        for ivlen in [230usize, 240, 253, 300] {
            let hp = HP { var: 3, sym: 9, mode: 0, s2k: HS2k::Iter(8, [2; 8], 1), iv: vec![0x33; ivlen] };
            ser_case(ctx, ver, &hp, &blob);
        }
    }
}

fn ser_case(ctx: &mut Ctx, ver: u8, hp: &HP, blob: &[u8]) {
    let r = guarded(|| {
        let sp = SecretParams::Encrypted(EncryptedSecretParams::new(blob.to_vec().into(), hp.to_rpgp()));
        let mut v = Vec::new();
        sp.to_writer(&mut v, kv(ver)).map(|_| v)
    });
    let ans = match r {
        Ok(Ok(v)) => format!("ok:{}", hx(&v)),
        Ok(Err(_)) => "err".to_string(),
        Err(_) => "panic".to_string(),
    };
    ctx.case(format!("sk_ser ver={ver} {} data={}", hp.req(), hx(blob)), ans);
}

fn random_parse_cases(ctx: &mut Ctx, fixtures: &[KeyFix], n: usize) {
    // malformed stream: random / truncated secret parts
    for i in 0..n {
        let f = &fixtures[ctx.rng.gen_range(0..fixtures.len())];
        let len = ctx.rng.gen_range(0..48);
        let mut d = crate::gen::random_bytes(&mut ctx.rng, len);
        if !d.is_empty() {
            d[0] = [0u8, 253, 254, 255, 9, 7, 3, 1, ctx.rng.gen()][i % 9];
            if d.len() > 3 && i % 2 == 0 {
                // plausible S2K type octet where the specifier would start
                let pos = if f.ver == 6 { 3 } else { 2 };
                if pos < d.len() {
                    d[pos] = [0u8, 1, 3, 4, 2, 101][i % 6];
                }
            }
        }
        // unprotected material of the MPI-based algorithms is validated against the public key
        // (not modelled): random plain material only for the fixed-size algorithms
        let f = if d.first() == Some(&0) && f.fmt != "f32" {
            match fixtures.iter().find(|g| g.name == "ed25519" && g.ver == f.ver) {
                Some(g) => g,
                None => continue,
            }
        } else {
            f
        };
        parse_case(ctx, f, &d, "random");
    }
}

/// keys locked by the key builder (`SecretKeyParamsBuilder::passphrase` / `SubkeyParamsBuilder::
/// passphrase`): whatever passphrase was asked for — the empty one, ones ending in line ends — is the
/// password of every component, and nothing else is (oracle only)
fn builder_passphrase_cases(ctx: &mut Ctx) {
    for ver in [4u8, 6] {
        for pw in ["", "x", "hunter2\n", "hunter2\r\n", " ", "пароль"] {
            let r = guarded(|| -> Result<Vec<u8>, String> {
                let mut rng = rand_chacha::ChaCha8Rng::seed_from_u64(ctx.rng.gen());
                let mut b = SecretKeyParamsBuilder::default();
                b.version(kv(ver))
                    .key_type(if ver == 6 { KeyType::Ed25519 } else { KeyType::Ed25519Legacy })
                    .can_certify(true)
                    .can_sign(true)
                    .primary_user_id("c08 <c08@example.org>".into())
                    .passphrase(Some(pw.to_string()))
                    .s2k(Some(S2kParams::new_default(&mut rng, kv(ver))))
                    .subkey(
                        SubkeyParamsBuilder::default()
                            .version(kv(ver))
                            .key_type(if ver == 6 { KeyType::X25519 } else { KeyType::ECDH(ECCCurve::Curve25519Legacy) })
                            .can_encrypt(pgp::composed::EncryptionCaps::All)
                            .passphrase(Some(pw.to_string()))
                            .build()
                            .map_err(|e| e.to_string())?,
                    );
                let params = b.build().map_err(|e| e.to_string())?;
                let key: SignedSecretKey = params.generate(&mut rng).map_err(|e| e.to_string())?;
                key.to_bytes().map_err(|e| e.to_string())
            });
            let Ok(Ok(bytes)) = r else {
                ctx.stat("builder_passphrase:cannot_build");
                continue;
            };
            let input = format!("v{ver} passphrase={pw:?} tsk={}", hx(&bytes));
            let site = "SecretKeyParamsBuilder::passphrase -> generate -> to_bytes -> from_bytes -> unlock";
            let probe = |cand: &[u8]| -> Result<(bool, bool, bool, bool), String> {
                let key = SignedSecretKey::from_bytes(&bytes[..]).map_err(|e| e.to_string())?;
                let p = Password::from(cand);
                let a = matches!(key.primary_key.unlock(&p, |_, _| Ok(())), Ok(Ok(())));
                let b = matches!(key.secret_subkeys[0].key.unlock(&p, |_, _| Ok(())), Ok(Ok(())));
                Ok((a, b, key.primary_key.secret_params().is_encrypted(), key.secret_subkeys[0].key.secret_params().is_encrypted()))
            };
            let right = guarded(|| probe(pw.as_bytes()));
            ctx.oracle("lock_unlock_roundtrip", site, &input, matches!(right, Ok(Ok((true, true, true, true)))), &format!("(primary unlocks, subkey unlocks, primary encrypted, subkey encrypted) = {right:?}"));
            for wrong in [format!("{pw}x"), pw.trim_end().to_string() + "?", "another".to_string(), pw.trim_end_matches(['\r', '\n']).to_string()] {
                if wrong == pw {
                    continue;
                }
                let w = guarded(|| probe(wrong.as_bytes()));
                ctx.oracle("wrong_password_fails", site, &format!("{input} wrong={wrong:?}"), matches!(w, Ok(Ok((false, false, _, _)))), &format!("{w:?}"));
            }
            ctx.stat("builder_passphrase");
        }
    }
}

fn composed_cases(ctx: &mut Ctx) {
    builder_passphrase_cases(ctx);
    // observe at: SignedSecretKey::from_bytes -> unlock (primary and subkey), v4 and v6
    for ver in [4u8, 6] {
        let pw: Vec<u8> = if ver == 4 { b"correct horse".to_vec() } else { vec![0xff, 0x00, 0xfe] };
        let r = guarded(|| -> Result<(Vec<u8>, Vec<u8>, Vec<u8>), String> {
            let mut rng = rand_chacha::ChaCha8Rng::seed_from_u64(ctx.rng.gen());
            let mut b = SecretKeyParamsBuilder::default();
            b.version(kv(ver))
                .key_type(KeyType::Ed25519)
                .can_certify(true)
                .can_sign(true)
                .primary_user_id("c08 <c08@example.org>".into())
                .subkey(
                    SubkeyParamsBuilder::default()
                        .version(kv(ver))
                        .key_type(KeyType::X25519)
                        .can_encrypt(pgp::composed::EncryptionCaps::All)
                        .build()
                        .map_err(|e| e.to_string())?,
                );
            let params = b.build().map_err(|e| e.to_string())?;
            let mut key: SignedSecretKey = params.generate(&mut rng).map_err(|e| e.to_string())?;
            let raw_p = match key.primary_key.secret_params() {
                SecretParams::Plain(p) => raw_of(p),
                _ => return Err("primary not plain".into()),
            };
            let raw_s = match key.secret_subkeys[0].key.secret_params() {
                SecretParams::Plain(p) => raw_of(p),
                _ => return Err("subkey not plain".into()),
            };
            let password = Password::from(&pw[..]);
            key.primary_key.set_password(&mut rng, &password).map_err(|e| e.to_string())?;
            let s2k = S2kParams::new_default(&mut rng, kv(ver));
            key.secret_subkeys[0].key.set_password_with_s2k(&password, s2k).map_err(|e| e.to_string())?;
            let bytes = key.to_bytes().map_err(|e| e.to_string())?;
            Ok((bytes, raw_p, raw_s))
        });
        let Ok(Ok((bytes, raw_p, raw_s))) = r else {
            ctx.note(&format!("composed v{ver} key could not be built: {:?}", r.err()));
            continue;
        };
        let input = format!("tsk={} pw={}", hx(&bytes), hx(&pw));
        let u = guarded(|| -> Result<(Vec<u8>, Vec<u8>), String> {
            let key = SignedSecretKey::from_bytes(&bytes[..]).map_err(|e| e.to_string())?;
            let password = Password::from(&pw[..]);
            let p = key.primary_key.unlock(&password, |_, plain| Ok(raw_of(plain))).map_err(|e| e.to_string())?.map_err(|e| e.to_string())?;
            let s = key.secret_subkeys[0].key.unlock(&password, |_, plain| Ok(raw_of(plain))).map_err(|e| e.to_string())?.map_err(|e| e.to_string())?;
            Ok((p, s))
        });
        let ok = matches!(&u, Ok(Ok((p, s))) if *p == raw_p && *s == raw_s);
        ctx.oracle("roundtrip_after_serialize", &format!("SignedSecretKey::to_bytes -> from_bytes -> unlock v{ver} (default S2K)"), &input, ok, &format!("{:?}", u.as_ref().map(|r| r.as_ref().map(|_| "ok"))));
        let w = guarded(|| -> Result<bool, String> {
            let key = SignedSecretKey::from_bytes(&bytes[..]).map_err(|e| e.to_string())?;
            let password = Password::from("not the password");
            Ok(matches!(key.primary_key.unlock(&password, |_, plain| Ok(raw_of(plain))), Err(_)))
        });
        ctx.oracle("wrong_password_fails", &format!("SignedSecretKey::from_bytes -> unlock v{ver}"), &input, matches!(w, Ok(Ok(true))), "wrong password on a parsed transferable secret key");
        ctx.stat(&format!("composed:v{ver}"));
    }
}

fn fmt_of(alg: PublicKeyAlgorithm) -> Option<&'static str> {
    Some(match alg {
        PublicKeyAlgorithm::RSA | PublicKeyAlgorithm::RSAEncrypt | PublicKeyAlgorithm::RSASign => "m,m,m,m",
        PublicKeyAlgorithm::DSA | PublicKeyAlgorithm::ECDSA | PublicKeyAlgorithm::ECDH | PublicKeyAlgorithm::EdDSALegacy
        | PublicKeyAlgorithm::Elgamal | PublicKeyAlgorithm::ElgamalEncrypt => "m",
        PublicKeyAlgorithm::Ed25519 | PublicKeyAlgorithm::X25519 => "f32",
        PublicKeyAlgorithm::Ed448 => "f57",
        PublicKeyAlgorithm::X448 => "x448",
        _ => return None,
    })
}

fn normalise_material(fmt: &str, raw: &[u8]) -> Option<Vec<u8>> {
    let mut out = Vec::new();
    let mut rest = raw;
    for f in fmt.split(',') {
        match f {
            "m" => {
                if rest.len() < 2 {
                    return None;
                }
                let bits = u16::from_be_bytes([rest[0], rest[1]]) as usize;
                let n = (bits + 7) / 8;
                if rest.len() < 2 + n {
                    return None;
                }
                let v: Vec<u8> = rest[2..2 + n].iter().copied().skip_while(|&b| b == 0).collect();
                let bitlen = if v.is_empty() { 0 } else { (v.len() - 1) * 8 + (8 - v[0].leading_zeros() as usize) };
                out.extend_from_slice(&(bitlen as u16).to_be_bytes());
                out.extend_from_slice(&v);
                rest = &rest[2 + n..];
            }
            "x448" => {
                if rest.len() < 56 {
                    return None;
                }
                let mut v = rest[..56].to_vec();
                v[0] &= 252;
                v[55] |= 128;
                out.extend_from_slice(&v);
                rest = &rest[56..];
            }
            _ => {
                let n: usize = f.strip_prefix('f')?.parse().ok()?;
                if rest.len() < n {
                    return None;
                }
                out.extend_from_slice(&rest[..n]);
                rest = &rest[n..];
            }
        }
    }
    rest.is_empty().then_some(out)
}

/// locked keys made by other implementations (GnuPG, OpenPGP.js, Go), shipped in rpgp's test tree:
/// the harness decrypts them itself with the RustCrypto crates and compares
fn third_party_cases(ctx: &mut Ctx) {
    let root = std::env::var("VERIF_REPO").unwrap_or_else(|_| "/repo".to_string());
    let list: [(&str, &str); 10] = [
        ("tests/openpgp/samplekeys/ecc-sample-1-sec.asc", "ecc"),
        ("tests/openpgp/samplekeys/ecc-sample-2-sec.asc", "ecc"),
        ("tests/openpgp/samplekeys/ecc-sample-3-sec.asc", "ecc"),
        ("tests/openpgp/samplekeys/ecc-sample-4-sec.asc", "ecc"),
        ("tests/openpgp/samplekeys/eddsa-sample-1-sec.asc", "abc"),
        ("tests/openpgp/samplekeys/e2e-p256-1-prt.asc", "a"),
        ("tests/openpgpjs/x25519.sec.asc", "moon"),
        ("tests/locked-tsk-go.asc", "password"),
        ("tests/key-with-password-123.asc", "123"),
        ("tests/autocrypt/alice@autocrypt.example.sec.asc", ""),
    ];
    for (path, pw) in list {
        let Ok(text) = std::fs::read_to_string(format!("{root}/{path}")) else {
            ctx.note(&format!("fixture {path} not readable"));
            continue;
        };
        let parsed = guarded(|| SignedSecretKey::from_string(&text).map(|(k, _)| k));
        let Ok(Ok(key)) = parsed else {
            ctx.note(&format!("fixture {path} did not parse as a transferable secret key"));
            continue;
        };
        let mut keys: Vec<AnyKey> = vec![AnyKey::P(key.primary_key.clone())];
        for sk in &key.secret_subkeys {
            keys.push(AnyKey::S(sk.key.clone()));
        }
        for k in keys {
            let SecretParams::Encrypted(e) = k.secret_params() else { continue };
            let Some(hp) = hp_of(e.string_to_key_params()) else { continue };
            let (ver, alg, tag) = match &k {
                AnyKey::P(x) => (u8::from(x.version()), x.algorithm(), 5u8),
                AnyKey::S(x) => (u8::from(x.version()), x.algorithm(), 7u8),
            };
            let (Some(fmt), Some(pub_body)) = (fmt_of(alg), k.public_body()) else { continue };
            let blob = e.data().to_vec();
            // independent decryption
            let own: Option<Vec<u8>> = match hp.var {
                2 => hp.own_key(pw.as_bytes()).and_then(|dk| {
                    let okm = own_hkdf(&dk, &own_info(tag, ver, hp.sym, hp.mode));
                    own_aead(hp.sym, hp.mode, &okm, &hp.iv, &own_ad(tag, &pub_body), &blob, false)
                }),
                3 => hp.own_key(pw.as_bytes()).and_then(|key| own_cfb(hp.sym, &key, &hp.iv, &blob, false)).and_then(|pt| {
                    (pt.len() >= 20 && h_sha1(&pt[..pt.len() - 20]) == pt[pt.len() - 20..]).then(|| pt[..pt.len() - 20].to_vec())
                }),
                _ => hp.own_key(pw.as_bytes()).and_then(|key| own_cfb(hp.sym, &key, &hp.iv, &blob, false)).and_then(|pt| {
                    (pt.len() >= 2 && sum16(&pt[..pt.len() - 2]).to_be_bytes() == pt[pt.len() - 2..]).then(|| pt[..pt.len() - 2].to_vec())
                }),
            };
            let u = unlock_case(ctx, (ver, fmt), tag, &hp, pw.as_bytes(), &k, &blob, &pub_body, "third_party");
            let input = format!("{path} tag={tag} pw={}", hx(pw.as_bytes()));
            // the library returns the material re-serialised (MPIs without leading zero octets and
            // with exact bit counts, X448 scalars clamped): compare modulo that normalisation
            let ok = matches!((&u, &own), (Ok(Ok(m)), Some(o)) if *m == *o || Some(m.clone()) == normalise_material(fmt, o));
            ctx.oracle("third_party_key_unlocks", "SignedSecretKey::from_string -> SecretKey::unlock (fixture made by another implementation)", &input, ok,
                &format!("usage {} s2k {} own-decryption {}: {}", hp.usage_octet(), hp.s2k.kind(), if own.is_some() { "ok" } else { "failed" }, short(&ans_unlock(&u))));
            let mut wrong = pw.as_bytes().to_vec();
            wrong.push(b'x');
            let w = unlock_case(ctx, (ver, fmt), tag, &hp, &wrong, &k, &blob, &pub_body, "third_party_wrong_pw");
            ctx.oracle("wrong_password_fails", "SignedSecretKey::from_string -> SecretKey::unlock (fixture made by another implementation)", &input, matches!(w, Ok(Err(_))), &short(&ans_unlock(&w)));
            ctx.stat(&format!("third_party:usage{}:{}:v{}", hp.usage_octet(), hp.s2k.kind(), ver));
        }
    }
}

/// S2K parameter sweeps on a small key: iterated count octets, Argon2 (t, p, m)
fn s2k_sweeps(ctx: &mut Ctx, fixtures: &[KeyFix]) {
    let Some(f4) = fixtures.iter().find(|f| f.name == "ed25519" && f.ver == 4).cloned() else { return };
    let Some(f6) = fixtures.iter().find(|f| f.name == "ed25519" && f.ver == 6).cloned() else { return };
    let counts: Vec<u8> = if ctx.thorough() { (0..=255).collect() } else { vec![0, 15, 16, 31, 96, 224, 240, 255] };
    for c in counts {
        let salt = rand_arr(&mut ctx.rng);
        let hp = HP { var: 3, sym: 7, mode: 0, s2k: HS2k::Iter(if c >= 192 { 2 } else { 8 }, salt, c), iv: gen_iv(ctx, 16) };
        // (SHA-1 for the large counts: the hash the default GnuPG keys of that era use; v4 only)
        let _ = lock_case(ctx, &f4, 5, &hp, b"sweep");
        if hp.s2k != HS2k::Iter(2, salt, c) {
            let hp6 = HP { var: 2, sym: 9, mode: 2, s2k: hp.s2k.clone(), iv: gen_iv(ctx, 15) };
            let _ = lock_case(ctx, &f6, 5, &hp6, b"");
        }
        ctx.stat("sweep:iterated_count");
    }
    let ts: &[u8] = if ctx.thorough() { &[1, 2, 3, 4, 32] } else { &[1, 3] };
    let ps: &[u8] = if ctx.thorough() { &[1, 2, 3, 4, 8, 16] } else { &[1, 4] };
    for &t in ts {
        for &p in ps {
            let lo = 3 + (p as f32).log2().ceil() as u8;
            let ms: Vec<u8> = if ctx.thorough() { vec![lo, lo + 1, lo + 3, 12] } else { vec![lo, lo + 2] };
            for m in ms {
                if t == 32 && m > lo {
                    continue;
                }
                let hp = HP { var: 2, sym: [7u8, 8, 9][(t as usize + p as usize + m as usize) % 3], mode: 1 + ((t + p + m) % 3), s2k: HS2k::Argon2(rand_arr(&mut ctx.rng), t, p, m), iv: vec![] };
                let hp = HP { iv: gen_iv(ctx, own_nonce_size(hp.mode)), ..hp };
                let _ = lock_case(ctx, &f6, 7, &hp, "argon2 пароль".as_bytes());
                ctx.stat("sweep:argon2");
            }
        }
    }
}

pub fn run(ctx: &mut Ctx) {
    let fixtures = make_fixtures(ctx);
    if fixtures.is_empty() {
        ctx.note("no key fixtures");
        return;
    }
    usage_table(ctx, &fixtures);
    pub_body_cases(ctx, &fixtures);
    ser_cases(ctx);
    let pws = passwords(ctx);
    let thorough = ctx.thorough();
    let mut locked: Vec<(usize, Locked)> = Vec::new();

    // ---- 1. the configuration matrix on a small key (ed25519 / x25519), both versions, both tags:
    //         usage {253, 254} x S2K kind x hash x cipher x AEAD mode
    let small: Vec<usize> = fixtures.iter().enumerate().filter(|(_, f)| f.name == "ed25519" || f.name == "x25519").map(|(i, _)| i).collect();
    let mut n = 0usize;
    for &fi in &small {
        let fix = fixtures[fi].clone();
        for kind in 0..4usize {
            // CFB + SHA-1 (254): every cipher
            for &sym in &CFB_SYMS {
                if !thorough && (n + sym as usize) % 3 != 0 && ![7u8, 9].contains(&sym) {
                    continue;
                }
                n += 1;
                let hash = if n % 11 == 0 { WEAK_HASHES[n % 3] } else { STRONG_HASHES[n % 6] };
                let s2k = gen_s2k(ctx, kind, hash);
                let iv = gen_iv(ctx, own_block_size(sym));
                let hp = HP { var: 3, sym, mode: 0, s2k, iv };
                let pw = pws[n % pws.len()].clone();
                let tag = if n % 2 == 0 { 5 } else { 7 };
                if let Some(l) = lock_case(ctx, &fix, tag, &hp, &pw) {
                    locked.push((fi, l));
                }
            }
            // AEAD (253): cipher x mode
            for &sym in &AEAD_SYMS {
                for mode in 1u8..=3 {
                    n += 1;
                    let hash = if n % 13 == 0 { WEAK_HASHES[n % 3] } else { STRONG_HASHES[n % 6] };
                    let s2k = gen_s2k(ctx, kind, hash);
                    let iv = gen_iv(ctx, own_nonce_size(mode));
                    let hp = HP { var: 2, sym, mode, s2k, iv };
                    let pw = pws[n % pws.len()].clone();
                    let tag = if n % 2 == 0 { 5 } else { 7 };
                    if let Some(l) = lock_case(ctx, &fix, tag, &hp, &pw) {
                        locked.push((fi, l));
                    }
                }
            }
        }
        // configurations the library must refuse to create or that have no defined meaning
        for (var, sym, mode, s2k, ivlen) in [
            (3u8, 9u8, 0u8, HS2k::Argon2([1; 16], 1, 1, 5), 16usize), // Argon2 outside AEAD
            (4, 9, 0, HS2k::Iter(8, [1; 8], 96), 16),                 // 255: refused on write
            (1, 9, 0, HS2k::Simple(1), 16),                           // legacy: refused on write
            (3, 0, 0, HS2k::Iter(8, [1; 8], 96), 0),                  // plaintext "cipher"
            (3, 110, 0, HS2k::Iter(8, [1; 8], 96), 0),                // private cipher
            (2, 9, 0, HS2k::Iter(8, [1; 8], 96), 0),                  // AEAD mode 0
            (2, 13, 2, HS2k::Iter(8, [1; 8], 96), 15),                // AEAD with a non-AES cipher
            (3, 9, 0, HS2k::Opaque(2, vec![1, 2, 3]), 16),            // reserved S2K
            (2, 9, 2, HS2k::Argon2([1; 16], 33, 1, 5), 15),           // Argon2 t > 32
            (2, 9, 2, HS2k::Argon2([1; 16], 1, 4, 1), 15),            // Argon2 m below 8p
            (3, 9, 0, HS2k::Iter(99, [1; 8], 96), 16),                // unknown hash
        ] {
            let hp = HP { var, sym, mode, s2k, iv: vec![0x42; ivlen] };
            if let Some(l) = lock_case(ctx, &fix, 5, &hp, b"pw") {
                locked.push((fi, l));
            }
        }
    }

    // ---- 2. every key algorithm x version: default-like parameters (254 iterated, 253 argon2/iterated)
    for (fi, fix) in fixtures.clone().iter().enumerate() {
        let reps = if fix.name.starts_with("rsa") || fix.name.starts_with("dsa") { 1 } else { 2 };
        for rep in 0..reps {
            n += 1;
            let pw = pws[n % pws.len()].clone();
            let cfb = HP { var: 3, sym: [9u8, 7, 13][n % 3], mode: 0, s2k: gen_s2k(ctx, 2, STRONG_HASHES[n % 6]), iv: gen_iv(ctx, 16) };
            if let Some(l) = lock_case(ctx, fix, if rep == 0 { 5 } else { 7 }, &cfb, &pw) {
                locked.push((fi, l));
            }
            let mode = 1 + (n % 3) as u8;
            let aead = HP { var: 2, sym: AEAD_SYMS[n % 3], mode, s2k: gen_s2k(ctx, 2 + rep % 2, STRONG_HASHES[n % 6]), iv: gen_iv(ctx, own_nonce_size(mode)) };
            if let Some(l) = lock_case(ctx, fix, if rep == 0 { 5 } else { 7 }, &aead, &pw) {
                locked.push((fi, l));
            }
        }
    }

    // ---- 3. keys built by the harness from the RFC layout: 253, 254, 255, legacy cipher octets
    let mut wire_locked: Vec<(usize, Locked)> = Vec::new();
    // ---- components locked one after the other on the same thread under ONE S2K specifier (same salt)
    //      and one password but different ciphers, as other implementations write whole TSKs: each
    //      derivation stands on its own (a longer key first, then a shorter one, and the reverse)
    {
        let fa = fixtures.iter().find(|f| f.name == "ed25519" && f.ver == 6).cloned();
        let fb = fixtures.iter().find(|f| f.name == "x25519" && f.ver == 6).cloned();
        if let (Some(fa), Some(fb)) = (fa, fb) {
            for (sa, sb, kind) in [(9u8, 7u8, 3usize), (8, 7, 3), (7, 9, 3), (9, 7, 2), (7, 8, 2)] {
                let s2k = gen_s2k(ctx, kind, 8);
                let mode = 2u8;
                let hp_a = HP { var: 2, sym: sa, mode, s2k: s2k.clone(), iv: gen_iv(ctx, own_nonce_size(mode)) };
                let hp_b = HP { var: 2, sym: sb, mode, s2k, iv: gen_iv(ctx, own_nonce_size(mode)) };
                let pw = b"one password, one specifier".to_vec();
                let la = lock_case(ctx, &fa, 5, &hp_a, &pw);
                let lb = lock_case(ctx, &fb, 7, &hp_b, &pw);
                if let (Some(la), Some(lb)) = (la, lb) {
                    for l in [&lb, &la, &lb] {
                        let fix = if l.tag == 5 { &fa } else { &fb };
                        let u = unlock_case(ctx, (fix.ver, fix.fmt), l.tag, &l.hp, &pw, &l.key, &l.blob, &fix.pub_body, "shared_specifier");
                        ctx.oracle("lock_unlock_roundtrip", "SecretKey::unlock after another component was derived under the same S2K specifier", &format!("{} sym={} then sym={} s2k={}", fix.name, sa, sb, l.hp.s2k.kind()), matches!(&u, Ok(Ok(m)) if *m == fix.raw), &short(&ans_unlock(&u)));
                    }
                }
                ctx.stat("shared_specifier");
            }
        }
    }
    for (fi, fix) in fixtures.clone().iter().enumerate() {
        let heavy = fix.name.starts_with("rsa") || fix.name.starts_with("dsa");
        let kinds: &[usize] = if heavy { &[2] } else { &[0, 1, 2] };
        for &kind in kinds {
            for var in [4u8, 3, 1, 2] {
                let syms: Vec<u8> = match var {
                    2 => vec![AEAD_SYMS[(n + kind) % 3]],
                    1 => if heavy { vec![7] } else if kind == 0 { vec![1, 3, 4, 7, 11] } else if kind == 1 { vec![9, 2] } else { vec![] },
                    _ => if heavy { vec![9] } else { vec![[7u8, 9, 3, 13, 10, 2][(n + kind) % 6], 9] },
                };
                for sym in syms {
                    n += 1;
                    let hash = STRONG_HASHES[n % 6];
                    // (weak digests MD5 / SHA-1 / RIPEMD-160 in the S2K are forbidden for v6 packets only: v4 keys carrying
                    //  them, with usage 253 as well, are accepted from the wire and must unlock)
                    let s2k = if var == 2 { gen_s2k(ctx, 2 + kind % 2, if n % 2 == 0 { WEAK_HASHES[(n / 2) % 3] } else { hash }) } else { gen_s2k(ctx, kind, if n % 7 == 0 { 2 } else { hash }) };
                    let mode = 1 + (n % 3) as u8;
                    let iv = gen_iv(ctx, if var == 2 { own_nonce_size(mode) } else { own_block_size(sym) });
                    let hp = HP { var, sym, mode: if var == 2 { mode } else { 0 }, s2k, iv };
                    let pw = pws[n % pws.len()].clone();
                    wire_noncanonical_case(ctx, fix, if n % 2 == 0 { 5 } else { 7 }, &hp, &pw, (n % 2) as u8);
                    wire_noncanonical_case(ctx, fix, if n % 2 == 0 { 5 } else { 7 }, &hp, &pw, ((n + 1) % 2) as u8);
                    wire_noncanonical_case(ctx, fix, if n % 2 == 0 { 5 } else { 7 }, &hp, &pw, 2);
                    if let Some(l) = wire_case(ctx, fix, if n % 2 == 0 { 5 } else { 7 }, &hp, &pw) {
                        wire_locked.push((fi, l));
                    }
                }
            }
        }
    }

    // ---- 4. negatives: wrong passwords and bit flips, on a selection that covers every
    //         (version, usage, S2K kind, origin) on the small keys and every key algorithm
    let small_budget = ctx.pick(6, 40);
    let big_budget = ctx.pick(1, 6);
    let limit = ctx.pick(1, 8);
    let mut seen: std::collections::HashMap<String, usize> = std::collections::HashMap::new();
    for (fi, l) in locked.iter().chain(wire_locked.iter()) {
        let fix = fixtures[*fi].clone();
        let small = fix.name == "ed25519" || fix.name == "x25519";
        let cat = if small {
            format!("{}:{}:{}:{}:{}", fix.ver, l.hp.var, l.hp.s2k.kind(), l.by_library, fix.name)
        } else {
            format!("{}:{}:{}:{}", fix.ver, l.hp.var, l.by_library, fix.name)
        };
        let c = seen.entry(cat).or_insert(0);
        if *c >= limit {
            continue;
        }
        *c += 1;
        negatives(ctx, &fix, l, if small { small_budget } else { big_budget });
    }

    // ---- 5. malformed secret parts through the parser, transferable keys
    let n_rand = ctx.pick(1500, 20000);
    random_parse_cases(ctx, &fixtures, n_rand);
    composed_cases(ctx);
    s2k_sweeps(ctx, &fixtures);
    third_party_cases(ctx);
}
