//! C02, "a signature verifies only over what was signed": the digest input of a v6 signature is
//! `salt ‖ data ‖ hashed part ‖ trailer`; the lengths of the salt and of the hashed part are committed
//! to by the salt-size rule and by the trailer.  Moving a field boundary while keeping the octet stream
//! that is hashed (the end of the salt into the front of the data; the front of a large hashed part
//! into the end of the data) must not give a second (signature, message) pair that verifies.
use std::io::Read;

use pgp::composed::{DetachedSignature, Deserializable, Message};
use pgp::crypto::hash::HashAlgorithm;
use pgp::packet::{LiteralData, Notation, OnePassSignature, PacketTrait, Signature, SignatureConfig, SignatureType, SignatureVersionSpecific, Subpacket, SubpacketData};
use pgp::ser::Serialize;
use pgp::types::{KeyDetails, KeyVersion, Password, Timestamp};
use rand::SeedableRng;
use rand_chacha::ChaCha8Rng;

use crate::ctx::{guarded, hx, Ctx};

const DATA: &[u8] = b"pay 10 EUR to bob";

fn inline_ok(ops: &OnePassSignature, msg: &[u8], sig: &Signature, key: &pgp::composed::SignedPublicKey) -> bool {
    guarded(|| {
        let literal = LiteralData::from_bytes(&b""[..], msg.to_vec().into()).ok()?;
        let mut bytes = Vec::new();
        ops.to_writer_with_header(&mut bytes).ok()?;
        literal.to_writer_with_header(&mut bytes).ok()?;
        sig.to_writer_with_header(&mut bytes).ok()?;
        let mut m = Message::from_bytes(&bytes[..]).ok()?;
        let mut sink = Vec::new();
        m.read_to_end(&mut sink).ok()?;
        m.verify(key).ok().map(|_| ())
    })
    .ok()
    .flatten()
    .is_some()
}

pub fn run(ctx: &mut Ctx) {
    let mut rng = ChaCha8Rng::seed_from_u64(ctx.seed ^ 0xC02_EC);
    let secret = crate::keys::ed25519_x25519(&mut rng, KeyVersion::V6);
    let public = secret.to_public_key();
    let signer = &secret.primary_key;
    let fp = signer.fingerprint();
    let created = Timestamp::from_secs(1_700_000_000);
    let small = vec![
        Subpacket::regular(SubpacketData::SignatureCreationTime(created)).expect("sp"),
        Subpacket::regular(SubpacketData::IssuerFingerprint(fp.clone())).expect("sp"),
    ];
    let fp32: [u8; 32] = match fp.as_bytes().try_into() {
        Ok(a) => a,
        Err(_) => return,
    };

    // ---- 1. the end of the salt moved in front of the data
    for hash in [HashAlgorithm::Sha256, HashAlgorithm::Sha384, HashAlgorithm::Sha512, HashAlgorithm::Sha3_256, HashAlgorithm::Sha3_512] {
        let site = "Signature::verify / DetachedSignature::from_bytes + verify / Message::verify (v6 salt shortened, its tail moved in front of the data)";
        let Ok(mut config) = SignatureConfig::v6(&mut rng, SignatureType::Binary, signer.algorithm(), hash) else { continue };
        config.hashed_subpackets = small.clone();
        let Ok(sig) = config.sign(signer, &Password::empty(), DATA) else {
            ctx.stat("recut:cannot_sign");
            continue;
        };
        let ok0 = sig.verify(&public, DATA).is_ok();
        ctx.oracle("original_verifies", site, &format!("hash={hash:?}"), ok0, "the library's own v6 signature does not verify");
        let Some(cfg) = sig.config() else { continue };
        let SignatureVersionSpecific::V6 { salt } = &cfg.version_specific else { continue };
        let (Some(left), Some(value)) = (sig.signed_hash_value(), sig.signature()) else { continue };
        for k in 0..salt.len() {
            let short = salt[..k].to_vec();
            let mut msg = salt[k..].to_vec();
            msg.extend_from_slice(DATA);
            let mut c2 = SignatureConfig::v6_with_salt(cfg.typ, cfg.pub_alg, cfg.hash_alg, short.clone());
            c2.hashed_subpackets = small.clone();
            // in memory
            let in_memory = guarded(|| Signature::from_config(c2.clone(), left, value.clone()).ok().map(|s| s.verify(&public, &msg[..]).is_ok()).unwrap_or(false)).unwrap_or(false);
            // through the wire: patch the salt of the serialised packet
            let wire = guarded(|| {
                let s2 = Signature::from_config(c2.clone(), left, value.clone()).ok()?;
                let mut bytes = Vec::new();
                s2.to_writer_with_header(&mut bytes).ok()?;
                let d = DetachedSignature::from_bytes(&bytes[..]).ok()?;
                d.verify(&public, &msg[..]).ok()
            })
            .ok()
            .flatten()
            .is_some();
            let inline = guarded(|| {
                let s2 = Signature::from_config(c2.clone(), left, value.clone()).ok()?;
                let ops = OnePassSignature::v6(cfg.typ, cfg.hash_alg, cfg.pub_alg, short.clone(), fp32);
                Some(inline_ok(&ops, &msg, &s2, &public))
            })
            .ok()
            .flatten()
            .unwrap_or(false);
            ctx.stat("recut:salt");
            ctx.oracle(
                "signature_only_over_what_was_signed",
                site,
                &format!("hash={hash:?} salt={} kept={k} message={}", hx(salt), hx(&msg)),
                !in_memory && !wire && !inline,
                &format!("verified for another message: in memory {in_memory}, parsed {wire}, one-pass message {inline}"),
            );
        }
    }

    // ---- 2. the first 2^16 octets of a large hashed part moved behind the data
    {
        let site = "Signature::verify / Message::verify (v6 hashed part of 2^16 + n octets re-cut into data + hashed part of n octets)";
        let hash = HashAlgorithm::Sha256;
        let mut small_area = Vec::new();
        for sp in &small {
            let _ = sp.to_writer(&mut small_area);
        }
        let mut h_short = vec![6u8, 0x00, u8::from(signer.algorithm()), u8::from(hash)];
        h_short.extend_from_slice(&(small_area.len() as u32).to_be_bytes());
        h_short.extend_from_slice(&small_area);
        let name = b"attachment@example.org".to_vec();
        // notation subpacket: 5-octet length, type, 4 flag octets, 2 + 2 length octets, name, value
        let value_len = 65536 - (5 + 1 + 4 + 2 + 2) - name.len();
        let mut value = vec![b'.'; value_len - h_short.len()];
        value.extend_from_slice(&h_short);
        let mut hashed = small.clone();
        if let Ok(n) = Subpacket::regular(SubpacketData::Notation(Notation { readable: false, name: name.into(), value: value.into() })) {
            hashed.push(n);
        }
        let built = guarded(|| {
            let mut config = SignatureConfig::v6(&mut rng, SignatureType::Binary, signer.algorithm(), hash).ok()?;
            config.hashed_subpackets = hashed.clone();
            config.sign(signer, &Password::empty(), DATA).ok()
        });
        if let Ok(Some(sig)) = built {
            let ok0 = sig.verify(&public, DATA).is_ok();
            ctx.oracle("original_verifies", site, "large hashed area", ok0, "the library's own signature with a 64 KiB notation does not verify");
            let done = (|| -> Option<()> {
                let cfg = sig.config()?;
                let SignatureVersionSpecific::V6 { salt } = &cfg.version_specific else { return None };
                let body = sig.to_bytes().ok()?;
                let area_len = u32::from_be_bytes(body[4..8].try_into().ok()?) as usize;
                let h_long = &body[..8 + area_len];
                if h_long.len() != h_short.len() + 65536 || h_long[65536..] != h_short[..] {
                    ctx.stat("recut:hashed_area_layout_differs");
                    return None;
                }
                let mut other = DATA.to_vec();
                other.extend_from_slice(&h_long[..65536]);
                let mut c2 = SignatureConfig::v6_with_salt(cfg.typ, cfg.pub_alg, cfg.hash_alg, salt.clone());
                c2.hashed_subpackets = small.clone();
                let recut = Signature::from_config(c2, sig.signed_hash_value()?, sig.signature()?.clone()).ok()?;
                let detached = guarded(|| recut.verify(&public, &other[..]).is_ok()).unwrap_or(false);
                let ops = OnePassSignature::v6(cfg.typ, cfg.hash_alg, cfg.pub_alg, salt.clone(), fp32);
                let inline = inline_ok(&ops, &other, &recut, &public);
                ctx.stat("recut:hashed_area");
                ctx.oracle(
                    "signature_only_over_what_was_signed",
                    site,
                    &format!("data of {} octets signed with a hashed part of {} octets; presented: data of {} octets, hashed part of {} octets, same salt and signature value", DATA.len(), h_long.len(), other.len(), h_short.len()),
                    !detached && !inline,
                    &format!("verified for another message: detached {detached}, one-pass message {inline}"),
                );
                Some(())
            })();
            let _ = done;
        } else {
            ctx.stat("recut:cannot_sign_large");
        }
    }
}
