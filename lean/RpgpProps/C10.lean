import RpgpProofs.ArmorVariants
import RpgpProofs.ArmorSchedule
import RpgpProofs.ArmorB64Strict
/-!
# C10 — ASCII armor round trip, checksum correctness and tolerant reading

Model: `RpgpModel/Armor.lean` (writer: base64 → 64-column line writer, CRC-24 tee, header and
footer text; reader: streaming header parser under `read_from_buf`, CR/LF-skipping token filter,
1024-token decoder buffer with back-off, footer parser, CRC status).  Constants come from
`RpgpModel/Gen/Constants.lean`, re-extracted from the source on every run.

Two places where the code as it stands falls short of the property are modelled as they are,
carry a guarded (`…_partial`) theorem and a concrete witness of the negation:

* **D10**  `Dearmor::read_body` updates a copy of the CRC hasher (`crc_check_exact`).
* **D10b** the header-line parsers are wrapped in `complete(..)`: a source view that ends inside the
  `Key: Value` lines makes `Dearmor` fail (`schedule_independent`).

A third one, **D10c** (`key_value_pair` searched the whole remaining input for `":\n"` before `": "`, so
a header value ending in `:` came back as part of the key), was repaired in the code (commit 737e504:
the parser is line based); the model follows the repaired code, `armor_roundtrip` is stated for the
exact class of header maps the format can carry, and `header_value_colon_regression` keeps the old
parser's behaviour on record.
-/
namespace Rpgp.C10
open Rpgp Rpgp.Armor

/-! ## constants: RFC values, and writer / reader sites agree -/

theorem constants_rfc :
    Gen.armorLineWidth = 64 ∧ Gen.footerCrcChars = 4 ∧ Gen.wrCrcShiftHi = 16 ∧ Gen.wrCrcShiftMid = 8 ∧
    Gen.readChecksumBufLen = 4 ∧
    Gen.tokUpperLo = 65 ∧ Gen.tokUpperHi = 90 ∧ Gen.tokLowerLo = 97 ∧ Gen.tokLowerHi = 122 ∧
    Gen.tokDigitLo = 48 ∧ Gen.tokDigitHi = 57 := by decide

/-- header lines: the writer's `": "` and LF are what the reader splits at, the empty-value marker is
`:`; `key_value_pair` is the line-based parser (repair of D10c present, no whole-input search left)
and is still run under `many0(complete(..))` (D10b) -/
theorem header_line_sites_agree :
    [Gen.wrKvSep0.toUInt8, Gen.wrKvSep1.toUInt8] = [COLON, SP] ∧
    [Gen.rdKvSep0.toUInt8, Gen.rdKvSep1.toUInt8] = [COLON, SP] ∧
    Gen.rdKvEmptySuffix.toUInt8 = COLON ∧ Gen.wrKvLineEnd.toUInt8 = LF ∧
    Gen.kvLineBased = 1 ∧ Gen.kvWholeInputSearch = 0 ∧ Gen.kvPairsComplete = 1 := by decide

/-- the decoder's token buffer is a whole number (≥ 2) of base64 quanta, its output buffer holds what
one full token buffer decodes to, and the quanta are 4 → 3 — all that `decoder_any_capacity` needs -/
theorem decoder_buffer_shape :
    Gen.b64DecBufSize = 4 * (Gen.b64DecBufSize / 4) ∧ 2 ≤ Gen.b64DecBufSize / 4 ∧
    Gen.b64DecQuantumIn = 4 ∧ Gen.b64DecQuantumOut = 3 ∧ Gen.b64DecRefillBelow = 4 ∧ Gen.b64DecBackoff = 4 ∧
    Gen.b64DecBufSize / Gen.b64DecCapDiv * Gen.b64DecCapMul = Gen.b64DecBufSize / 4 * 3 := by decide

/-- the reader's token filter (`is_base64_token` minus CR/LF) is exactly the writer's alphabet plus `=` -/
theorem token_filter_is_alphabet : ∀ c : Byte, isB64Token c = isBodySym c := by
  apply byte_forall
  decide +kernel

/-- the value pinned by the repository's `test_dearmor_bad_crc24` as "calculated" CRC is the CRC-24
of the empty string, i.e. the hasher's initial state (D10) -/
theorem pinned_crc_is_initial_state : crc24 [] = Gen.pinnedUnupdatedCrc ∧ crc24Init = Gen.pinnedUnupdatedCrc := by
  decide

/-! ## base64 -/

/-- **round trip for every length** (all three residues mod 3) -/
theorem b64_roundtrip (d : Bytes) : b64dec (b64enc d) = some d := b64dec_b64enc d

theorem b64_length (d : Bytes) : (b64enc d).length = 4 * ((d.length + 2) / 3) := b64enc_length d

/-- only alphabet symbols and `=` are emitted … -/
theorem b64_alphabet (d : Bytes) : ∀ c ∈ b64enc d, isB64Sym c = true ∨ c = EQS := b64enc_chars d

/-- … and `=` can only stand in the last quantum -/
theorem b64_padding_only_at_end (d : Bytes) :
    ∀ c ∈ (b64enc d).take ((b64enc d).length - 4), isB64Sym c = true := b64enc_body_syms d

/-- streaming: encoding a stream cut at a multiple of three octets is the concatenation -/
theorem b64_append (a b : Bytes) (h : a.length % 3 = 0) : b64enc (a ++ b) = b64enc a ++ b64enc b :=
  b64enc_append a b h

/-- **canonical only**: the reader's decoder accepts a string only if it is *the* encoding of what
it returns (no alternative padding, no non-zero spare bits, no foreign symbols) -/
theorem b64_canonical_only (t d : Bytes) (h : b64dec t = some d) : b64enc d = t :=
  b64dec_canonical t.length t d (Nat.le_refl _) h

/-- a quantum beginning with `=` is never accepted, wherever it stands (why a checksum line is not
swallowed by the body decoder) -/
theorem b64_rejects_eqs_quantum (p : Bytes) (x y z : Byte) (s : Bytes) (hp : p.length % 4 = 0) :
    b64dec (p ++ EQS :: x :: y :: z :: s) = none :=
  b64dec_eqs_quantum (p.length / 4) p x y z s (by omega)

/-! ## CRC-24 -/

/-- streaming law: the tee may feed the hasher in any pieces -/
theorem crc_streaming (a b : Bytes) : crc24 (a ++ b) = crcFrom (crc24 a) b := crcFrom_append _ a b

theorem crc_is_24_bit (d : Bytes) : crc24 d < 2 ^ 24 := crc24_lt d

/-- check value of the CRC-24/OPENPGP catalogue entry -/
theorem crc_check_value : crc24 (asc "123456789") = 0x21CF02 := by decide +kernel

/-- the three octets + four characters written after `=` are read back as the same number -/
theorem checksum_text_roundtrip (c : Nat) (h : c < 2 ^ 24) : readChecksum (b64enc (crcOctets c)) = some c :=
  readChecksum_crcOctets c h

/-- `read_checksum` index arithmetic: the four characters after `=` decode to 1..3 octets, so the
writes `buf[i]`, `i = len, len-1, …, 1` stay inside the 4-octet buffer and `i -= 1` never underflows
(no panic for any input; looked at on request) -/
theorem read_checksum_index_safe (a b c e : Byte) (bs : Bytes) (h : b64dec [a, b, c, e] = some bs) :
    1 ≤ bs.length ∧ bs.length < Gen.readChecksumBufLen := by
  have e4 : Gen.readChecksumBufLen = 4 := rfl
  have := decLast_length a b c e bs (by simpa [b64dec] using h)
  omega

/-! ## the 64-column line writer under arbitrary write schedules -/

/-- whatever sequence of (possibly short, possibly empty) writes delivers the data, once all of it
has been consumed the output after `finish` is the wrapped text -/
theorem lw_schedule_indep (w : Nat) (hw : 0 < w) (data : Bytes) (offers : List Nat)
    (hall : (lwFeed w [] data offers).2.2 = []) :
    (lwFeed w [] data offers).1 ++ lwFinish (lwFeed w [] data offers).2.1 = wrap w data := by
  obtain ⟨c, h1, _, h3⟩ := lwFeed_spec w hw offers [] data hw
  rw [hall] at h1
  simp only [List.append_nil] at h1
  rw [h3, ← h1]; rfl

/-- any prefix of writes leaves the writer in a state from which the invariant continues: emitted
text + pending line = wrapped text of what was consumed -/
theorem lw_invariant (w : Nat) (hw : 0 < w) (data : Bytes) (offers : List Nat) :
    ∃ consumed, data = consumed ++ (lwFeed w [] data offers).2.2 ∧
      (lwFeed w [] data offers).1 ++ lwFinish (lwFeed w [] data offers).2.1 = wrap w consumed := by
  obtain ⟨c, h1, _, h3⟩ := lwFeed_spec w hw offers [] data hw
  exact ⟨c, h1, by simpa using h3⟩

/-- `write_all` terminates with everything consumed (no write of a non-empty buffer returns 0) -/
theorem lw_write_all_completes (w : Nat) (hw : 0 < w) (data : Bytes) (offers : List Nat) :
    (lwFeed w [] data (List.replicate data.length data.length)).2.2 = [] :=
  lwFeed_write_all w hw data.length data.length [] data hw (Nat.le_refl _) (Nat.le_refl _)

/-- … instantiated at the width `armor::write` uses -/
theorem armor_body_schedule_indep (d : Bytes) (offers : List Nat)
    (hall : (lwFeed Gen.armorLineWidth [] (b64enc d) offers).2.2 = []) :
    (lwFeed Gen.armorLineWidth [] (b64enc d) offers).1 ++ lwFinish (lwFeed Gen.armorLineWidth [] (b64enc d) offers).2.1
      = armorBody d :=
  lw_schedule_indep Gen.armorLineWidth (by decide) (b64enc d) offers hall

/-! ## emitted body lines -/

/-- the emitted body is a sequence of lines, each followed by LF; the lines concatenate to the
canonical base64 of the data; every line has 1..64 characters and every line but the last exactly 64 -/
theorem b64_canonical_lines (d : Bytes) :
    armorBody d = (linesOf 64 (b64enc d).length (b64enc d)).flatMap (· ++ [LF]) ∧
    (linesOf 64 (b64enc d).length (b64enc d)).flatten = b64enc d ∧
    (∀ l ∈ linesOf 64 (b64enc d).length (b64enc d), 0 < l.length ∧ l.length ≤ 64) ∧
    (∀ l ∈ (linesOf 64 (b64enc d).length (b64enc d)).dropLast, l.length = 64) := by
  have e : Gen.armorLineWidth = 64 := rfl
  obtain ⟨h1, h2, h3⟩ := linesOf_spec 64 (by omega) (b64enc d).length (b64enc d) (Nat.le_refl _)
  exact ⟨by rw [armorBody, e]; exact wrap_eq_lines 64 (by omega) _ _ (Nat.le_refl _), h1, h2, h3⟩

/-! ## the reader on well-formed armor text -/

/-- **tolerant reading, general form.**  For every payload `d` (every length), every admissible block
type and header map, the reader returns type, headers, data and checksum when given: leading text
(without `-`), LF or CRLF line endings, a separator line of blanks/tabs, CR/LF anywhere in the base64
part (`BodyText`: any line lengths, blank lines), an optional checksum line followed by any number of
line breaks, a footer with or without final line break, any trailing text — and every source
schedule whose first view contains the header section. -/
theorem armor_tolerant (lead nl ws : Bytes) (t : BlockType) (h : Headers) (d B : Bytes)
    (ck : Option Nat) (les : List Bytes) (tail : Bytes) (X1 : Bytes) (cs : List Bytes)
    (hlead : ∀ b ∈ lead, b ≠ 45) (hnl : IsNl nl) (hws : ∀ b ∈ ws, b = SP ∨ b = TAB)
    (ht : typeOk t = true) (hh : WFHeaders h = true) (hB : BodyText B (b64enc d))
    (hck : ∀ c, ck = some c → c < 2 ^ 24) (hles : ∀ le ∈ les, IsNl le)
    (hsplit : X1 ++ cs.flatten = restText B ck les t tail) :
    dearmor false ((headText lead nl ws t h ++ X1) :: cs) = readBack t h d ck := by
  rw [← dearmorResult_unchecked]
  exact dearmor_armorText false lead nl ws t h d B ck les tail X1 cs hlead hnl hws ht hh hB hck hles hsplit

/-! ### header lines: the exact class, every value -/

/-- **one header line, every value**: a key of the class (`keyOk`: non-empty, one line, no `": "`
inside, UTF-8) and *any* one-line UTF-8 value — ending in `:`, containing `": "`, with trailing blanks,
empty — written as `Key: Value` with LF or CRLF is read back as exactly that pair, whatever follows -/
theorem header_line_roundtrip (k v nl T : Bytes) (hk : keyOk k = true) (hv : valOk v = true) (hnl : IsNl nl) :
    kvPair (k ++ COLON :: SP :: (v ++ nl ++ T)) = .ok (k, v) T :=
  kvPair_line k v nl T hk hv hnl

/-- **every header map the writer can emit unambiguously** (`WFHeaders`: strictly increasing keys of
the class, any number of values per key — at least one —, every value one line of UTF-8) comes back
from the header stage exactly, with the block type, for every text that follows -/
theorem header_map_roundtrip (t : BlockType) (h : Headers) (X : Bytes)
    (ht : typeOk t = true) (hh : WFHeaders h = true) :
    headerParser (armorHead t h ++ X) = .ok (t, h, false) X := by
  rw [armorHead_eq]
  exact headerParser_headText [] [LF] [] t h X (by simp) (Or.inl rfl) (by simp) ht hh

/-- **the class is exact**: whatever `key_value_pair` returns has a non-empty key without line break
and without `": "` and a value without line break; keys outside the class therefore cannot survive
(a key containing `": "` is split earlier, see `header_class_boundary`) -/
theorem header_class_exact (i k v r : Bytes) (h : kvPair i = .ok (k, v) r) :
    k ≠ [] ∧ noCrLf k = true ∧ noColonSp k = true ∧ noCrLf v = true :=
  kvPair_returns_class i k v r h

/-- **armor round trip**: `armor::write` then `Dearmor`, for every data length, block type and
header map of the class above, with and without checksum. -/
theorem armor_roundtrip (t : BlockType) (h : Headers) (d : Bytes) (checksum : Bool)
    (ht : typeOk t = true) (hh : WFHeaders h = true) :
    dearmor false [armorWrite t h d checksum] = readBack t h d (writtenCrc d checksum) := by
  rw [armorWrite_eq]
  exact armor_tolerant [] [LF] [] t h d (armorBody d) (writtenCrc d checksum) [[LF]] [LF] _ []
    (by simp) (Or.inl rfl) (by simp) ht hh (armorBody_bodyText d) (writtenCrc_lt d checksum)
    (by simp [IsNl]) (by simp)

/-- **trailing text** after the footer line is not looked at (it used to be searched for `": "`) -/
theorem armor_trailing_text (t : BlockType) (h : Headers) (d : Bytes) (checksum : Bool) (trail : Bytes)
    (ht : typeOk t = true) (hh : WFHeaders h = true) :
    dearmor false [armorWrite t h d checksum ++ trail] = dearmor false [armorWrite t h d checksum] := by
  rw [armor_roundtrip t h d checksum ht hh, armorWrite_eq]
  have e : armorText [] [LF] [] t h (armorBody d) (writtenCrc d checksum) [[LF]] [LF] ++ trail =
      headText [] [LF] [] t h ++ restText (armorBody d) (writtenCrc d checksum) [[LF]] t (LF :: trail) := by
    simp [armorText, restText, footText, List.append_assoc]
  rw [e]
  exact armor_tolerant [] [LF] [] t h d (armorBody d) (writtenCrc d checksum) [[LF]] (LF :: trail) _ []
    (by simp) (Or.inl rfl) (by simp) ht hh (armorBody_bodyText d) (writtenCrc_lt d checksum)
    (by simp [IsNl]) (by simp)

/-- the checksum that is emitted, and read back, is the RFC CRC-24 of the data -/
theorem emitted_checksum_is_crc24 (t : BlockType) (h : Headers) (d : Bytes)
    (ht : typeOk t = true) (hh : WFHeaders h = true) :
    (dearmor false [armorWrite t h d true]).toOption.map (·.checksum) = some (some (crc24 d)) := by
  rw [armor_roundtrip t h d true ht hh]; rfl

/-- **source schedules** (guarded form): the armor may be cut into views anywhere after the header
section — inside base64 lines, inside the checksum, inside the footer line.
Full statement (cuts anywhere) fails on the unchanged tree (D10b, `header_cut_witness`). -/
theorem schedule_independent_partial (t : BlockType) (h : Headers) (d : Bytes) (checksum : Bool)
    (ht : typeOk t = true) (hh : WFHeaders h = true) (X1 : Bytes) (cs : List Bytes)
    (hsplit : X1 ++ cs.flatten = restText (armorBody d) (writtenCrc d checksum) [[LF]] t [LF]) :
    dearmor false ((armorHead t h ++ X1) :: cs) = dearmor false [armorWrite t h d checksum] := by
  rw [armor_roundtrip t h d checksum ht hh, armorHead_eq]
  exact armor_tolerant [] [LF] [] t h d (armorBody d) (writtenCrc d checksum) [[LF]] [LF] X1 cs
    (by simp) (Or.inl rfl) (by simp) ht hh (armorBody_bodyText d) (writtenCrc_lt d checksum)
    (by simp [IsNl]) hsplit

/-- **all source schedules, armor without header lines**: for the fifteen fixed block types, every
payload, checksum on or off, CRC checking on or off, *every* way of cutting the writer's output into
`fill_buf` views (single bytes, cuts inside the BEGIN line, the base64, the checksum, the footer)
gives the result of the one-view read -/
theorem schedule_independent_no_headers (crcCheck : Bool) (t : BlockType) (ht : t ∈ simpleTypes) (d : Bytes)
    (checksum : Bool) (chunks : List Bytes) (hflat : chunks.flatten = armorWrite t [] d checksum) :
    dearmor crcCheck chunks = dearmor crcCheck [armorWrite t [] d checksum] := by
  rw [dearmor_any_chunking_bare crcCheck t ht d checksum chunks hflat,
    dearmor_any_chunking_bare crcCheck t ht d checksum [armorWrite t [] d checksum] (by simp)]

/-- **CRLF**: the same armor with network line endings reads back the same -/
theorem armor_crlf_invariant (t : BlockType) (h : Headers) (d : Bytes) (checksum : Bool)
    (ht : typeOk t = true) (hh : WFHeaders h = true) :
    dearmor false [toCrlf (armorWrite t h d checksum)] = dearmor false [armorWrite t h d checksum] := by
  rw [armor_roundtrip t h d checksum ht hh, toCrlf_armorWrite t h d checksum hh]
  exact armor_tolerant [] [CR, LF] [] t h d (toCrlf (armorBody d)) (writtenCrc d checksum) [[CR, LF]] [CR, LF] _ []
    (by simp) (Or.inr rfl) (by simp) ht hh (armorBody_bodyText d).toCrlf (writtenCrc_lt d checksum)
    (by simp [IsNl]) (by simp)

/-- **blank and whitespace lines**: any blanks/tabs on the separator line, blank lines anywhere in the
base64 part (any re-wrapping of it, in fact), blank lines before the footer line, missing final newline, anything after the footer line -/
theorem armor_blank_invariant (t : BlockType) (h : Headers) (d : Bytes) (checksum : Bool)
    (ws B : Bytes) (les : List Bytes) (tail : Bytes)
    (ht : typeOk t = true) (hh : WFHeaders h = true)
    (hws : ∀ b ∈ ws, b = SP ∨ b = TAB) (hB : BodyText B (b64enc d)) (hles : ∀ le ∈ les, IsNl le) :
    dearmor false [armorText [] [LF] ws t h B (writtenCrc d checksum) les tail] =
      dearmor false [armorWrite t h d checksum] := by
  rw [armor_roundtrip t h d checksum ht hh]
  exact armor_tolerant [] [LF] ws t h d B (writtenCrc d checksum) les tail _ []
    (by simp) (Or.inl rfl) hws ht hh hB (writtenCrc_lt d checksum) hles (by simp)

/-- **leading text** before the BEGIN line -/
theorem armor_leading_text (t : BlockType) (h : Headers) (d : Bytes) (checksum : Bool) (lead : Bytes)
    (ht : typeOk t = true) (hh : WFHeaders h = true) (hlead : ∀ b ∈ lead, b ≠ 45) :
    dearmor false [lead ++ armorWrite t h d checksum] = dearmor false [armorWrite t h d checksum] := by
  rw [armor_roundtrip t h d checksum ht hh, armorWrite_eq]
  have e : lead ++ armorText [] [LF] [] t h (armorBody d) (writtenCrc d checksum) [[LF]] [LF] =
      headText lead [LF] [] t h ++ restText (armorBody d) (writtenCrc d checksum) [[LF]] t [LF] := by
    simp [armorText, headText, List.append_assoc]
  rw [e]
  exact armor_tolerant lead [LF] [] t h d (armorBody d) (writtenCrc d checksum) [[LF]] [LF] _ []
    hlead (Or.inl rfl) (by simp) ht hh (armorBody_bodyText d) (writtenCrc_lt d checksum)
    (by simp [IsNl]) (by simp)

/-- the decoder loop is correct for **every** token-buffer capacity `4q ≥ 8`, not only the 1024 of
the source (`decoder_buffer_shape` instantiates it) -/
theorem decoder_any_capacity (q : Nat) (hq : 2 ≤ q) (d B S' : Bytes) (hB : BodyText B (b64enc d)) :
    decodeBody (4 * q) ((B ++ 45 :: S').length + 1) [] 0 (B ++ 45 :: S') = (d, [], 45 :: S') :=
  decodeBody_nocrc q hq d.length d B S' _ (Nat.le_refl _) hB (by omega)

/-! ## CRC checking -/

/-
Full statement (property text: "when CRC checking is enabled it accepts exactly those inputs whose
checksum matches"):

  theorem crc_check_exact … :
      (∃ r, dearmor true [armorText … B ck …] = .ok r) ↔ (ck = none ∨ ck = some (crc24 d))

It is FALSE on the unchanged tree (D10): `read_body` updates a copy of the hasher, so the comparison
is always against the initial state.  What holds:
-/

/-- guarded form: checking disabled — everything well-formed is read, the checksum is only reported -/
theorem crc_check_exact_partial (t : BlockType) (h : Headers) (d : Bytes) (checksum : Bool)
    (ht : typeOk t = true) (hh : WFHeaders h = true) :
    ∃ r, dearmor false [armorWrite t h d checksum] = .ok r ∧ r.data = d ∧ r.checksum = writtenCrc d checksum :=
  ⟨_, armor_roundtrip t h d checksum ht hh, rfl, rfl⟩

/-- checking enabled, no checksum line: accepted (as the property demands) -/
theorem crc_check_no_checksum (t : BlockType) (h : Headers) (d : Bytes)
    (ht : typeOk t = true) (hh : WFHeaders h = true) :
    dearmor true [armorWrite t h d false] = readBack t h d none := by
  rw [armorWrite_eq]
  exact dearmor_armorText true [] [LF] [] t h d (armorBody d) none [[LF]] [LF] _ []
    (by simp) (Or.inl rfl) (by simp) ht hh (armorBody_bodyText d) (by simp)
    (by simp [IsNl]) (by simp [writtenCrc])

/-- checking enabled, checksum line present: what the code as it is decides — acceptance iff the
checksum equals the CRC of the *empty* string, whatever the data -/
theorem crc_check_as_implemented (t : BlockType) (h : Headers) (d : Bytes)
    (ht : typeOk t = true) (hh : WFHeaders h = true) :
    (∃ r, dearmor true [armorWrite t h d true] = .ok r) ↔ crc24 d = crc24 [] := by
  have e : dearmor true [armorWrite t h d true] = dearmorResult true t h d (some (crc24 d)) := by
    rw [armorWrite_eq]
    exact dearmor_armorText true [] [LF] [] t h d (armorBody d) (some (crc24 d)) [[LF]] [LF] _ []
      (by simp) (Or.inl rfl) (by simp) ht hh (armorBody_bodyText d) (writtenCrc_lt d true)
      (by simp [IsNl]) (by simp [writtenCrc])
  rw [e]
  have hinit : crc24 [] = crc24Init := rfl
  by_cases hc : crc24 d = crc24Init
  · simp [dearmorResult, crcStatus, dearmorCalculatedCrc, hc, hinit]
  · simp [dearmorResult, crcStatus, dearmorCalculatedCrc, hc, hinit]

/-- witness of the negation of `crc_check_exact`: the writer's own output for the one-octet payload
`00`, carrying its correct checksum, is rejected when checking is enabled … -/
theorem crc_check_rejects_correct_checksum :
    dearmor true [armorWrite .message [] [0] true] = .error .crcMismatch ∧
    (dearmor false [armorWrite .message [] [0] true]).toOption.map (·.checksum) = some (some (crc24 [0])) := by
  decide +kernel

/-- … and a wrong checksum (that of the empty string) on the same payload is accepted -/
theorem crc_check_accepts_wrong_checksum :
    (dearmor true [armorText [] [LF] [] .message [] (armorBody [0]) (some (crc24 [])) [[LF]] [LF]]).toOption.map (·.status)
      = some (.checkedOk (crc24 [])) ∧ crc24 [] ≠ crc24 [0] := by
  decide +kernel

/-! ## witnesses for the two reader findings -/

/-- D10b: the armor of `hi` with one header line, handed over in two views cut inside that line,
is rejected; in one view it is read -/
theorem header_cut_witness :
    let a := armorWrite .message [(asc "Version", [asc "1"])] (asc "hi") true
    dearmor false [a.take 31, a.drop 31] = .error .headerBad ∧
    dearmor false [a] = readBack .message [(asc "Version", [asc "1"])] (asc "hi") (some (crc24 (asc "hi"))) := by
  decide +kernel

/-- header values that used to break (D10c) and the corners of the class, through the whole
writer → reader path: values ending in `:`, containing `": "`, empty, with blanks around, several
values under one key, a key with `:` inside and at its end, a value that is a lone `:` -/
theorem header_values_witness :
    let h : Headers := [(asc "Comment", [asc "see below:", asc "a: b: c", [], asc " x  ", asc ":"]),
                        (asc "a:b", [asc "v"]), (asc "k:", [asc ": "])]
    WFHeaders h = true ∧
    dearmor false [armorWrite .message h (asc "hi") true] = readBack .message h (asc "hi") (some (crc24 (asc "hi"))) ∧
    dearmor false [toCrlf (armorWrite .message h (asc "hi") true)] = readBack .message h (asc "hi") (some (crc24 (asc "hi"))) := by
  decide +kernel

/-- the boundary of the class: a key containing `": "` is split at the first one, an empty key and a
line without any colon are not header lines, `Key:` + LF / CR LF is an empty value, a line that is
not UTF-8 or has no line ending yet is not accepted (`complete` turns the latter into an error) -/
theorem header_class_boundary :
    kvPair (asc "a: b: c\n") = .ok (asc "a", asc "b: c") [] ∧
    kvPair (asc ": v\n") = .err ∧ kvPair (asc ":\n") = .err ∧ kvPair (asc "no colon\n") = .err ∧
    kvPair (asc "Key:\nrest") = .ok (asc "Key", []) (asc "rest") ∧
    kvPair (asc "Key:\r\nrest") = .ok (asc "Key", []) (asc "rest") ∧
    kvPair (asc "Key: \n") = .ok (asc "Key", []) [] ∧
    kvPair (asc "Key :\n") = .ok (asc "Key ", []) [] ∧
    kvPair (asc "some:colon: with:me\n") = .ok (asc "some:colon", asc "with:me") [] := by
  decide +kernel

theorem header_class_boundary_rejects :
    kvPair ([75, 58, 32, 255, 10]) = .err ∧
    kvPair (asc "Key: a\rb\n") = .err ∧
    kvPair (asc "Key: value") = .inc ∧ (kvPair (asc "Key: value")).complete = .err ∧
    WFHeaders [(asc "a: b", [asc "c"])] = false ∧ WFHeaders [([], [asc "c"])] = false := by
  decide +kernel

/-- regression record for D10c: on the text `Comment: see below:` + blank line, the header-line parser
as it was before commit 737e504 (`Pre737.kvPair`, whole-input search) returned the key
`Comment: see below` with an empty value; the line-based parser returns the pair that was written -/
theorem header_value_colon_regression :
    Pre737.kvPair (asc "Comment: see below:\n\n") = .ok (asc "Comment: see below", []) (asc "\n") ∧
    kvPair (asc "Comment: see below:\n\n") = .ok (asc "Comment", asc "see below:") (asc "\n") ∧
    -- … and a later `Key: ` used to swallow what came before it
    Pre737.kvPair (asc "\nAAAA\n-----END X-----\nNote: text\n") = .ok (asc "\nAAAA\n-----END X-----\nNote", asc "text") [] ∧
    kvPair (asc "\nAAAA\n-----END X-----\nNote: text\n") = .err := by
  decide +kernel

/-! ## non-vacuity -/

example : b64enc (asc "hello world") = asc "aGVsbG8gd29ybGQ=" := by decide +kernel
example : typeOk (.multiPart 3 14) = true ∧ typeOk .publicKey = true ∧ typeOk .cleartext = false := by decide
example : WFHeaders [(asc "Comment", [asc "first", asc "second", []]), (asc "Version", [asc "1"])] = true := by
  decide +kernel
example : armorWrite .message [(asc "Version", [asc "1"])] (asc "hello world") true =
    asc "-----BEGIN PGP MESSAGE-----\nVersion: 1\n\naGVsbG8gd29ybGQ=\n=sDy3\n-----END PGP MESSAGE-----\n" := by
  decide +kernel
example : BodyText (asc "aGVs\r\n\nbG8=\n") (b64enc (asc "hello")) := by
  have : b64enc (asc "hello") = asc "aGVsbG8=" := by decide +kernel
  rw [this]
  repeat (first | exact BodyText.nil | apply BodyText.tok _ _ _ (by decide) | apply BodyText.nl _ _ _ (by decide))

end Rpgp.C10
