import RpgpModel.SignVerify
import RpgpProofs.Canon
import RpgpProofs.CanonReader
import RpgpProofs.Framing
/-! Helper lemmas for C06: what each sign-side / verify-side interface of `RpgpModel/SignVerify.lean`
feeds to the digest, reduced to `canon` / identity of the payload. -/
namespace Rpgp.SV
open Rpgp

/-! ## big-endian lengths -/

theorem beNat_be32 (n : Nat) (h : n < 4294967296) : beNat (be32 n) = n := by
  rw [be32_eq, beNat_four,
    toUInt8_toNat_of_lt _ (Nat.mod_lt _ (by decide)), toUInt8_toNat_of_lt _ (Nat.mod_lt _ (by decide)),
    toUInt8_toNat_of_lt _ (Nat.mod_lt _ (by decide)), toUInt8_toNat_of_lt _ (Nat.mod_lt _ (by decide))]
  omega

theorem be32_inj (a b : Nat) (ha : a < 4294967296) (hb : b < 4294967296) (h : be32 a = be32 b) : a = b := by
  have := congrArg beNat h
  rwa [beNat_be32 a ha, beNat_be32 b hb] at this

/-! ## the hasher in both modes -/

theorem foldl_hashBufBinary (cs : List Bytes) (seen : Bytes) :
    cs.foldl hashBufBinary seen = seen ++ cs.flatten := by
  induction cs generalizing seen with
  | nil => simp
  | cons c cs ih =>
    simp only [List.foldl_cons, List.flatten_cons, ih]
    unfold hashBufBinary
    cases c <;> simp

theorem hasherFeed_false (cs : List Bytes) : hasherFeed false cs = cs.flatten := by
  simp [hasherFeed, foldl_hashBufBinary]

theorem hasherFeed_true (cs : List Bytes) : hasherFeed true cs = canon cs.flatten := by
  have := (hasher_fold cs {} [] rfl rfl).1
  simpa [hasherFeed, hashedText, Hasher.done] using this

/-- what the hasher hashes depends only on the concatenation of the chunks -/
theorem hasherFeed_eq (text : Bool) (cs : List Bytes) :
    hasherFeed text cs = if text then canon cs.flatten else cs.flatten := by
  cases text <;> simp [hasherFeed_false, hasherFeed_true]

/-! ## `chunksOf` -/

theorem chunksOf_flatten (n : Nat) (hn : 0 < n) (d : Bytes) : (chunksOf n d).flatten = d := by
  fun_induction chunksOf n d with
  | case1 d h =>
    rcases h with h | h
    · omega
    · simp [h]
  | case2 d h ih =>
    simp only [List.flatten_cons, ih]
    exact List.take_append_drop n d

theorem chunksOf_allNonEmpty (n : Nat) (hn : 0 < n) (d : Bytes) : AllNonEmpty (chunksOf n d) := by
  fun_induction chunksOf n d with
  | case1 d h => simp [AllNonEmpty]
  | case2 d h ih =>
    intro c hc
    rcases List.mem_cons.mp hc with rfl | hc
    · intro h0
      have hd : d ≠ [] := fun hd => h (Or.inr hd)
      have hlen : 0 < d.length := List.length_pos_iff.mpr hd
      have := congrArg List.length h0
      simp only [List.length_take, List.length_nil] at this
      omega
    · exact ih c hc

/-! ## interfaces reduced to the specification -/

/-- the bytes that stand for the document inside the pre-image: `canon` for text signatures, the
document itself otherwise (RFC 9580 §5.2.1 types 0x01 / 0x00) -/
def dataHashed (text : Bool) (d : Bytes) : Bytes := if text then canon d else d

theorem hasherFeed_dataHashed (text : Bool) (cs : List Bytes) :
    hasherFeed text cs = dataHashed text cs.flatten := by
  rw [hasherFeed_eq]; rfl

/-- a configuration as the constructors build it: v4 has no salt -/
def WFCfg (c : SigCfg) : Prop := (c.ver = 4 ∧ c.salt = []) ∨ c.ver = 6

instance (c : SigCfg) : Decidable (WFCfg c) := by unfold WFCfg; exact inferInstance

theorem signAligned_verifyAligned (kv sv : Nat) (h : signAligned kv sv = true) : verifyAligned kv sv = true := by
  unfold signAligned at h
  unfold verifyAligned
  simp only [Bool.or_eq_true, Bool.and_eq_true, beq_iff_eq] at h
  rcases h with ⟨h1, h2⟩ | ⟨h1, h2⟩ <;> subst h1 <;> subst h2 <;> decide

theorem signAligned_wfver (kv sv : Nat) (h : signAligned kv sv = true) : sv = 4 ∨ sv = 6 := by
  unfold signAligned at h
  simp only [Bool.or_eq_true, Bool.and_eq_true, beq_iff_eq] at h
  rcases h with ⟨h1, _⟩ | ⟨h1, _⟩ <;> simp [h1]

theorem signConfig_eq (kv : Nat) (c : SigCfg) (src : List Bytes) :
    signConfig kv c src =
      if signAligned kv c.ver && dataSigType c.typ then some (preimage c (dataHashed c.textMode src.flatten))
      else none := by
  unfold signConfig
  rw [hasherFeed_dataHashed]

theorem normalizedReadSrc_eq_canon (W : Nat) (hW : 0 < W) (src : List Bytes) (hsrc : AllNonEmpty src) :
    normalizedReadSrc W src = canon src.flatten := by
  unfold normalizedReadSrc
  rw [nrBlocksSrc_eq W hW _ src _ hsrc (by omega)]
  exact normalizedRead_eq_canon W hW src.flatten

theorem verifyDetached_eq (W : Nat) (hW : 0 < W) (kv : Nat) (c : SigCfg) (src : List Bytes)
    (hsrc : AllNonEmpty src) :
    verifyDetached W kv c src =
      if verifyAligned kv c.ver && dataSigType c.typ then some (preimage c (dataHashed c.textMode src.flatten))
      else none := by
  unfold verifyDetached dataHashed
  rw [normalizedReadSrc_eq_canon W hW src hsrc]

theorem opsMatches_opsOf (c : SigCfg) (h : c.ver = 4 ∨ c.ver = 6) : opsMatches (opsOf c) c = true := by
  unfold opsMatches opsOf
  rcases h with h | h <;> simp [h]

theorem opsOf_salt (c : SigCfg) (h : WFCfg c) : (opsOf c).salt = c.salt := by
  unfold opsOf
  rcases h with ⟨h4, hs⟩ | h6
  · simp [h4, hs]
  · simp [h6]

theorem verifyInlineOps_eq (B : Nat) (hB : 0 < B) (c : SigCfg) (h : WFCfg c) (body : Bytes) :
    verifyInlineOps B (opsOf c) c body = some (preimage c (dataHashed c.textMode body)) := by
  have hv : c.ver = 4 ∨ c.ver = 6 := by rcases h with ⟨h, _⟩ | h <;> simp [h]
  unfold verifyInlineOps
  rw [opsMatches_opsOf c hv, hasherFeed_dataHashed, chunksOf_flatten B hB, opsOf_salt c h]
  simp [preimage, SigCfg.textMode, opsOf]

theorem verifyInlineSig_eq (B : Nat) (hB : 0 < B) (c : SigCfg) (body : Bytes) :
    verifyInlineSig B c body = some (preimage c (dataHashed c.textMode body)) := by
  unfold verifyInlineSig
  rw [hasherFeed_dataHashed, chunksOf_flatten B hB]
  rfl

end Rpgp.SV
