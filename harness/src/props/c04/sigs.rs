//! Part F — valid signatures whose signature VALUE is hostile, through every verify entry point.
//!
//! For every signing algorithm the harness owns a key of (RSA, DSA, ECDSA P-256/P-384/P-521/
//! secp256k1, EdDSA legacy, Ed25519 v4+v6, Ed448) a genuine signature is made and its value replaced
//! through `Signature::from_config(config, signed_hash_value, ..)`, so that the digest prefix ("left
//! 16 bits"), issuer, version alignment and hash strength all pass and the public-key operation is
//! reached.  Values: longer than the modulus / field by one and by many octets, maximal parseable
//! MPI, empty, one octet, all-ff of the exact size, wrong number of MPIs, native blob where MPIs are
//! expected and vice versa, native blobs of wrong length.
//!
//! Correspondence op `sig_shape` (model: the shaping of the value in front of the primitive:
//! `rsaVerifyPad`, `fieldPad2`): `VerifyingKey::verify(hash, digest, value)` called directly.

use std::io::Read;
use std::time::Instant;

use pgp::composed::{
    CleartextSignedMessage, Deserializable, DetachedSignature, EncryptionCaps, KeyType, Message, MessageBuilder, SecretKeyParamsBuilder,
    SignedPublicKey, SignedSecretKey, SubkeyParamsBuilder,
};
use pgp::crypto::ecc_curve::ECCCurve;
use pgp::crypto::hash::HashAlgorithm;
use pgp::packet::{Packet, PacketParser, Signature, Subpacket, SubpacketData};
use pgp::ser::Serialize;
use pgp::types::{KeyDetails, KeyVersion, Mpi, Password, PublicParams, SignatureBytes, SigningKey, VerifyingKey};
use rand::SeedableRng;
use rand_chacha::ChaCha8Rng;

use super::{guard, no_panic};
use crate::ctx::{hx, Ctx};

struct Owned {
    name: &'static str,
    key: SignedSecretKey,
    hash: HashAlgorithm,
    /// model parameters: ("rsa", modulus octets) | ("field", field octets) | ("dsa", 0) | ("native", blob octets)
    shape: (&'static str, usize),
}

fn gen_key(rng: &mut ChaCha8Rng, version: KeyVersion, kt: KeyType, uid: &str) -> Option<SignedSecretKey> {
    let sub = SubkeyParamsBuilder::default()
        .version(version)
        .key_type(kt.clone())
        .can_sign(true)
        .can_encrypt(EncryptionCaps::None)
        .passphrase(None)
        .build()
        .ok()?;
    let params = SecretKeyParamsBuilder::default()
        .version(version)
        .key_type(kt)
        .can_certify(true)
        .can_sign(true)
        .primary_user_id(uid.into())
        .passphrase(None)
        .subkey(sub)
        .build()
        .ok()?;
    guard(|| params.generate(&mut *rng)).ok()?.ok()
}

fn owned_keys(ctx: &mut Ctx, seed: u64) -> Vec<Owned> {
    let mut rng = ChaCha8Rng::seed_from_u64(seed ^ 0xC04F5);
    let mut v = Vec::new();
    let mut add = |ctx: &mut Ctx, name: &'static str, version: KeyVersion, kt: KeyType, hash: HashAlgorithm, shape: (&'static str, usize)| {
        let t = Instant::now();
        match gen_key(&mut rng, version, kt, name) {
            Some(key) => v.push(Owned { name, key, hash, shape }),
            None => ctx.note(&format!("sigs: no {name} key could be generated")),
        }
        if t.elapsed().as_millis() > 3000 {
            ctx.note(&format!("sigs: generating {name} took {} ms", t.elapsed().as_millis()));
        }
    };
    add(ctx, "rsa2048", KeyVersion::V4, KeyType::Rsa(2048), HashAlgorithm::Sha256, ("rsa", 256));
    add(ctx, "ecdsa-p256", KeyVersion::V4, KeyType::ECDSA(ECCCurve::P256), HashAlgorithm::Sha256, ("field", 32));
    add(ctx, "ecdsa-p384", KeyVersion::V4, KeyType::ECDSA(ECCCurve::P384), HashAlgorithm::Sha384, ("field", 48));
    add(ctx, "ecdsa-p521", KeyVersion::V4, KeyType::ECDSA(ECCCurve::P521), HashAlgorithm::Sha512, ("field", 66));
    add(ctx, "ecdsa-secp256k1", KeyVersion::V4, KeyType::ECDSA(ECCCurve::Secp256k1), HashAlgorithm::Sha256, ("field", 32));
    add(ctx, "eddsa-legacy", KeyVersion::V4, KeyType::Ed25519Legacy, HashAlgorithm::Sha256, ("field", 32));
    add(ctx, "ed25519-v4", KeyVersion::V4, KeyType::Ed25519, HashAlgorithm::Sha256, ("native", 64));
    add(ctx, "ed25519-v6", KeyVersion::V6, KeyType::Ed25519, HashAlgorithm::Sha512, ("native", 64));
    add(ctx, "ed448-v6", KeyVersion::V6, KeyType::Ed448, HashAlgorithm::Sha512, ("native", 114));
    if ctx.thorough() {
        add(ctx, "dsa2048", KeyVersion::V4, KeyType::Dsa(pgp::composed::DsaKeySize::B2048), HashAlgorithm::Sha256, ("dsa", 32));
        add(ctx, "rsa3072-v6", KeyVersion::V6, KeyType::Rsa(3072), HashAlgorithm::Sha512, ("rsa", 384));
    } else {
        add(ctx, "dsa1024", KeyVersion::V4, KeyType::Dsa(pgp::composed::DsaKeySize::B1024), HashAlgorithm::Sha256, ("dsa", 20));
    }
    v
}

/// hostile replacements of a genuine signature value: (description, value, is it still the genuine value?)
fn tampered(genuine: &SignatureBytes, unit: usize) -> Vec<(String, SignatureBytes, bool)> {
    let mut out: Vec<(String, SignatureBytes, bool)> = vec![("genuine".into(), genuine.clone(), true)];
    let mpi = |b: &[u8]| Mpi::from_slice(b);
    match genuine {
        SignatureBytes::Mpis(ms) => {
            let n = ms.len();
            let with = |i: usize, m: Mpi| {
                let mut v = ms.clone();
                v[i] = m;
                SignatureBytes::Mpis(v)
            };
            for i in 0..n {
                for (what, bytes) in [
                    ("one octet longer", vec![0xffu8; unit + 1]),
                    ("one octet longer, leading 01", [&[1u8][..], &vec![0u8; unit]].concat()),
                    ("100 octets longer", vec![0xabu8; unit + 100]),
                    ("2048 octets (largest MPI the parser takes)", vec![0x80u8; 2048]),
                    ("2049 octets", vec![0x80u8; 2049]),
                    ("empty", vec![]),
                    ("zero", vec![0u8; unit]),
                    ("one octet", vec![1u8]),
                    ("all-ff of the exact size", vec![0xffu8; unit]),
                    ("one octet shorter", vec![0x7fu8; unit.saturating_sub(1)]),
                ] {
                    out.push((format!("MPI#{i} {what}"), with(i, mpi(&bytes)), false));
                }
            }
            out.push(("no MPIs".into(), SignatureBytes::Mpis(vec![]), false));
            out.push(("one MPI fewer".into(), SignatureBytes::Mpis(ms[..n - 1].to_vec()), false));
            let mut more = ms.clone();
            more.push(mpi(&[5, 6, 7]));
            out.push(("one MPI more".into(), SignatureBytes::Mpis(more.clone()), false));
            more.push(mpi(&vec![0xffu8; unit + 1]));
            out.push(("two MPIs more".into(), SignatureBytes::Mpis(more), false));
            for len in [0usize, 1, 64, 114, unit, 2 * unit] {
                out.push((format!("native blob of {len} octets instead of MPIs"), SignatureBytes::Native(vec![0x5au8; len].into()), false));
            }
        }
        SignatureBytes::Native(b) => {
            let l = b.len();
            for len in [0usize, 1, l - 1, l + 1, l + 100, 2 * l, 63, 64, 65, 113, 114, 115, 4096] {
                if len != l {
                    out.push((format!("native blob of {len} octets"), SignatureBytes::Native(vec![0xa5u8; len].into()), false));
                }
            }
            out.push(("native all-zero".into(), SignatureBytes::Native(vec![0u8; l].into()), false));
            out.push(("native all-ff".into(), SignatureBytes::Native(vec![0xffu8; l].into()), false));
            out.push(("MPIs instead of native (none)".into(), SignatureBytes::Mpis(vec![]), false));
            out.push(("MPIs instead of native (two halves)".into(), SignatureBytes::Mpis(vec![mpi(&b[..l / 2]), mpi(&b[l / 2..])]), false));
            out.push(("MPIs instead of native (one, 1 octet too long)".into(), SignatureBytes::Mpis(vec![mpi(&vec![0xffu8; l + 1])]), false));
        }
    }
    out
}

fn show_value(v: &SignatureBytes) -> String {
    match v {
        SignatureBytes::Mpis(ms) => format!("mpis[{}]", ms.iter().map(|m| m.len().to_string()).collect::<Vec<_>>().join(",")),
        SignatureBytes::Native(b) => format!("native[{}]", b.len()),
    }
}

fn replace_value(sig: &Signature, value: &SignatureBytes) -> Option<Signature> {
    Signature::from_config(sig.config()?.clone(), sig.signed_hash_value()?, value.clone()).ok()
}

/// the model request for the direct call: lengths only
fn shape_request(shape: (&'static str, usize), value: &SignatureBytes, valid: bool) -> String {
    let (kind, lens) = match value {
        SignatureBytes::Mpis(ms) => ("mpis", ms.iter().map(|m| m.len().to_string()).collect::<Vec<_>>().join(",")),
        SignatureBytes::Native(b) => ("native", b.len().to_string()),
    };
    format!("sig_shape alg={} unit={} value={kind} lens={} valid={}", shape.0, shape.1, if lens.is_empty() { "-".into() } else { lens }, valid as u8)
}

fn one_key(ctx: &mut Ctx, o: &Owned, rng: &mut ChaCha8Rng) {
    let pw = Password::empty();
    let public: SignedPublicKey = o.key.to_public_key();
    let data = b"C04 signed content\r\nsecond line\r\n";

    // ---- E1: the public-key operation called directly with a digest --------------------------------
    let digest = o.hash.digest(data).expect("digest");
    let genuine_raw = match guard(|| o.key.primary_key.sign(&pw, o.hash, &digest)) {
        Ok(Ok(s)) => s,
        _ => {
            ctx.note(&format!("sigs: {} cannot sign a raw digest", o.name));
            return;
        }
    };
    let unit = match (&genuine_raw, o.shape) {
        (_, ("rsa", n)) | (_, ("field", n)) | (_, ("dsa", n)) => n,
        (SignatureBytes::Native(b), _) => b.len(),
        _ => o.shape.1,
    };
    for (what, value, is_genuine) in tampered(&genuine_raw, unit) {
        let t = Instant::now();
        let r = guard(|| public.primary_key.verify(o.hash, &digest, &value));
        let input = format!("key={} value={} [{what}] digest={} bytes={:?}", o.name, show_value(&value), hx(&digest), value);
        no_panic(ctx, &format!("packet/key/public.rs PubKeyInner::verify (hostile signature value)"), &input, &r, t);
        if is_genuine {
            ctx.oracle("genuine_signature_verifies", "VerifyingKey::verify", &input, matches!(r, Ok(Ok(()))), &format!("{r:?}"));
        }
        ctx.case(shape_request(o.shape, &value, is_genuine), super::cls(&r).to_string());
    }

    // ---- genuine artefacts to tamper with -----------------------------------------------------------
    let Ok(Ok(detached)) = guard(|| DetachedSignature::sign_binary_data(&mut *rng, &o.key.primary_key, &pw, o.hash, &data[..])) else {
        ctx.note(&format!("sigs: {} cannot make a detached signature", o.name));
        return;
    };
    let sig0: Signature = detached.signature.clone();
    let Some(genuine) = sig0.signature().cloned() else { return };
    // inline, one-pass and prefixed
    let inline = guard(|| {
        let mut b = MessageBuilder::from_bytes("", data.to_vec());
        b.sign(&*o.key, Password::empty(), o.hash);
        b.to_vec(&mut *rng)
    });
    let inline_packets: Vec<Packet> = match &inline {
        Ok(Ok(bytes)) => PacketParser::new(&bytes[..]).filter_map(|p| p.ok()).collect(),
        _ => vec![],
    };
    let cleartext = guard(|| CleartextSignedMessage::sign(&mut *rng, "hello\n- dash\nworld  \n", &o.key.primary_key, &pw));

    let variants = tampered(&genuine, unit);
    for (what, value, is_genuine) in &variants {
        let Some(sig) = replace_value(&sig0, value) else {
            ctx.stat("sigs:from_config-refused");
            continue;
        };
        let input = format!("key={} value={} [{what}] signature_packet={}", o.name, show_value(value), Packet::from(sig.clone()).to_bytes().map(|b| hx(&b)).unwrap_or("(unserialisable)".into()));
        // E2 Signature::verify
        let t = Instant::now();
        let r = guard(|| sig.verify(&public, &data[..]));
        no_panic(ctx, &format!("Signature::verify (hostile signature value)"), &input, &r, t);
        if *is_genuine {
            ctx.oracle("genuine_signature_verifies", "Signature::verify", &input, matches!(r, Ok(Ok(()))), &format!("{r:?}"));
        }
        ctx.stat(&format!("sigs:{}:Signature::verify:{}", o.name, super::cls(&r)));
        // E3 DetachedSignature
        let t = Instant::now();
        let r = guard(|| DetachedSignature::new(sig.clone()).verify(&public, data));
        no_panic(ctx, &format!("DetachedSignature::verify (hostile signature value)"), &input, &r, t);
        // E4 serialized and parsed back (hostile bytes on the wire)
        let t = Instant::now();
        let r = guard(|| {
            let bytes = Packet::from(sig.clone()).to_bytes()?;
            let d = DetachedSignature::from_bytes(&bytes[..])?;
            let _ = d.to_armored_bytes(Default::default());
            d.verify(&public, data)
        });
        no_panic(ctx, &format!("DetachedSignature::from_bytes -> verify (hostile signature value)"), &input, &r, t);
        // subkey as (wrong) verifier, and secret key as verifier
        let t = Instant::now();
        let r = guard(|| sig.verify(&public.public_subkeys[0], &data[..]));
        no_panic(ctx, &format!("Signature::verify with a subkey (hostile signature value)"), &input, &r, t);

        // E5 / E6 inline message
        if inline_packets.len() == 3 {
            if let Packet::Signature(orig) = &inline_packets[2] {
                let own = orig.signature().cloned().unwrap_or_else(|| value.clone());
                if let Some(tsig) = replace_value(orig, if *is_genuine { &own } else { value }) {
                    for prefixed in [false, true] {
                        let bytes = guard(|| {
                            let mut v = Vec::new();
                            if prefixed {
                                v.extend(Packet::from(tsig.clone()).to_bytes()?);
                                v.extend(inline_packets[1].to_bytes()?);
                            } else {
                                v.extend(inline_packets[0].to_bytes()?);
                                v.extend(inline_packets[1].to_bytes()?);
                                v.extend(Packet::from(tsig.clone()).to_bytes()?);
                            }
                            Ok::<_, pgp::errors::Error>(v)
                        });
                        let Ok(Ok(bytes)) = bytes else { continue };
                        let t = Instant::now();
                        let r = guard(|| {
                            let mut m = Message::from_bytes(&bytes[..])?;
                            let mut out = Vec::new();
                            m.read_to_end(&mut out)?;
                            let a = m.verify(&public).map(|_| ());
                            let _ = m.verify_nested(&[&public]);
                            let _ = m.verify_nested(&[&public, &public.public_subkeys[0]]);
                            a
                        });
                        no_panic(ctx, "Message::verify / verify_nested (hostile signature value)", &format!("key={} value={} [{what}] msg={}", o.name, show_value(value), hx(&bytes)), &r, t);
                        if *is_genuine && !prefixed {
                            ctx.oracle("genuine_signature_verifies", "Message::verify", &input, matches!(r, Ok(Ok(()))), &format!("{r:?}"));
                        }
                        let t = Instant::now();
                        let r = guard(|| {
                            let mut m = Message::from_bytes(&bytes[..])?;
                            m.verify_read(&public).map(|_| ())
                        });
                        no_panic(ctx, &format!("Message::verify_read (hostile signature value)"), &format!("key={} value={} [{what}] msg={}", o.name, show_value(value), hx(&bytes)), &r, t);
                    }
                }
            }
        }
        // E7 cleartext
        if let Ok(Ok(c)) = &cleartext {
            if let Some(tsig) = c.signatures().first().and_then(|s| {
                let own = s.signature().cloned()?;
                replace_value(s, if *is_genuine { &own } else { value })
            }) {
                let t = Instant::now();
                let r = guard(|| {
                    let forged = CleartextSignedMessage::new_many("hello\n- dash\nworld  \n", |_| Ok(vec![tsig.clone()]))?;
                    let a = forged.verify(&public).map(|_| ());
                    let _ = forged.verify_many(|_, s, b| s.verify(&public, b));
                    // and from the armored text
                    let text = forged.to_armored_string(Default::default())?;
                    let (parsed, _) = CleartextSignedMessage::from_string(&text)?;
                    let _ = parsed.verify(&public);
                    a
                });
                no_panic(ctx, &format!("CleartextSignedMessage::verify / verify_many (hostile signature value)"), &input, &r, t);
                if *is_genuine {
                    ctx.oracle("genuine_signature_verifies", "CleartextSignedMessage::verify", &input, matches!(r, Ok(Ok(()))), &format!("{r:?}"));
                }
            }
        }
    }

    // ---- E8: certificates whose self-signatures / bindings / back-signatures carry the value --------
    bindings(ctx, o, &public, unit);
}

fn bindings(ctx: &mut Ctx, o: &Owned, public: &SignedPublicKey, unit: usize) {
    let site = "verify_bindings (hostile signature value)".to_string();
    // sanity: the untouched certificate verifies
    let r0 = guard(|| public.verify_bindings());
    ctx.oracle("genuine_signature_verifies", "SignedPublicKey::verify_bindings", o.name, matches!(r0, Ok(Ok(()))), &format!("{r0:?}"));

    let check = |ctx: &mut Ctx, what: &str, cert: &SignedPublicKey, secret: Option<&SignedSecretKey>| {
        let bytes = cert.to_bytes().unwrap_or_default();
        let input = format!("key={} [{what}] certificate={}", o.name, hx(&bytes));
        let t = Instant::now();
        let r = guard(|| cert.verify_bindings());
        no_panic(ctx, &format!("SignedPublicKey::{site}"), &input, &r, t);
        ctx.stat(&format!("sigs:{}:verify_bindings:{}", o.name, super::cls(&r)));
        // as a hostile certificate on the wire
        let t = Instant::now();
        let r = guard(|| {
            let k = SignedPublicKey::from_bytes(&bytes[..])?;
            let a = k.verify_bindings();
            let armored = k.to_armored_bytes(Default::default())?;
            let (k2, _) = SignedPublicKey::from_armor_single(&armored[..])?;
            let _ = k2.verify_bindings();
            a
        });
        no_panic(ctx, &format!("SignedPublicKey::from_bytes -> {site}"), &input, &r, t);
        if let Some(s) = secret {
            let t = Instant::now();
            let r = guard(|| s.verify_bindings());
            no_panic(ctx, &format!("SignedSecretKey::{site}"), &input, &r, t);
        }
    };

    // (1) user id certification
    if let Some(orig) = public.details.users.first().and_then(|u| u.signatures.first()) {
        if let Some(genuine) = orig.signature().cloned() {
            for (what, value, _) in tampered(&genuine, unit) {
                let Some(tsig) = replace_value(orig, &value) else { continue };
                let mut cert = public.clone();
                cert.details.users[0].signatures[0] = tsig.clone();
                let mut sec = o.key.clone();
                sec.details.users[0].signatures[0] = tsig.clone();
                check(ctx, &format!("user id certification: {what}"), &cert, Some(&sec));
                // the certification verified on its own
                let t = Instant::now();
                let r = guard(|| tsig.verify_certification(&public.primary_key, pgp::types::Tag::UserId, &public.details.users[0].id));
                no_panic(ctx, "Signature::verify_certification (hostile signature value)", &format!("key={} [{what}]", o.name), &r, t);
            }
        }
    }
    // (2) subkey binding, (3) embedded back-signature
    if let Some(orig) = public.public_subkeys.first().and_then(|s| s.signatures.first()) {
        if let Some(genuine) = orig.signature().cloned() {
            for (what, value, _) in tampered(&genuine, unit) {
                let Some(tsig) = replace_value(orig, &value) else { continue };
                let mut cert = public.clone();
                cert.public_subkeys[0].signatures[0] = tsig.clone();
                let mut sec = o.key.clone();
                sec.secret_subkeys[0].signatures[0] = tsig;
                check(ctx, &format!("subkey binding: {what}"), &cert, Some(&sec));
            }
        }
        // the back-signature: found in the hashed or the unhashed area; the owner of the certificate
        // re-issues the binding around the hostile back-signature
        if let (Some(back), Some(cfg)) = (orig.embedded_signature(), orig.config()) {
            if let Some(genuine) = back.signature().cloned() {
                for (what, value, _) in tampered(&genuine, unit) {
                    let Some(tback) = replace_value(back, &value) else { continue };
                    let mut cfg2 = cfg.clone();
                    let mut swapped = false;
                    for area in [&mut cfg2.hashed_subpackets, &mut cfg2.unhashed_subpackets] {
                        for sp in area.iter_mut() {
                            if matches!(sp.data, SubpacketData::EmbeddedSignature(_)) {
                                if let Ok(n) = Subpacket::regular(SubpacketData::EmbeddedSignature(Box::new(tback.clone()))) {
                                    *sp = n;
                                    swapped = true;
                                }
                            }
                        }
                    }
                    if !swapped {
                        continue;
                    }
                    let rebound = guard(|| {
                        cfg2.sign_subkey_binding(&o.key.primary_key, o.key.primary_key.public_key(), &Password::empty(), &public.public_subkeys[0].key)
                    });
                    let Ok(Ok(rebound)) = rebound else {
                        ctx.stat("sigs:cannot-reissue-binding");
                        continue;
                    };
                    let mut cert = public.clone();
                    cert.public_subkeys[0].signatures[0] = rebound.clone();
                    let mut sec = o.key.clone();
                    sec.secret_subkeys[0].signatures[0] = rebound;
                    check(ctx, &format!("back-signature: {what}"), &cert, Some(&sec));
                    let t = Instant::now();
                    let r = guard(|| tback.verify_primary_key_binding(&public.public_subkeys[0].key, &public.primary_key));
                    no_panic(ctx, "Signature::verify_primary_key_binding (hostile signature value)", &format!("key={} [{what}]", o.name), &r, t);
                }
            } else {
                ctx.stat("sigs:no-backsig");
            }
        } else {
            ctx.stat("sigs:no-backsig");
        }
    }
    let _ = (PublicParams::Unknown { data: Default::default() }, std::io::empty().bytes().count());
}

pub fn run(ctx: &mut Ctx) {
    let keys = owned_keys(ctx, ctx.seed);
    let mut rng = ChaCha8Rng::seed_from_u64(ctx.seed ^ 0xC04F);
    for o in &keys {
        let t = Instant::now();
        one_key(ctx, o, &mut rng);
        ctx.stat_n(&format!("sigs:ms:{}", o.name), t.elapsed().as_millis() as u64);
    }
}
