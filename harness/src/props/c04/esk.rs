//! Part B — valid ESK framing around attacker-chosen session-key plaintext, for a recipient key
//! of each public-key algorithm and for a password the recipient holds.

use std::io::Read;
use std::time::Instant;

use pgp::composed::{Message, PlainSessionKey, RawSessionKey};
use pgp::crypto::aead::{AeadAlgorithm, ChunkSize};
use pgp::crypto::hash::HashAlgorithm;
use pgp::crypto::sym::SymmetricKeyAlgorithm;
use pgp::packet::{Packet, PacketHeader, PublicKeyEncryptedSessionKey, SymEncryptedProtectedData, SymKeyEncryptedSessionKey};
use pgp::ser::Serialize;
use pgp::types::{DecryptionKey, EncryptionKey, EskType, Password, PkeskBytes, StringToKey, Tag};
use rand::{Rng, SeedableRng};
use rand_chacha::ChaCha8Rng;

use super::{guard, no_panic, Evil, Ring};
use crate::ctx::{hx, Ctx};
use crate::gen;

fn show_sk(r: &Result<pgp::errors::Result<PlainSessionKey>, String>) -> String {
    match r {
        Ok(Ok(PlainSessionKey::V3_4 { sym_alg, key })) => format!("ok:v34:{}:{}", u8::from(*sym_alg), hx(key.as_ref())),
        Ok(Ok(PlainSessionKey::V5 { key })) => format!("ok:v5:{}", hx(key.as_ref())),
        Ok(Ok(PlainSessionKey::V6 { key })) => format!("ok:v6:{}", hx(key.as_ref())),
        Ok(Err(_)) => "err".into(),
        Err(_) => "panic".into(),
    }
}

fn key_size(alg: u8) -> usize {
    SymmetricKeyAlgorithm::from(alg).key_size()
}

/// attacker-chosen "decrypted session key": well-formed when the length allows, else arbitrary
fn plain_for(rng: &mut ChaCha8Rng, typ: EskType, len: usize, alg: u8, well_formed: bool) -> Vec<u8> {
    let mut p = gen::random_bytes(rng, len);
    if len == 0 {
        return p;
    }
    match typ {
        EskType::V3_4 => {
            p[0] = alg;
            if well_formed && len >= 3 {
                let sum: u32 = p[1..len - 2].iter().map(|b| *b as u32).sum();
                p[len - 2] = (sum >> 8) as u8;
                p[len - 1] = sum as u8;
            }
        }
        EskType::V6 => {
            if well_formed && len >= 2 {
                let sum: u32 = p[..len - 2].iter().map(|b| *b as u32).sum();
                p[len - 2] = (sum >> 8) as u8;
                p[len - 1] = sum as u8;
            }
        }
    }
    p
}

fn algs(ctx: &Ctx, rng: &mut ChaCha8Rng) -> Vec<u8> {
    if ctx.thorough() {
        return (0..=255).collect();
    }
    let mut v: Vec<u8> = vec![0, 1, 2, 3, 4, 5, 6, 7, 8, 9, 10, 11, 12, 13, 14, 100, 110, 111, 254, 255];
    for _ in 0..3 {
        v.push(rng.gen());
    }
    v.sort_unstable();
    v.dedup();
    v
}

fn pkesk_sweep(ctx: &mut Ctx, ring: &Ring, rng: &mut ChaCha8Rng) {
    let site = "types/params/plain_secret.rs PlainSecretParams::decrypt (SecretSubkey::decrypt)";
    let algs = algs(ctx, rng);
    for (name, sk) in &ring.keys {
        let sub = &sk.secret_subkeys[0];
        let pk = sub.public_key();
        let is_rsa = *name == "rsa";
        let is_ecdh = name.starts_with("ecdh");
        for typ in [EskType::V3_4, EskType::V6] {
            let tnum = if matches!(typ, EskType::V6) { 6 } else { 3 };
            for len in 0..=40usize {
                for &alg in &algs {
                    // RSA decryption is the expensive step: in the quick tier use every algorithm octet
                    // only where it can matter (length = key_size + 3, or short)
                    if is_rsa && !ctx.thorough() && len > 3 && len != key_size(alg) + 3 && alg > 2 {
                        continue;
                    }
                    if matches!(typ, EskType::V6) && alg > 1 && !(len <= 3 && alg == 9) {
                        continue; // the octet has no meaning in a v6 plaintext
                    }
                    for well_formed in [true, false] {
                        if !well_formed && (len < 3 || alg % 5 != 0) {
                            continue;
                        }
                        let plain = plain_for(rng, typ, len, alg, well_formed);
                        let vals = match guard(|| pk.encrypt(&mut *rng, &plain, typ)) {
                            Ok(Ok(v)) => v,
                            Ok(Err(_)) => {
                                ctx.stat(&format!("esk:{name}:sender-cannot-produce"));
                                continue;
                            }
                            Err(p) => {
                                ctx.oracle("no_panic", "packet/key/public.rs encrypt", &format!("key={name} typ={tnum} plain={}", hx(&plain)), false, &p);
                                continue;
                            }
                        };
                        let t = Instant::now();
                        let r = guard(|| sub.decrypt(&Password::empty(), &vals, typ).and_then(|x| x));
                        let input = format!("key={name} typ={tnum} plain={}", hx(&plain));
                        no_panic(ctx, site, &input, &r, t);
                        ctx.stat(&format!("esk:{name}:v{tnum}:{}", super::cls(&r)));
                        let ans = show_sk(&r);
                        if is_rsa {
                            ctx.case(format!("pkesk_decode typ={tnum} dk={}", hx(&plain)), ans);
                        } else if is_ecdh {
                            ctx.case(format!("pkesk_decode typ={tnum} via=ecdh dk={}", hx(&plain)), ans);
                        } else {
                            // X25519 / X448: a v3 plaintext is (algorithm octet in the clear, wrapped key)
                            let (v6, sym, key) = match typ {
                                EskType::V3_4 => (0, plain[0].to_string(), plain[1..].to_vec()),
                                EskType::V6 => (1, "-".to_string(), plain.clone()),
                            };
                            if key.is_empty() {
                                ctx.stat("esk:x-empty-key");
                                continue;
                            }
                            ctx.case(format!("pkesk_x v6={v6} sym={sym} key={}", hx(&key)), ans);
                        }
                    }
                }
            }
        }
        // typ mismatch between sender and recipient (v3 framing read as v6 and vice versa)
        for (enc_typ, dec_typ) in [(EskType::V3_4, EskType::V6), (EskType::V6, EskType::V3_4)] {
            for len in [0usize, 1, 2, 3, 16, 17, 19, 24, 35] {
                let plain = plain_for(rng, enc_typ, len, 7, true);
                let Ok(Ok(vals)) = guard(|| pk.encrypt(&mut *rng, &plain, enc_typ)) else { continue };
                let t = Instant::now();
                let r = guard(|| sub.decrypt(&Password::empty(), &vals, dec_typ).and_then(|x| x));
                no_panic(ctx, site, &format!("key={name} enc={enc_typ:?} dec={dec_typ:?} plain={}", hx(&plain)), &r, t);
            }
        }
        // wrapped keys shorter than the AES-KW integrity block, garbage, oversize
        let p19 = plain_for(rng, EskType::V3_4, 19, 7, true);
        let Ok(Ok(good)) = guard(|| pk.encrypt(&mut *rng, &p19, EskType::V3_4)) else { continue };
        let good = match (&good, guard(|| pk.encrypt(&mut *rng, &[7u8; 17], EskType::V3_4))) {
            (_, Ok(Ok(g))) if !is_rsa && !is_ecdh => g,
            _ => good,
        };
        for n in (0..=24usize).chain([40, 255]) {
            let short = bytes::Bytes::from(gen::random_bytes(rng, n));
            let vals = match &good {
                PkeskBytes::Ecdh { public_point, .. } => PkeskBytes::Ecdh { public_point: public_point.clone(), encrypted_session_key: short.clone() },
                PkeskBytes::X25519 { ephemeral, sym_alg, .. } => PkeskBytes::X25519 { ephemeral: *ephemeral, session_key: short.clone(), sym_alg: *sym_alg },
                PkeskBytes::X448 { ephemeral, sym_alg, .. } => PkeskBytes::X448 { ephemeral: *ephemeral, session_key: short.clone(), sym_alg: *sym_alg },
                _ => continue,
            };
            let t = Instant::now();
            let r = guard(|| sub.decrypt(&Password::empty(), &vals, EskType::V3_4).and_then(|x| x));
            let site2 = "crypto/aes_kw.rs unwrap (through SecretSubkey::decrypt of a PKESK)";
            no_panic(ctx, site2, &format!("key={name} wrapped={}", hx(&short)), &r, t);
            ctx.stat(&format!("esk:{name}:short-wrapped:{}", super::cls(&r)));
        }
    }
}

/// a whole message: PKESK for the recipient around the attacker's plaintext, then a SEIPD container
fn pkesk_messages(ctx: &mut Ctx, ring: &Ring, rng: &mut ChaCha8Rng) {
    let site = "Message::from_bytes -> decrypt (PKESK + SEIPD)";
    for (name, sk) in &ring.keys {
        let pk = sk.secret_subkeys[0].public_key();
        for v6 in [false, true] {
            for len in 0..=40usize {
                for alg in [0u8, 1, 2, 3, 4, 7, 8, 9, 10, 11, 13, 110, 255] {
                    if v6 && alg != 9 {
                        continue;
                    }
                    let typ = if v6 { EskType::V6 } else { EskType::V3_4 };
                    if !ctx.thorough() && !v6 && len != key_size(alg) + 3 && len != key_size(alg) + 1 && len > 2 && alg != 7 {
                        continue;
                    }
                    let plain = plain_for(rng, typ, len, alg, true);
                    let evil = Evil { inner: &pk, plain: plain.clone() };
                    let dummy = RawSessionKey::from(vec![0u8; 16]);
                    let pkesk = guard(|| {
                        if v6 {
                            PublicKeyEncryptedSessionKey::from_session_key_v6(&mut *rng, &dummy, &evil)
                        } else {
                            PublicKeyEncryptedSessionKey::from_session_key_v3(&mut *rng, &dummy, SymmetricKeyAlgorithm::AES128, &evil)
                        }
                    });
                    let Ok(Ok(pkesk)) = pkesk else {
                        ctx.stat(&format!("msg:{name}:sender-cannot-produce"));
                        continue;
                    };
                    let Ok(mut msg) = Packet::from(pkesk).to_bytes() else { continue };
                    // the container: random bytes in an SEIPD v1 / v2 packet (attacker does not need the key)
                    let mut body = if v6 { vec![2u8, 9, 2, 0] } else { vec![1u8] };
                    if v6 {
                        body.extend(gen::random_bytes(rng, 32));
                    }
                    body.extend(gen::random_bytes(rng, 70));
                    msg.push(0xC0 | 18);
                    msg.push(body.len() as u8);
                    msg.extend(&body);
                    let t = Instant::now();
                    let r = guard(|| {
                        let m = Message::from_bytes(&msg[..])?;
                        let mut d = m.decrypt(&Password::empty(), sk)?;
                        let mut out = Vec::new();
                        d.read_to_end(&mut out)?;
                        Ok::<_, pgp::errors::Error>(())
                    });
                    no_panic(ctx, site, &format!("key={name} msg={}", hx(&msg)), &r, t);
                    ctx.stat(&format!("msg:{name}:v{}:{}", if v6 { 6 } else { 3 }, super::cls(&r)));
                }
            }
        }
    }
}

fn skesk_sweep(ctx: &mut Ctx, rng: &mut ChaCha8Rng) {
    let pw = Password::from("hunter2");
    let algs = algs(ctx, rng);
    // ---- v4: CFB under the S2K key, attacker-chosen plaintext ------------------------------------
    let site4 = "packet/sym_key_encrypted_session_key.rs SymKeyEncryptedSessionKey::decrypt (V4)";
    for sym in [SymmetricKeyAlgorithm::AES128, SymmetricKeyAlgorithm::AES256, SymmetricKeyAlgorithm::CAST5] {
        let s2k = StringToKey::Salted { hash_alg: HashAlgorithm::Sha256, salt: rng.gen() };
        let key = s2k.derive_key(&pw.read(), sym.key_size()).expect("derive");
        for len in 0..=40usize {
            for &alg in &algs {
                if len > 1 && len != key_size(alg) + 1 && alg % 4 != 3 {
                    continue;
                }
                let mut plain = gen::random_bytes(rng, len);
                if len > 0 {
                    plain[0] = alg;
                }
                let mut enc = plain.clone();
                let iv = vec![0u8; sym.block_size()];
                if sym.encrypt_with_iv_regular(key.as_ref(), &iv, &mut enc).is_err() {
                    continue;
                }
                let body_len = 2 + s2k.write_len() + enc.len();
                let skesk = SymKeyEncryptedSessionKey::V4 {
                    packet_header: PacketHeader::new_fixed(Tag::SymKeyEncryptedSessionKey, body_len as u32),
                    sym_algorithm: sym,
                    s2k: s2k.clone(),
                    encrypted_key: enc.clone().into(),
                };
                // (a) the public packet-level API
                let t = Instant::now();
                let r = guard(|| skesk.decrypt(key.as_ref()));
                let input = format!("sym={} s2k=salted-sha256 password=hunter2 plain={}", u8::from(sym), hx(&plain));
                no_panic(ctx, site4, &input, &r, t);
                ctx.case(format!("skesk4 dk={}", hx(&plain)), show_sk(&r));
                // (b) the message-level path
                let Ok(mut msg) = Packet::from(skesk).to_bytes() else { continue };
                let body = [&[1u8][..], &gen::random_bytes(rng, 60)].concat();
                msg.push(0xC0 | 18);
                msg.push(body.len() as u8);
                msg.extend(&body);
                let t = Instant::now();
                let r = guard(|| {
                    let m = Message::from_bytes(&msg[..])?;
                    let mut d = m.decrypt_with_password(&pw)?;
                    let mut out = Vec::new();
                    d.read_to_end(&mut out)?;
                    Ok::<_, pgp::errors::Error>(())
                });
                no_panic(ctx, "Message::from_bytes -> decrypt_with_password (SKESK v4 + SEIPD v1)", &format!("password=hunter2 msg={}", hx(&msg)), &r, t);
                ctx.stat(&format!("skesk4:msg:{}", super::cls(&r)));
            }
        }
    }
    // ---- v6: AEAD, attacker-chosen session key of any length ----------------------------------------
    let site6 = "packet/sym_key_encrypted_session_key.rs SymKeyEncryptedSessionKey::decrypt (V6)";
    for (sym, aead) in [
        (SymmetricKeyAlgorithm::AES128, AeadAlgorithm::Ocb),
        (SymmetricKeyAlgorithm::AES256, AeadAlgorithm::Gcm),
        (SymmetricKeyAlgorithm::AES192, AeadAlgorithm::Eax),
    ] {
        for len in 0..=40usize {
            let plain = gen::random_bytes(rng, len);
            let s2k = StringToKey::Salted { hash_alg: HashAlgorithm::Sha256, salt: rng.gen() };
            let Ok(Ok(skesk)) = guard(|| SymKeyEncryptedSessionKey::encrypt_v6(&mut *rng, &pw, &RawSessionKey::from(plain.clone()), s2k.clone(), sym, aead)) else {
                ctx.stat("skesk6:sender-cannot-produce");
                continue;
            };
            let key = s2k.derive_key(&pw.read(), sym.key_size()).expect("derive");
            let t = Instant::now();
            let r = guard(|| skesk.decrypt(key.as_ref()));
            no_panic(ctx, site6, &format!("sym={} aead={} plain={}", u8::from(sym), u8::from(aead), hx(&plain)), &r, t);
            ctx.case(format!("skesk6 sym={} aead={} opened={}", u8::from(sym), u8::from(aead), hx(&plain)), show_sk(&r));
            // wrong key: the primitive rejects
            let r = guard(|| skesk.decrypt(&vec![1u8; sym.key_size()]));
            ctx.case(format!("skesk6 sym={} aead={} opened=x", u8::from(sym), u8::from(aead)), show_sk(&r));
            // message level: SKESK v6 + SEIPD v2 with every combination of (container cipher, key length)
            let Ok(skesk_bytes) = Packet::from(skesk).to_bytes() else { continue };
            for csym in [7u8, 8, 9, 1, 0, 200] {
                let mut msg = skesk_bytes.clone();
                let mut body = vec![2u8, csym, 2, 0];
                body.extend(gen::random_bytes(rng, 32 + 50));
                msg.push(0xC0 | 18);
                msg.push(body.len() as u8);
                msg.extend(&body);
                let t = Instant::now();
                let r = guard(|| {
                    let m = Message::from_bytes(&msg[..])?;
                    let mut d = m.decrypt_with_password(&pw)?;
                    let mut out = Vec::new();
                    d.read_to_end(&mut out)?;
                    Ok::<_, pgp::errors::Error>(())
                });
                no_panic(ctx, "Message::from_bytes -> decrypt_with_password (SKESK v6 + SEIPD v2)", &format!("password=hunter2 msg={}", hx(&msg)), &r, t);
                ctx.stat(&format!("skesk6:msg:{}", super::cls(&r)));
            }
        }
    }
}

/// SEIPDv2 admission with an explicit session key: every cipher / AEAD / chunk-size octet × key length
fn seipd2_admit(ctx: &mut Ctx, rng: &mut ChaCha8Rng) {
    let site = "reader/sym_encrypted_protected.rs SymEncryptedProtectedDataReader::decrypt (SEIPD v2)";
    let all: Vec<u8> = (0..=255).collect();
    let few = |v: &[u8]| v.to_vec();
    let syms = if ctx.thorough() { all.clone() } else { few(&[0, 1, 2, 3, 4, 7, 8, 9, 10, 11, 12, 13, 14, 110, 111, 255]) };
    let aeads = if ctx.thorough() { all.clone() } else { few(&[0, 1, 2, 3, 4, 100, 110, 111, 255]) };
    let css = if ctx.thorough() { all.clone() } else { few(&[0, 1, 6, 15, 16, 17, 255]) };
    let mut combos: Vec<(u8, u8, u8)> = Vec::new();
    for &s in &syms {
        for &a in &aeads {
            combos.push((s, a, 0));
        }
    }
    for &c in &css {
        combos.push((9, 2, c));
        combos.push((7, 0, c));
    }
    for (sym, aead, cs) in combos {
        for klen in [0usize, 15, 16, 17, 24, 32, 33, 40] {
            let key = gen::random_bytes(rng, klen);
            // an honest container exists only for the ciphers the sender side supports with a matching key
            let honest = ChunkSize::try_from(cs).ok().and_then(|c| {
                guard(|| SymEncryptedProtectedData::encrypt_seipdv2(&mut *rng, sym.into(), aead.into(), c, &key, b"\xcb\x06b\x00\x00\x00\x00\x00")).ok()?.ok()
            });
            let msg = match &honest {
                Some(p) => Packet::from(p.clone()).to_bytes().expect("ser"),
                None => {
                    let mut body = vec![2u8, sym, aead, cs];
                    body.extend(gen::random_bytes(rng, 32 + 40));
                    let mut m = vec![0xC0 | 18, body.len() as u8];
                    m.extend(&body);
                    m
                }
            };
            let t = Instant::now();
            let r = guard(|| {
                let m = Message::from_bytes(&msg[..])?;
                let mut d = m.decrypt_with_session_key(PlainSessionKey::V6 { key: RawSessionKey::from(key.clone()) })?;
                let mut out = Vec::new();
                d.read_to_end(&mut out)?;
                Ok::<_, pgp::errors::Error>(())
            });
            no_panic(ctx, site, &format!("key={} msg={}", hx(&key), hx(&msg)), &r, t);
            ctx.case(
                format!("seipd2_open sym={sym} aead={aead} cs={cs} keylen={klen} opened={}", if honest.is_some() { "-" } else { "x" }),
                super::cls(&r).to_string(),
            );
        }
    }
}

/// hostile ECDH keys: the two KDF parameter octets (hash, key-wrap cipher) of a recipient's own ECDH
/// subkey replaced by every pair of octets — a digest shorter than the cipher's key, unknown ids,
/// ciphers that are not AES — and the key then USED: decrypt a PKESK, encrypt to it
fn ecdh_kdf_param_sweep(ctx: &mut Ctx, ring: &Ring, rng: &mut ChaCha8Rng) {
    let hashes: Vec<u8> = if ctx.thorough() { (0u8..=16).chain([99, 110, 255]).collect() } else { vec![0, 1, 2, 3, 8, 9, 10, 11, 12, 14, 99] };
    let syms: Vec<u8> = if ctx.thorough() { (0u8..=14).chain([99, 110, 255]).collect() } else { vec![0, 1, 2, 3, 4, 7, 8, 9, 10, 11, 13, 99] };
    for (name, sk) in &ring.keys {
        if !name.starts_with("ecdh") {
            continue;
        }
        let sub = &sk.secret_subkeys[0];
        let Ok(body) = sub.key.to_bytes() else { continue };
        // the KDF parameters field: 03 01 <hash> <sym>, the last field of the public part
        let pub_len = sub.key.public_key().to_bytes().map(|b| b.len()).unwrap_or(0);
        if pub_len < 4 || body[pub_len - 4] != 3 || body[pub_len - 3] != 1 {
            ctx.stat("ecdh_kdf:field_not_found");
            continue;
        }
        let plain = plain_for(rng, EskType::V3_4, 19, 7, true);
        let Ok(Ok(vals)) = guard(|| sub.public_key().encrypt(&mut *rng, &plain, EskType::V3_4)) else { continue };
        for &h in &hashes {
            for &c in &syms {
                let mut b = body.clone();
                b[pub_len - 2] = h;
                b[pub_len - 1] = c;
                let pkt = crate::wire::packet(7, &b);
                let parsed = guard(|| {
                    let mut src: &[u8] = &pkt;
                    match pgp::packet::PacketParser::new(&mut src).next() {
                        Some(Ok(Packet::SecretSubkey(k))) => Some(k),
                        _ => None,
                    }
                });
                let input = format!("key={name} kdf_hash={h} kdf_sym={c} packet={}", hx(&pkt));
                let k = match parsed {
                    Ok(Some(k)) => k,
                    Ok(None) => {
                        ctx.stat("ecdh_kdf:key_refused_at_parse");
                        continue;
                    }
                    Err(p) => {
                        ctx.oracle("no_panic", "PacketParser (secret subkey with hostile ECDH KDF parameters)", &input, false, &p);
                        continue;
                    }
                };
                let t = Instant::now();
                let r = guard(|| k.decrypt(&Password::empty(), &vals, EskType::V3_4).and_then(|x| x));
                no_panic(ctx, "SecretSubkey::decrypt with hostile ECDH KDF parameters (crypto/ecdh.rs)", &input, &r, t);
                let t = Instant::now();
                let r2 = guard(|| k.public_key().encrypt(&mut *rng, &plain, EskType::V3_4));
                no_panic(ctx, "PublicSubkey::encrypt with hostile ECDH KDF parameters (crypto/ecdh.rs)", &input, &r2, t);
                ctx.stat(&format!("ecdh_kdf:{}:{}", super::cls(&r), super::cls(&r2)));
            }
        }
    }
}

pub fn run(ctx: &mut Ctx, ring: &Ring) {
    let mut rng = ChaCha8Rng::seed_from_u64(ctx.seed ^ 0xC04B);
    ecdh_kdf_param_sweep(ctx, ring, &mut rng);
    pkesk_sweep(ctx, ring, &mut rng);
    pkesk_messages(ctx, ring, &mut rng);
    skesk_sweep(ctx, &mut rng);
    seipd2_admit(ctx, &mut rng);
    let _ = (ChunkSize::C64B, SymEncryptedProtectedData::encrypt_seipdv1::<ChaCha8Rng>);
}
