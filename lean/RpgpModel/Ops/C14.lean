import RpgpModel.Proto
import RpgpModel.Canon
import RpgpModel.Gen.Constants
namespace Rpgp.Ops.C14
open Rpgp

def handle (op : String) (a : Args) : Option String :=
  match op with
  | "canon_hasher" => do
    let cs ← a.list "chunks"
    pure (okBytes (hashedText cs))
  | "canon_reader" => do
    let d ← a.bytes "data"
    pure (okBytes (normalizedRead Gen.normalizedReaderWindow d))
  | "canon_replace" => do
    let d ← a.bytes "data"
    pure (okBytes (replaceNewlines CRLF d))
  | "crlf_accepts" => do
    let cs ← a.list "chunks"
    pure (okBool (crlfCheck cs))
  | _ => none

end Rpgp.Ops.C14
