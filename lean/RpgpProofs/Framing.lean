import RpgpModel.Framing
/-! Proofs about length codecs, headers, partial-body framing (C17, used by C01/C05). -/
namespace Rpgp

theorem toUInt8_toNat_of_lt (n : Nat) (h : n < 256) : n.toUInt8.toNat = n := by
  simp [Nat.toUInt8, UInt8.ofNat, UInt8.toNat]; omega

theorem beNat_four (a b c d : Byte) :
    beNat [a, b, c, d] = a.toNat * 16777216 + b.toNat * 65536 + c.toNat * 256 + d.toNat := by
  simp [beNat]; omega

theorem beNat_two (a b : Byte) : beNat [a, b] = a.toNat * 256 + b.toNat := by
  simp [beNat]

theorem be32_eq (n : Nat) : be32 n =
    [(n / 16777216 % 256).toUInt8, (n / 65536 % 256).toUInt8, (n / 256 % 256).toUInt8, (n % 256).toUInt8] := by
  simp [be32, beBytes]

theorem be16_eq (n : Nat) : be16 n = [(n / 256 % 256).toUInt8, (n % 256).toUInt8] := by
  simp [be16, beBytes]

theorem decodeNewLen_encodeNewLen (n : Nat) (h : n < 4294967296) (rest : Bytes) :
    decodeNewLen (encodeNewLen n ++ rest) = some (Len.fixed n, rest) := by
  unfold encodeNewLen
  simp only [Gen.wrNewOneOctetLimit, Gen.wrNewTwoOctetLimit]
  by_cases c1 : n < 192
  · simp only [c1, if_true]
    have h1 : n.toUInt8.toNat = n := toUInt8_toNat_of_lt n (by omega)
    simp [decodeNewLen, h1, Gen.rdOneOctetMax]; omega
  · simp only [c1, if_false]
    by_cases c2 : n < 8384
    · simp only [c2, if_true]
      have h1 : ((n - 192) / 256 + 192).toUInt8.toNat = (n - 192) / 256 + 192 := toUInt8_toNat_of_lt _ (by omega)
      have h2 : ((n - 192) % 256).toUInt8.toNat = (n - 192) % 256 := toUInt8_toNat_of_lt _ (by omega)
      simp only [List.cons_append, List.nil_append, decodeNewLen, h1, h2, Gen.rdOneOctetMax, Gen.rdTwoOctetMax,
        Gen.rdTwoOctetSub, Gen.rdTwoOctetShift, Gen.rdTwoOctetAdd]
      have h3 : ¬ ((n - 192) / 256 + 192 ≤ 191) := by omega
      have h4 : (n - 192) / 256 + 192 ≤ 223 := by omega
      simp only [h3, h4, if_true, if_false]
      have harith : ((n - 192) / 256 + 192 - 192) * 2 ^ 8 + 192 + (n - 192) % 256 = n := by
        have := Nat.div_add_mod (n - 192) 256
        have h8 : (2 : Nat) ^ 8 = 256 := by decide
        rw [h8]
        omega
      rw [harith]
    · simp only [c2, if_false]
      rw [be32_eq]
      have h1 : (n / 16777216 % 256).toUInt8.toNat = n / 16777216 % 256 := toUInt8_toNat_of_lt _ (by omega)
      have h2 : (n / 65536 % 256).toUInt8.toNat = n / 65536 % 256 := toUInt8_toNat_of_lt _ (by omega)
      have h3 : (n / 256 % 256).toUInt8.toNat = n / 256 % 256 := toUInt8_toNat_of_lt _ (by omega)
      have h4 : (n % 256).toUInt8.toNat = n % 256 := toUInt8_toNat_of_lt _ (by omega)
      simp [decodeNewLen, Gen.rdOneOctetMax, Gen.rdTwoOctetMax, Gen.rdPartialMax, beNat_four, h1, h2, h3, h4]
      omega

theorem encodeNewLenHdr_eq (n : Nat) : encodeNewLenHdr n = encodeNewLen n := by
  simp [encodeNewLenHdr, encodeNewLen, Gen.whNewOneOctetLimit, Gen.whNewTwoOctetLimit,
    Gen.wrNewOneOctetLimit, Gen.wrNewTwoOctetLimit]

theorem decodeNewLen_partialOctet (k : Nat) (hk : k ≤ 30) (r : Bytes) :
    decodeNewLen (partialOctet k :: r) = some (Len.part (2 ^ k), r) := by
  have h1 : (224 + k).toUInt8.toNat = 224 + k := toUInt8_toNat_of_lt _ (by omega)
  have h2 : ¬ (224 + k ≤ 191) := by omega
  have h3 : ¬ (224 + k ≤ 223) := by omega
  have h4 : 224 + k ≤ 254 := by omega
  have h5 : (224 + k) % 32 = k := by omega
  have h6 : (224 + k) % 256 = 224 + k := by omega
  simp [decodeNewLen, partialOctet, Gen.wrPartialBase, Gen.rdOneOctetMax, Gen.rdTwoOctetMax, Gen.rdPartialMax,
    Gen.rdPartialMask, h2, h3, h4, h5, h6]

/-- the partial-length octets decode to powers of two between 2^0 and 2^30 only -/
theorem decodeNewLen_partial_range (o : Byte) (r : Bytes) (n : Nat) (r' : Bytes)
    (h : decodeNewLen (o :: r) = some (Len.part n, r')) : ∃ k, k ≤ 30 ∧ n = 2 ^ k ∧ r' = r := by
  have hlt := o.toNat_lt
  unfold decodeNewLen at h
  simp only [Gen.rdOneOctetMax, Gen.rdTwoOctetMax, Gen.rdPartialMax, Gen.rdPartialMask] at h
  by_cases c1 : o.toNat ≤ 191
  · simp [c1] at h
  · by_cases c2 : o.toNat ≤ 223
    · simp only [c1, c2, if_true, if_false] at h
      cases r <;> simp at h
    · by_cases c3 : o.toNat ≤ 254
      · simp only [c1, c2, c3, if_true, if_false, Option.some.injEq, Prod.mk.injEq, Len.part.injEq] at h
        exact ⟨o.toNat % 32, by omega, h.1.symm, h.2.symm⟩
      · simp only [c1, c2, c3, if_false] at h
        split at h <;> simp at h

theorem frameSegs_length (segs : List Nat) : ∀ (body t : Bytes),
    frameSegs segs body = some t → segs.length + 1 ≤ t.length := by
  induction segs with
  | nil =>
    intro body t h
    simp [frameSegs] at h
    subst h
    simp [encodeNewLen]
    split <;> (try split) <;> simp <;> omega
  | cons k ks ih =>
    intro body t h
    simp only [frameSegs] at h
    split at h
    · simp at h
    · simp only [Option.map_eq_some_iff] at h
      obtain ⟨t', ht', rfl⟩ := h
      have := ih _ _ ht'
      simp only [List.length_cons, List.length_append]
      omega

/-- the reader recovers the body from *every* segmentation into partial chunks -/
theorem deframeCont_frameSegs (segs : List Nat) : ∀ (body t rest : Bytes) (fuel : Nat),
    frameSegs segs body = some t → (∀ k ∈ segs, k ≤ 30) → body.length < 4294967296 →
    segs.length + 1 ≤ fuel →
    deframeCont fuel (t ++ rest) = .ok (body, rest) := by
  induction segs with
  | nil =>
    intro body t rest fuel h _ hb hf
    simp [frameSegs] at h
    subst h
    obtain ⟨f, rfl⟩ : ∃ f, fuel = f + 1 := ⟨fuel - 1, by simp at hf; omega⟩
    simp [deframeCont, List.append_assoc, decodeNewLen_encodeNewLen _ hb]
  | cons k ks ih =>
    intro body t rest fuel h hk hb hf
    obtain ⟨f, rfl⟩ : ∃ f, fuel = f + 1 := ⟨fuel - 1, by simp at hf; omega⟩
    simp only [frameSegs] at h
    split at h
    · simp at h
    · rename_i hge
      simp only [Option.map_eq_some_iff] at h
      obtain ⟨t', ht', rfl⟩ := h
      have hk' : k ≤ 30 := hk k (by simp)
      have hlen : (body.take (2 ^ k)).length = 2 ^ k := by simp; omega
      have ih' := ih (body.drop (2 ^ k)) t' rest f ht' (fun x hx => hk x (by simp [hx]))
        (by simp; omega) (by simp at hf; omega)
      simp only [List.cons_append, deframeCont, decodeNewLen_partialOctet k hk']
      have hd : List.drop (2 ^ k) (List.take (2 ^ k) body ++ t' ++ rest) = t' ++ rest := by
        rw [List.append_assoc, List.drop_left' hlen]
      have ht : List.take (2 ^ k) (List.take (2 ^ k) body ++ t' ++ rest) = List.take (2 ^ k) body := by
        rw [List.append_assoc, List.take_left' hlen]
      have hl : ¬ ((List.take (2 ^ k) body ++ t' ++ rest).length < 2 ^ k) := by
        simp; omega
      rw [if_neg hl, hd, ih', ht]
      simp

theorem parseHeader_new (tag : Nat) (ht : tag < 64) (t : Bytes) (l : Len) (r : Bytes)
    (h : decodeNewLen t = some (l, r)) :
    parseHeader ((192 + tag).toUInt8 :: t) = .ok ({ newFormat := true, tag := tag, len := l }, r) := by
  have h1 : (192 + tag).toUInt8.toNat = 192 + tag := toUInt8_toNat_of_lt _ (by omega)
  have h2 : (192 + tag) / 64 = 3 := by omega
  have h3 : (192 + tag) % 64 = tag := by omega
  simp only [parseHeader, h1, h2, h3, if_true, h]

/-- new-format header written by `write_header` parses back -/
theorem parseHeader_writeHeader_new (tag n : Nat) (ht : tag < 64) (hn : n < 4294967296) (rest : Bytes) :
    parseHeader (writeHeader true tag n ++ rest) =
      .ok ({ newFormat := true, tag := tag, len := .fixed n }, rest) := by
  simp only [writeHeader, if_true, List.cons_append, encodeNewLenHdr_eq]
  exact parseHeader_new tag ht _ _ _ (decodeNewLen_encodeNewLen n hn rest)

theorem parseHeader_old0 (x a : Byte) (tag : Nat) (ht : tag < 16) (hx : x.toNat = 128 + tag * 4) (r : Bytes) :
    parseHeader (x :: a :: r) = .ok ({ newFormat := false, tag := tag, len := .fixed a.toNat }, r) := by
  have h2 : (128 + tag * 4) / 64 = 2 := by omega
  have h4 : (128 + tag * 4) % 4 = 0 := by omega
  have h5 : (128 + tag * 4) / 4 % 16 = tag := by omega
  simp [parseHeader, hx, h2, h4, h5]

theorem parseHeader_old1 (x a b : Byte) (tag : Nat) (ht : tag < 16) (hx : x.toNat = 128 + tag * 4 + 1) (r : Bytes) :
    parseHeader (x :: a :: b :: r) = .ok ({ newFormat := false, tag := tag, len := .fixed (beNat [a, b]) }, r) := by
  have h2 : (128 + tag * 4 + 1) / 64 = 2 := by omega
  have h4 : (128 + tag * 4 + 1) % 4 = 1 := by omega
  have h5 : (128 + tag * 4 + 1) / 4 % 16 = tag := by omega
  simp [parseHeader, hx, h2, h4, h5]

theorem parseHeader_old2 (x a b c d : Byte) (tag : Nat) (ht : tag < 16) (hx : x.toNat = 128 + tag * 4 + 2) (r : Bytes) :
    parseHeader (x :: a :: b :: c :: d :: r) =
      .ok ({ newFormat := false, tag := tag, len := .fixed (beNat [a, b, c, d]) }, r) := by
  have h2 : (128 + tag * 4 + 2) / 64 = 2 := by omega
  have h4 : (128 + tag * 4 + 2) % 4 = 2 := by omega
  have h5 : (128 + tag * 4 + 2) / 4 % 16 = tag := by omega
  simp [parseHeader, hx, h2, h4, h5]

theorem parseHeader_old3 (x : Byte) (tag : Nat) (ht : tag < 16) (hx : x.toNat = 128 + tag * 4 + 3) (r : Bytes) :
    parseHeader (x :: r) = .ok ({ newFormat := false, tag := tag, len := .indet }, r) := by
  have h2 : (128 + tag * 4 + 3) / 64 = 2 := by omega
  have h4 : (128 + tag * 4 + 3) % 4 = 3 := by omega
  have h5 : (128 + tag * 4 + 3) / 4 % 16 = tag := by omega
  simp [parseHeader, hx, h2, h4, h5]

/-- old-format header written by `write_header` parses back (tags 0..15 only exist there) -/
theorem parseHeader_writeHeader_old (tag n : Nat) (ht : tag < 16) (hn : n < 4294967296) (rest : Bytes) :
    parseHeader (writeHeader false tag n ++ rest) =
      .ok ({ newFormat := false, tag := tag, len := .fixed n }, rest) := by
  simp only [writeHeader, encodeOldLen, Gen.whOldOneOctetLimit, Gen.whOldTwoOctetLimit, Bool.false_eq_true, if_false]
  by_cases c1 : n < 256
  · simp only [c1, if_true, List.cons_append, List.nil_append]
    rw [parseHeader_old0 _ _ tag ht (by rw [toUInt8_toNat_of_lt _ (by omega)]; rfl), toUInt8_toNat_of_lt n c1]
  · by_cases c2 : n < 65536
    · simp only [c1, c2, if_true, if_false, be16_eq, List.cons_append, List.nil_append]
      rw [parseHeader_old1 _ _ _ tag ht (toUInt8_toNat_of_lt _ (by omega)), beNat_two,
        toUInt8_toNat_of_lt _ (by omega), toUInt8_toNat_of_lt _ (by omega)]
      have h8 : n / 256 % 256 * 256 + n % 256 = n := by omega
      rw [h8]
    · simp only [c1, c2, if_false, be32_eq, List.cons_append, List.nil_append]
      rw [parseHeader_old2 _ _ _ _ _ tag ht (toUInt8_toNat_of_lt _ (by omega)), beNat_four,
        toUInt8_toNat_of_lt _ (by omega), toUInt8_toNat_of_lt _ (by omega), toUInt8_toNat_of_lt _ (by omega),
        toUInt8_toNat_of_lt _ (by omega)]
      have h8 : n / 16777216 % 256 * 16777216 + n / 65536 % 256 * 65536 + n / 256 % 256 * 256 + n % 256 = n := by omega
      rw [h8]

/-! ### top level -/

theorem deframe_fixed (newFormat : Bool) (tag : Nat) (ht : if newFormat then tag < 64 else tag < 16)
    (body rest : Bytes) (hb : body.length < 4294967296) :
    deframe (writeHeader newFormat tag body.length ++ body ++ rest) =
      .ok ({ newFormat := newFormat, tag := tag, len := .fixed body.length }, body, rest) := by
  unfold deframe
  rw [List.append_assoc]
  cases newFormat
  · simp only [Bool.false_eq_true, if_false] at ht
    rw [parseHeader_writeHeader_old tag _ ht hb]
    have : ¬ (body.length + rest.length < body.length) := by omega
    simp [deframeBody, this]
  · simp only [if_true] at ht
    rw [parseHeader_writeHeader_new tag _ ht hb]
    have : ¬ (body.length + rest.length < body.length) := by omega
    simp [deframeBody, this]

theorem deframe_indeterminate (tag : Nat) (ht : tag < 16) (body : Bytes) :
    deframe ((128 + tag * 4 + 3).toUInt8 :: body) =
      .ok ({ newFormat := false, tag := tag, len := .indet }, body, []) := by
  unfold deframe
  rw [parseHeader_old3 _ tag ht (toUInt8_toNat_of_lt _ (by omega))]
  simp [deframeBody]

theorem partialAllowed_lt (tag : Nat) (h : partialAllowed tag = true) : tag < 64 := by
  simp [partialAllowed] at h; omega

/-- every legal partial-body framing of `body` is read back as `body` -/
theorem deframe_partial (tag : Nat) (k : Nat) (ks : List Nat) (body s rest : Bytes)
    (hs : framePartial tag (k :: ks) body = some s)
    (hallow : partialAllowed tag = true) (hfirst : 9 ≤ k)
    (hk : ∀ x ∈ k :: ks, x ≤ 30) (hb : body.length < 4294967296) :
    deframe (s ++ rest) =
      .ok ({ newFormat := true, tag := tag, len := .part (2 ^ k) }, body, rest) := by
  have hk30 : k ≤ 30 := hk k (by simp)
  simp only [framePartial, frameSegs, Option.map_eq_some_iff] at hs
  obtain ⟨t, ht, rfl⟩ := hs
  split at ht
  · simp at ht
  · rename_i hge
    simp only [Option.map_eq_some_iff] at ht
    obtain ⟨t', ht', rfl⟩ := ht
    unfold deframe
    simp only [List.cons_append]
    rw [parseHeader_new tag (partialAllowed_lt tag hallow) _ _ _ (decodeNewLen_partialOctet k hk30 _)]
    have hlen : (body.take (2 ^ k)).length = 2 ^ k := by simp; omega
    have hpow : 512 ≤ 2 ^ k := by
      calc 512 = 2 ^ 9 := by decide
        _ ≤ 2 ^ k := Nat.pow_le_pow_right (by decide) hfirst
    have hd : List.drop (2 ^ k) (List.take (2 ^ k) body ++ t' ++ rest) = t' ++ rest := by
      rw [List.append_assoc, List.drop_left' hlen]
    have htk : List.take (2 ^ k) (List.take (2 ^ k) body ++ t' ++ rest) = List.take (2 ^ k) body := by
      rw [List.append_assoc, List.take_left' hlen]
    have hl : ¬ ((List.take (2 ^ k) body ++ t' ++ rest).length < 2 ^ k) := by
      simp; omega
    have hfuel := frameSegs_length ks _ _ ht'
    have hcont := deframeCont_frameSegs ks (body.drop (2 ^ k)) t' rest
      ((List.take (2 ^ k) body ++ t' ++ rest).length + 1) ht' (fun x hx => hk x (by simp [hx]))
      (by simp; omega) (by simp; omega)
    simp only [deframeBody, hallow, Bool.not_true, Bool.false_eq_true, if_false, Gen.rdFirstPartialMin]
    have hnlt : ¬ (2 ^ k < 512) := by omega
    simp only [hnlt, hl, if_false, hd, hcont, htk, List.take_append_drop]

/-- partial body lengths on a packet type that must not use them are rejected -/
theorem deframe_rejects_partial_tag (tag : Nat) (ht : tag < 64) (hna : partialAllowed tag = false)
    (k : Nat) (hk : k ≤ 30) (r : Bytes) :
    deframe ((192 + tag).toUInt8 :: partialOctet k :: r) = .error .bad := by
  unfold deframe
  rw [parseHeader_new tag ht _ _ _ (decodeNewLen_partialOctet k hk _)]
  simp [deframeBody, hna]

/-- a first partial chunk shorter than 512 octets is rejected -/
theorem deframe_rejects_short_first (tag : Nat) (ht : tag < 64) (k : Nat) (hk : k < 9) (r : Bytes) :
    deframe ((192 + tag).toUInt8 :: partialOctet k :: r) = .error .bad := by
  unfold deframe
  rw [parseHeader_new tag ht _ _ _ (decodeNewLen_partialOctet k (by omega) _)]
  have : 2 ^ k < 512 := by
    calc 2 ^ k < 2 ^ 9 := Nat.pow_lt_pow_right (by decide) hk
      _ = 512 := by decide
  simp [deframeBody, Gen.rdFirstPartialMin, this]

/-- a body shorter than its declared fixed length is rejected -/
theorem deframe_rejects_truncated_fixed (newFormat : Bool) (tag n : Nat)
    (ht : if newFormat then tag < 64 else tag < 16) (hn : n < 4294967296)
    (avail : Bytes) (hshort : avail.length < n) :
    deframe (writeHeader newFormat tag n ++ avail) = .error .bad := by
  unfold deframe
  cases newFormat
  · simp only [Bool.false_eq_true, if_false] at ht
    rw [parseHeader_writeHeader_old tag _ ht hn]
    simp [deframeBody, hshort]
  · simp only [if_true] at ht
    rw [parseHeader_writeHeader_new tag _ ht hn]
    simp [deframeBody, hshort]

/-- soundness ("never silently mis-split"): a successful continuation read consumed a sequence
of declared segments whose data, concatenated, is the body; `rest` is what follows -/
inductive ContFramed : Bytes → Bytes → Bytes → Prop
  | last (inp r : Bytes) (n : Nat) : decodeNewLen inp = some (.fixed n, r) → n ≤ r.length →
      ContFramed inp (r.take n) (r.drop n)
  | more (inp r b rest : Bytes) (n : Nat) : decodeNewLen inp = some (.part n, r) → n ≤ r.length →
      ContFramed (r.drop n) b rest → ContFramed inp (r.take n ++ b) rest

theorem deframeCont_sound : ∀ (fuel : Nat) (inp b rest : Bytes),
    deframeCont fuel inp = .ok (b, rest) → ContFramed inp b rest := by
  intro fuel
  induction fuel with
  | zero => intro inp b rest h; simp [deframeCont] at h
  | succ f ih =>
    intro inp b rest h
    unfold deframeCont at h
    split at h
    · simp at h
    · rename_i n r hdec
      split at h
      · simp at h
      · rename_i hge
        simp only [Except.ok.injEq, Prod.mk.injEq] at h
        obtain ⟨rfl, rfl⟩ := h
        exact ContFramed.last inp r n hdec (by omega)
    · rename_i n r hdec
      split at h
      · simp at h
      · rename_i hge
        split at h
        · rename_i b' rest' hrec
          simp only [Except.ok.injEq, Prod.mk.injEq] at h
          obtain ⟨rfl, rfl⟩ := h
          exact ContFramed.more inp r b' rest' n hdec (by omega) (ih _ _ _ hrec)
        · simp at h
    · simp at h

theorem decodeNewLen_rest_lt (inp : Bytes) (l : Len) (r : Bytes) (h : decodeNewLen inp = some (l, r)) :
    r.length < inp.length := by
  cases inp with
  | nil => simp [decodeNewLen] at h
  | cons o t =>
    unfold decodeNewLen at h
    by_cases c1 : o.toNat ≤ Gen.rdOneOctetMax
    · simp only [c1, if_true, Option.some.injEq, Prod.mk.injEq] at h
      simp [← h.2]
    · by_cases c2 : o.toNat ≤ Gen.rdTwoOctetMax
      · simp only [c1, c2, if_true, if_false] at h
        cases t with
        | nil => simp at h
        | cons a t' => simp only [Option.some.injEq, Prod.mk.injEq] at h; simp [← h.2]; omega
      · by_cases c3 : o.toNat ≤ Gen.rdPartialMax
        · simp only [c1, c2, c3, if_true, if_false, Option.some.injEq, Prod.mk.injEq] at h
          simp [← h.2]
        · simp only [c1, c2, c3, if_false] at h
          split at h
          · simp only [Option.some.injEq, Prod.mk.injEq] at h; simp [← h.2]; omega
          · simp at h

/-- in a soundly framed stream bytes are conserved: body and rest are strictly shorter than the
input (the difference is the length octets) -/
theorem ContFramed.length_lt {inp b rest : Bytes} (h : ContFramed inp b rest) :
    b.length + rest.length < inp.length := by
  induction h with
  | last inp r n hdec hle =>
    have := decodeNewLen_rest_lt _ _ _ hdec
    simp; omega
  | more inp r b rest n hdec hle _ ih =>
    have := decodeNewLen_rest_lt _ _ _ hdec
    simp at ih ⊢; omega

/-! ### the emitters produce legal framings -/

theorem emitTail_eq_frameSegs (k : Nat) : ∀ (n : Nat) (body : Bytes), body.length ≤ n →
    frameSegs (List.replicate (body.length / 2 ^ k) k) body = some (emitTail k body) := by
  have hpos : 0 < 2 ^ k := Nat.pow_pos (by decide)
  intro n
  induction n with
  | zero =>
    intro body hn
    have : body = [] := by cases body <;> simp_all
    subst this
    rw [emitTail]
    simp [frameSegs, hpos]
  | succ n ih =>
    intro body hn
    rw [emitTail]
    by_cases hlt : body.length < 2 ^ k
    · have : body.length / 2 ^ k = 0 := Nat.div_eq_of_lt hlt
      simp [hlt, this, frameSegs]
    · have hdiv : body.length / 2 ^ k = (body.length - 2 ^ k) / 2 ^ k + 1 := by
        have := Nat.sub_add_cancel (Nat.le_of_not_lt hlt)
        conv => lhs; rw [← this]
        rw [Nat.add_div_right _ hpos]
      simp only [hlt, dite_false, hdiv, List.replicate_succ, frameSegs, if_false]
      have := ih (body.drop (2 ^ k)) (by simp; omega)
      simp only [List.length_drop] at this
      rw [this]
      simp

/-- what a partial-body emitter with chunk size `2^k` writes is, when the data does not fit one
chunk, the framing with segments `k, k, …, k` — so every chunk is the same power of two -/
theorem emitPartial_eq_framePartial (tag k : Nat) (hdr body : Bytes) (hh : hdr.length ≤ 2 ^ k)
    (hbig : ¬ body.length < 2 ^ k - hdr.length) :
    framePartial tag (k :: List.replicate ((body.length - (2 ^ k - hdr.length)) / 2 ^ k) k) (hdr ++ body)
      = some (emitPartial tag k hdr body) := by
  have hlen : ¬ ((hdr ++ body).length < 2 ^ k) := by simp; omega
  have htake : (hdr ++ body).take (2 ^ k) = hdr ++ body.take (2 ^ k - hdr.length) := by
    rw [List.take_append]
    rw [List.take_of_length_le hh]
  have hdrop : (hdr ++ body).drop (2 ^ k) = body.drop (2 ^ k - hdr.length) := by
    rw [List.drop_append]
    rw [List.drop_eq_nil_of_le hh]; simp
  simp only [framePartial, frameSegs, hlen, if_false, htake, hdrop]
  have := emitTail_eq_frameSegs k _ (body.drop (2 ^ k - hdr.length)) (Nat.le_refl _)
  simp only [List.length_drop] at this
  rw [this]
  simp [emitPartial, hbig, List.append_assoc]

/-- **emit/deframe round trip**: whatever the payload length, the stream a partial-body emitter
writes is read back as (inner header ++ payload), and the bytes after it are left untouched -/
theorem deframe_emitPartial (tag k : Nat) (hdr body rest : Bytes)
    (hallow : partialAllowed tag = true) (hk9 : 9 ≤ k) (hk30 : k ≤ 30) (hh : hdr.length ≤ 2 ^ k)
    (hb : hdr.length + body.length < 4294967296) :
    ∃ h, deframe (emitPartial tag k hdr body ++ rest) = .ok (h, hdr ++ body, rest) ∧ h.tag = tag := by
  by_cases hfit : body.length < 2 ^ k - hdr.length
  · refine ⟨{ newFormat := true, tag := tag, len := .fixed (body.length + hdr.length) }, ?_, rfl⟩
    have := deframe_fixed true tag (by simpa using partialAllowed_lt tag hallow) (hdr ++ body) rest (by simp; omega)
    simp only [writeHeader, if_true, encodeNewLenHdr_eq, List.length_append] at this
    simp only [emitPartial, hfit, if_true]
    rw [Nat.add_comm body.length hdr.length]
    simpa [List.append_assoc] using this
  · refine ⟨{ newFormat := true, tag := tag, len := .part (2 ^ k) }, ?_, rfl⟩
    have hf := emitPartial_eq_framePartial tag k hdr body hh hfit
    exact deframe_partial tag k _ (hdr ++ body) _ rest hf hallow hk9
      (by intro x hx; simp at hx; rcases hx with rfl | ⟨_, rfl⟩ <;> exact hk30) (by simp; omega)

end Rpgp

namespace Rpgp

theorem decodeNewLen_five (n : Nat) (hn : n < 4294967296) (rest : Bytes) :
    decodeNewLen (255 :: be32 n ++ rest) = some (Len.fixed n, rest) := by
  rw [be32_eq]
  have h1 : (n / 16777216 % 256).toUInt8.toNat = n / 16777216 % 256 := toUInt8_toNat_of_lt _ (by omega)
  have h2 : (n / 65536 % 256).toUInt8.toNat = n / 65536 % 256 := toUInt8_toNat_of_lt _ (by omega)
  have h3 : (n / 256 % 256).toUInt8.toNat = n / 256 % 256 := toUInt8_toNat_of_lt _ (by omega)
  have h4 : (n % 256).toUInt8.toNat = n % 256 := toUInt8_toNat_of_lt _ (by omega)
  simp [decodeNewLen, Gen.rdOneOctetMax, Gen.rdTwoOctetMax, Gen.rdPartialMax, beNat_four, h1, h2, h3, h4]
  omega

theorem decodeNewLen_encodeNewLenAs (form n : Nat) (l rest : Bytes)
    (h : encodeNewLenAs form n = some l) : decodeNewLen (l ++ rest) = some (Len.fixed n, rest) := by
  unfold encodeNewLenAs at h
  split at h
  · split at h
    · rename_i hn
      simp only [Option.some.injEq] at h; subst h
      have := decodeNewLen_encodeNewLen n (by omega) rest
      simpa [encodeNewLen, Gen.wrNewOneOctetLimit, hn] using this
    · simp at h
  · split at h
    · rename_i hn
      simp only [Option.some.injEq] at h; subst h
      have := decodeNewLen_encodeNewLen n (by omega) rest
      have h1 : ¬ n < 192 := by omega
      simpa [encodeNewLen, Gen.wrNewOneOctetLimit, Gen.wrNewTwoOctetLimit, h1, hn.2] using this
    · simp at h
  · split at h
    · rename_i hn
      simp only [Option.some.injEq] at h; subst h
      exact decodeNewLen_five n hn rest
    · simp at h
  · simp at h

/-- a fixed-length packet is read back whichever admissible length form carries it (new format:
1, 2 or 5 octets, also non-minimal; old format: 1, 2 or 4 octets) -/
theorem deframe_frameFixedAs (newFormat : Bool) (tag form : Nat)
    (ht : if newFormat then tag < 64 else tag < 16) (body s rest : Bytes)
    (hs : frameFixedAs newFormat tag form body = some s) :
    deframe (s ++ rest) =
      .ok ({ newFormat := newFormat, tag := tag, len := .fixed body.length }, body, rest) := by
  have hnl : ¬ (body.length + rest.length < body.length) := by omega
  unfold frameFixedAs at hs
  cases newFormat
  · simp only [Bool.false_eq_true, if_false] at ht hs
    simp only [Option.map_eq_some_iff] at hs
    obtain ⟨l, hl, rfl⟩ := hs
    unfold encodeOldLenAs at hl
    unfold deframe
    split at hl
    · split at hl
      · rename_i hn
        simp only [Option.some.injEq] at hl; subst hl
        simp only [List.cons_append, List.nil_append]
        rw [parseHeader_old0 _ _ tag ht (by rw [toUInt8_toNat_of_lt _ (by omega)]; rfl), toUInt8_toNat_of_lt _ hn]
        simp [deframeBody, hnl]
      · simp at hl
    · split at hl
      · rename_i hn
        simp only [Option.some.injEq] at hl; subst hl
        simp only [be16_eq, List.cons_append, List.nil_append]
        rw [parseHeader_old1 _ _ _ tag ht (toUInt8_toNat_of_lt _ (by omega)), beNat_two,
          toUInt8_toNat_of_lt _ (by omega), toUInt8_toNat_of_lt _ (by omega)]
        have h8 : body.length / 256 % 256 * 256 + body.length % 256 = body.length := by omega
        rw [h8]
        simp [deframeBody, hnl]
      · simp at hl
    · split at hl
      · rename_i hn
        simp only [Option.some.injEq] at hl; subst hl
        simp only [be32_eq, List.cons_append, List.nil_append]
        rw [parseHeader_old2 _ _ _ _ _ tag ht (toUInt8_toNat_of_lt _ (by omega)), beNat_four,
          toUInt8_toNat_of_lt _ (by omega), toUInt8_toNat_of_lt _ (by omega),
          toUInt8_toNat_of_lt _ (by omega), toUInt8_toNat_of_lt _ (by omega)]
        have h8 : body.length / 16777216 % 256 * 16777216 + body.length / 65536 % 256 * 65536 +
            body.length / 256 % 256 * 256 + body.length % 256 = body.length := by omega
        rw [h8]
        simp [deframeBody, hnl]
      · simp at hl
    · simp at hl
  · simp only [if_true] at ht hs
    simp only [Option.map_eq_some_iff] at hs
    obtain ⟨l, hl, rfl⟩ := hs
    unfold deframe
    simp only [List.cons_append, List.append_assoc]
    rw [parseHeader_new tag ht _ _ _ (decodeNewLen_encodeNewLenAs form body.length l (body ++ rest) hl)]
    simp [deframeBody, hnl]

/-! ## packet streams -/

theorem deframe_nil : deframe [] = .error .eof := by
  simp [deframe, parseHeader]

theorem Framed.ne_nil {h : Hdr} {b s : Bytes} (hf : Framed h b s) : s ≠ [] := by
  intro hs
  have := hf []
  rw [hs] at this
  simp [deframe_nil] at this

/-- a stream that starts with framed packets is split at exactly their ends; what follows them is
treated as the stream would be on its own -/
theorem deframeAll_framed_append : ∀ (ps : List (Hdr × Bytes × Bytes)) (fuel : Nat) (t : Bytes),
    (∀ p ∈ ps, Framed p.1 p.2.1 p.2.2) →
    deframeAll (ps.length + fuel) ((ps.map (·.2.2)).flatten ++ t) =
      (ps.map (fun p => (p.1, p.2.1)) ++ (deframeAll fuel t).1, (deframeAll fuel t).2)
  | [], fuel, t, _ => by simp
  | p :: ps, fuel, t, hall => by
    have hp : Framed p.1 p.2.1 p.2.2 := hall p (by simp)
    have hne := hp.ne_nil
    have ih := deframeAll_framed_append ps fuel t (fun q hq => hall q (by simp [hq]))
    have hlen : (p :: ps).length + fuel = (ps.length + fuel) + 1 := by simp; omega
    rw [hlen]
    simp only [List.map_cons, List.flatten_cons, List.append_assoc]
    obtain ⟨x, s', hs⟩ : ∃ x s', p.2.2 = x :: s' := by
      cases hq : p.2.2 with
      | nil => exact absurd hq hne
      | cons x s' => exact ⟨x, s', rfl⟩
    have hd := hp ((ps.map (·.2.2)).flatten ++ t)
    rw [hs] at hd ⊢
    simp only [List.cons_append] at hd ⊢
    rw [deframeAll, hd]
    simp only [ih]

/-! ## fixed-length emitter -/

theorem fixD17c_on : Gen.fixD17cFixedGeneratorHonoursLength = 1 := by decide

/-- whatever the source yields: when the fixed-length generator ends cleanly, what it wrote is one
legal packet whose body is the literal header followed by exactly the source's octets -/
theorem fixedGen_legal (lit : Bytes) (n : Nat) (src out rest : Bytes)
    (hn : lit.length + n < 4294967296) (h : fixedGen lit n src = some out) :
    src.length = n ∧
    deframe (out ++ rest) = .ok ({ newFormat := true, tag := 11, len := .fixed (lit ++ src).length }, lit ++ src, rest) := by
  simp only [fixedGen, fixedGenWith, fixD17c_on, decide_true, if_true] at h
  split at h
  · rename_i hlen
    injection h with h; subst h
    refine ⟨hlen, ?_⟩
    have hb : (lit ++ src).length < 4294967296 := by simp [hlen]; omega
    have := deframe_fixed true 11 (by decide) (lit ++ src) rest hb
    simpa [List.length_append, hlen, List.append_assoc] using this
  · simp at h

/-- regression witness (D17c): before the repair a source that yields more than announced was
written as a packet followed by unframed octets -/
theorem fixedGen_prefix_witness :
    fixedGenWith false [98, 0, 0, 0, 0, 0] 0 [1, 2, 3] = some [0xCB, 6, 98, 0, 0, 0, 0, 0, 1, 2, 3] ∧
    fixedGenWith true [98, 0, 0, 0, 0, 0] 0 [1, 2, 3] = none ∧
    fixedGenWith true [98, 0, 0, 0, 0, 0] 3 [1, 2, 3] = some [0xCB, 9, 98, 0, 0, 0, 0, 0, 1, 2, 3] := by decide

end Rpgp
