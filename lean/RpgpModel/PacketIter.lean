import RpgpModel.Framing
/-!
# PacketIter — where a packet stream ends, and what a failing reader below means

`packet/many.rs`: `PacketParser::next_ref` (used by the message reader for nested packets and for
its trailing-data check) and the `Iterator` implementation (`next`, used by the composed parsers).
Both read the next packet header from the reader below.  The reader below is not always a slice:
it is a decryptor, a decompressor, a dearmorer, a socket — it can *fail*, with any `ErrorKind`,
`UnexpectedEof` included (that is what a truncated stream below reports).

What is modelled: the octets the reader delivers before its first non-data event (`pre`), and that
event (`Tail`): the clean end of the input, or a failing read of a given kind.

* the header is complete in `pre` → the header (the event is not reached while reading it), or an
  error when the body reader refuses it (partial length on a non-data packet / first part < 512);
* `pre` is empty and the input ends → the packet stream ends;
* the input ends *inside* a header → the packet stream ends as well (a leniency the crate's own
  `test_compression_quine` pins: the quine's inner stream ends in such octets);
* the reader *fails* while the header is read → an error, whatever the kind (D4m, D4n, D4p: before
  the repairs an `UnexpectedEof` from below was taken for the end of the packets, the message
  reader went on to unwrap the failed reader and panicked, the composed parsers returned a clean,
  shorter object);
* octets that cannot start a header → an error.
-/
namespace Rpgp.PacketIter
open Rpgp

/-- the first event of the reader below that is not data -/
inductive Tail where
  /-- `read` returns `Ok(0)` / `fill_buf` returns an empty slice -/
  | ended
  /-- `Err(e)`; `eofKind` = (`e.kind() == ErrorKind::UnexpectedEof`) -/
  | failed (eofKind : Bool)
deriving DecidableEq, Repr

inductive Next where
  /-- `None`: no more packets -/
  | done
  /-- `Some(Err(_))` -/
  | err
  /-- `Some(Ok(body reader))` with this header; what is left of `pre` behind the header -/
  | hdr (h : Hdr) (rest : Bytes)
deriving DecidableEq, Repr

/-- `next_ref` / `next` as repaired (`fixed = true`) and as they were before (`fixed = false`:
every `UnexpectedEof` of the header parser means "no more packets") -/
def nextWith (fixed : Bool) (pre : Bytes) (t : Tail) : Next :=
  match parseHeader pre with
  | .ok (h, rest) =>
    -- `PacketBodyReader::new`: partial body lengths only on data packets, the first at least 512
    match h.len with
    | .part n => if !partialAllowed h.tag || n < Gen.rdFirstPartialMin then .err else .hdr h rest
    | _ => .hdr h rest
  | .error .bad => .err
  | .error .eof =>
    match t with
    | .ended => .done
    | .failed eofKind => if fixed then .err else (if eofKind then .done else .err)

/-- `PacketParser::next_ref` of the tree the model was generated from -/
def nextRef (pre : Bytes) (t : Tail) : Next := nextWith (Gen.fixD4nNextRefTracksErrors = 1) pre t

/-- `<PacketParser as Iterator>::next` (header stage) of the tree the model was generated from -/
def nextIter (pre : Bytes) (t : Tail) : Next := nextWith (Gen.fixD4pIteratorTracksErrors = 1) pre t

end Rpgp.PacketIter
