import RpgpProofs.E2EEsk
import RpgpProofs.E2ESplit
import RpgpProofs.Policy
/-! E2E, part 6: the top level — `parseTop (ESK packets ‖ SEIPD packet)`: packet splitting (C17), ESK
and container parsing (C05), `esk_filter` (C15). -/
namespace Rpgp.E2E
open Rpgp

/-- the ESKs of the message as the parser returns them, in packet order: SKESKs, then PKESKs -/
def wireEsks (P : Prims) (e : Encryption) : List WireEsk :=
  e.passwords.map (fun r => .sk (skeskOf P e r)) ++ e.keys.map (fun r => .pk (pkeskPacket P e r))

/-- recipients' part, continued: the PKESK values are in the shape their parser accepts (C05
`PkeskWF`: key id of 8 octets / fingerprint of the version's size, values in the algorithm's shape) and
every ESK packet stays below 2³² octets -/
structure EskPktWF (P : Prims) (e : Encryption) : Prop where
  pk : ∀ r ∈ e.keys, Wire.PkeskWF (pkeskPacket P e r)
  len : ∀ tb ∈ eskBodies P e, ∀ b, tb.2 = some b → b.length < 4294967296

theorem keepEsk_own (P : Prims) (e : Encryption) (inner : Bytes) (w : WireEsk) (hw : w ∈ wireEsks P e) :
    Policy.keepEsk (Policy.filterArgs (seipdContainer (edataOf P e inner))).1
      (Policy.filterArgs (seipdContainer (edataOf P e inner))).2 w.policy = true := by
  unfold wireEsks at hw
  rcases List.mem_append.mp hw with h | h
  · obtain ⟨r, _, rfl⟩ := List.mem_map.mp h
    cases hc : e.container <;> simp only [skeskOf, edataOf, hc, seipdContainer, WireEsk.policy] <;> decide
  · obtain ⟨r, _, rfl⟩ := List.mem_map.mp h
    cases hc : e.container <;> simp only [pkeskPacket, edataOf, hc, seipdContainer, WireEsk.policy] <;> decide

theorem isEskTag_esk (P : Prims) (e : Encryption) : ∀ tb ∈ eskBodies P e, isEskTag tb.1 = true ∧ tb.1 < 64 := by
  intro tb h
  unfold eskBodies at h
  rcases List.mem_append.mp h with h | h <;> obtain ⟨r, _, rfl⟩ := List.mem_map.mp h
  · exact ⟨(by decide : isEskTag Gen.e2eTagSkesk = true), (by decide : Gen.e2eTagSkesk < 64)⟩
  · exact ⟨(by decide : isEskTag Gen.e2eTagPkesk = true), (by decide : Gen.e2eTagPkesk < 64)⟩

theorem takeWhile_all {α : Type} (p : α → Bool) (l r : List α) (h : ∀ x ∈ l, p x = true) (x : α) (hx : p x = false) :
    (l ++ x :: r).takeWhile p = l ∧ (l ++ x :: r).dropWhile p = x :: r := by
  induction l with
  | nil => simp [hx]
  | cons a l ih =>
    have ha := h a (by simp)
    have := ih (fun y hy => h y (by simp [hy]))
    simp [ha, this]

/-- **top-level parse**: the builder's `SKESK.. PKESK.. SEIPD` sequence is read back as an encrypted
message with exactly its own ESKs (none is filtered: their versions align with the container) -/
theorem parseTop_encrypted (P : Prims) (L : CryptoLaws P) (o : ReadOpts) (k : Nat) (e : Encryption) (inner : Bytes)
    (wfC : ContainerWF P o k e inner) (wfE : EskWF e) (wfP : EskPktWF P e)
    (hall : (eskBodies P e).all (fun tb => tb.2.isSome) = true) :
    parseTop (((eskBodies P e).map fun tb => fixedPkt tb.1 (tb.2.getD [])).flatten ++ containerPkt P k e inner)
      = some (.encrypted (wireEsks P e) (edataOf P e inner)) := by
  let pre : List (Nat × Bytes) := (eskBodies P e).map fun tb => (tb.1, tb.2.getD [])
  have hshape : ((eskBodies P e).map fun tb => fixedPkt tb.1 (tb.2.getD [])).flatten ++ containerPkt P k e inner =
      (pre.map pkt).flatten ++ (containerPkt P k e inner ++ (([] : List (Nat × Bytes)).map pkt).flatten) := by
    simp [pre, pkt, List.map_map, Function.comp_def]
  have hsome : ∀ tb ∈ eskBodies P e, ∃ b, tb.2 = some b := fun tb h =>
    Option.isSome_iff_exists.mp ((List.all_eq_true.mp hall) tb h)
  have hpre : ∀ p ∈ pre, p.1 < 64 ∧ p.2.length < 4294967296 := by
    intro p hp
    obtain ⟨tb, htb, rfl⟩ := List.mem_map.mp hp
    obtain ⟨b, hb⟩ := hsome tb htb
    exact ⟨(isEskTag_esk P e tb htb).2, by simpa [hb] using wfP.len tb htb b hb⟩
  have hpreTags0 : ∀ x ∈ pre, isEskTag x.1 = true := by
    intro x hx
    obtain ⟨tb, htb, rfl⟩ := List.mem_map.mp hx
    exact (isEskTag_esk P e tb htb).1
  have hL : 2 ≤ (containerPkt P k e inner).length := by
    unfold containerPkt
    simp only [emitPartial]
    have := encodeNewLen_length_pos ((cipherText P e inner).length + (cfgOctets e.container).length)
    split <;> simp only [List.length_cons, List.length_append] <;> omega
  have hsplit := splitPackets_around pre [] (containerPkt P k e inner)
    (cfgOctets e.container ++ cipherText P e inner) Gen.e2eTagSeipd hpre (by simp) hL
    (fun rest => deframe_containerPkt P o k e inner rest wfC) 0
  rw [← hshape, Nat.add_zero] at hsplit
  -- the first packet is an ESK or the container
  have hhead : ∃ h b r, deframe (((eskBodies P e).map fun tb => fixedPkt tb.1 (tb.2.getD [])).flatten ++ containerPkt P k e inner)
      = .ok (h, b, r) ∧ (isEskTag h.tag || h.tag == Gen.e2eTagSeipd) = true := by
    rw [hshape]
    cases hp : pre with
    | nil =>
      obtain ⟨h, hd, ht⟩ := deframe_containerPkt P o k e inner ((([] : List (Nat × Bytes)).map pkt).flatten) wfC
      exact ⟨h, _, _, by simpa using hd, by rw [ht]; decide⟩
    | cons p ps =>
      have hp1 := hpre p (by rw [hp]; simp)
      have hp2 := hpreTags0 p (by rw [hp]; simp)
      simp only [List.map_cons, List.flatten_cons, List.append_assoc]
      exact ⟨_, _, _, deframe_fixedPkt p.1 hp1.1 p.2 _ hp1.2, by simp [hp2]⟩
  obtain ⟨h0, b0, r0, hd0, ht0⟩ := hhead
  unfold parseTop
  simp only [hd0, ht0, Bool.not_true, Bool.false_eq_true, if_false, hsplit]
  have hpreTags : ∀ x ∈ pre, (fun p : Nat × Bytes => isEskTag p.1) x = true := by
    intro x hx
    obtain ⟨tb, htb, rfl⟩ := List.mem_map.mp hx
    exact (isEskTag_esk P e tb htb).1
  obtain ⟨htw, hdw⟩ := takeWhile_all (fun p : Nat × Bytes => isEskTag p.1) pre []
    hpreTags (Gen.e2eTagSeipd, cfgOctets e.container ++ cipherText P e inner) (by decide : isEskTag Gen.e2eTagSeipd = false)
  rw [htw, hdw]
  simp only [ne_eq, not_true_eq_false, if_false, seipdParse_container P o k e inner wfC]
  -- every ESK packet parses to the value the builder serialised
  have hparsed : pre.map parseEsk = (wireEsks P e).map some := by
    simp only [pre, eskBodies, wireEsks, List.map_append, List.map_map, Function.comp_def]
    congr 1
    · apply List.map_congr_left
      intro r hr
      have hmem : (Gen.e2eTagSkesk, skeskBody P e r) ∈ eskBodies P e := by
        unfold eskBodies; exact List.mem_append_left _ (List.mem_map.mpr ⟨r, hr, rfl⟩)
      obtain ⟨b, hb⟩ := hsome _ hmem
      have hb : skeskBody P e r = some b := hb
      obtain ⟨hser, hwf, _⟩ := skeskBody_facts P L e r b wfE hr hb
      simp only [parseEsk, hb, Option.getD_some]
      rw [if_neg (by decide), if_pos trivial, Wire.skesk_parse_ser _ _ hwf hser]
      rfl
    · apply List.map_congr_left
      intro r hr
      have hmem : (Gen.e2eTagPkesk, Wire.pkeskSer (pkeskPacket P e r)) ∈ eskBodies P e := by
        unfold eskBodies; exact List.mem_append_right _ (List.mem_map.mpr ⟨r, hr, rfl⟩)
      obtain ⟨b, hb⟩ := hsome _ hmem
      have hb : Wire.pkeskSer (pkeskPacket P e r) = some b := hb
      simp only [parseEsk, hb, Option.getD_some]
      rw [if_pos trivial, Wire.pkesk_parse_ser _ _ (wfP.pk r hr) hb]
      rfl
  rw [hparsed]
  have h1 : ((wireEsks P e).map some).all Option.isSome = true := by simp
  have h2 : ((wireEsks P e).map some).filterMap id = wireEsks P e := by simp
  rw [if_pos h1, h2, List.filter_eq_self.mpr (fun w hw => keepEsk_own P e inner w hw)]

end Rpgp.E2E
