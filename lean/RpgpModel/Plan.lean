import RpgpModel.Bytes
/-!
# Plan — primitive *inputs* as data (DESIGN §3 "plans")

The model never computes AES / SHA / HKDF / Argon2.  A construction of rpgp that sits in front of
cryptographic primitives is modelled twice:

* as a function over an abstract record of primitives `Prims` (the transcription of the Rust code;
  the theorems of `RpgpProps/C12.lean` are about these functions), and
* as a `PExpr` — a small expression tree whose leaves are byte strings and whose inner nodes are
  the calls of primitives the code makes.  The driver prints the expression; the Rust harness
  evaluates it with the RustCrypto crates (an interpreter without OpenPGP logic) and compares the
  resulting bytes with what rpgp emitted / accepts.

`PExpr.eval P` is the denotation of a plan under primitives `P`; for every construction a theorem
`…_plan_eval` states `eval P plan = the function over P`.
-/
namespace Rpgp.Sym
open Rpgp

/-- the primitives rpgp composes in the constructions of C12 (parameters, never axioms).
Numeric arguments are OpenPGP algorithm ids. -/
structure Prims where
  /-- `hash alg data` — full digest (`HashAlgorithm::new_hasher` … `finalize`) -/
  hash : Nat → Bytes → Bytes
  /-- `hkdf hashAlg salt ikm info len` — HKDF (RFC 5869) extract-and-expand; empty salt = "no salt" -/
  hkdf : Nat → Bytes → Bytes → Bytes → Nat → Bytes
  /-- `cfbEnc alg key iv data` — full-block CFB encryption (crate `cfb-mode`), no padding -/
  cfbEnc : Nat → Bytes → Bytes → Bytes → Bytes
  /-- `aead sym mode key nonce ad pt` — AEAD encryption, result = ciphertext ‖ tag -/
  aead : Nat → Nat → Bytes → Bytes → Bytes → Bytes → Bytes
  /-- `kwrap kek data` — AES key wrap (RFC 3394), AES variant chosen by `kek.length` -/
  kwrap : Bytes → Bytes → Bytes
  /-- `argon2 pw salt t p m len` — Argon2id v0x13 -/
  argon2 : Bytes → Bytes → Nat → Nat → Nat → Nat → Bytes

/-- the shared deterministic test pattern (`Rpgp.pattern` / harness `frame::pattern`), byte `i` -/
def patByte (seed i : Nat) : Byte := ((i * 7 + seed * 13 + i / 251) % 256).toUInt8

/-- `len` bytes of pattern `seed` starting at offset `off` -/
def patSlice (seed off len : Nat) : Bytes := (List.range len).map fun i => patByte seed (off + i)

inductive PExpr where
  /-- literal bytes -/
  | lit (b : Bytes)
  /-- slice of the shared test pattern (keeps long plaintexts out of the protocol lines) -/
  | pat (seed off len : Nat)
  | zeros (n : Nat)
  | cat (a b : PExpr)
  /-- `n` repetitions of the value of `e` -/
  | rep (n : Nat) (e : PExpr)
  | take (n : Nat) (e : PExpr)
  | drop (n : Nat) (e : PExpr)
  | hash (alg : Nat) (e : PExpr)
  | hkdf (h : Nat) (salt ikm info : PExpr) (len : Nat)
  | cfb (alg : Nat) (key iv data : PExpr)
  | aead (sym mode : Nat) (key nonce ad data : PExpr)
  | kw (key data : PExpr)
  | argon2 (pw salt : PExpr) (t p m len : Nat)

/-- `n` copies of `b`, concatenated -/
def repBytes : Nat → Bytes → Bytes
  | 0, _ => []
  | n + 1, b => b ++ repBytes n b

def PExpr.eval (P : Prims) : PExpr → Bytes
  | .lit b => b
  | .pat s o l => patSlice s o l
  | .zeros n => List.replicate n 0
  | .cat a b => a.eval P ++ b.eval P
  | .rep n e => repBytes n (e.eval P)
  | .take n e => (e.eval P).take n
  | .drop n e => (e.eval P).drop n
  | .hash a e => P.hash a (e.eval P)
  | .hkdf h s i f l => P.hkdf h (s.eval P) (i.eval P) (f.eval P) l
  | .cfb a k iv d => P.cfbEnc a (k.eval P) (iv.eval P) (d.eval P)
  | .aead s a k n ad d => P.aead s a (k.eval P) (n.eval P) (ad.eval P) (d.eval P)
  | .kw k d => P.kwrap (k.eval P) (d.eval P)
  | .argon2 pw s t p m l => P.argon2 (pw.eval P) (s.eval P) t p m l

/-- concatenation of a list of plans -/
def PExpr.catL : List PExpr → PExpr
  | [] => .lit []
  | [e] => e
  | e :: es => .cat e (PExpr.catL es)

/-- line-protocol rendering (prefix notation, parsed by `harness/src/plan.rs`) -/
def PExpr.render : PExpr → String
  | .lit b => "x" ++ hexOrDash b
  | .pat s o l => s!"p{s}.{o}.{l}"
  | .zeros n => s!"z{n}"
  | .cat a b => "c(" ++ a.render ++ "," ++ b.render ++ ")"
  | .rep n e => s!"r{n}(" ++ e.render ++ ")"
  | .take n e => s!"t{n}(" ++ e.render ++ ")"
  | .drop n e => s!"d{n}(" ++ e.render ++ ")"
  | .hash a e => s!"h{a}(" ++ e.render ++ ")"
  | .hkdf h s i f l => s!"k{h}.{l}(" ++ s.render ++ "," ++ i.render ++ "," ++ f.render ++ ")"
  | .cfb a k iv d => s!"f{a}(" ++ k.render ++ "," ++ iv.render ++ "," ++ d.render ++ ")"
  | .aead s a k n ad d =>
    s!"s{s}.{a}(" ++ k.render ++ "," ++ n.render ++ "," ++ ad.render ++ "," ++ d.render ++ ")"
  | .kw k d => "w(" ++ k.render ++ "," ++ d.render ++ ")"
  | .argon2 pw s t p m l => s!"a{t}.{p}.{m}.{l}(" ++ pw.render ++ "," ++ s.render ++ ")"

/-- a plaintext the plans refer to by ranges: literal bytes or a slice of the test pattern -/
inductive PtRef where
  | bytes (b : Bytes)
  | pat (seed len : Nat)

def PtRef.length : PtRef → Nat
  | .bytes b => b.length
  | .pat _ l => l

def PtRef.val : PtRef → Bytes
  | .bytes b => b
  | .pat s l => patSlice s 0 l

/-- plan for the range `[off, off+len)` of the plaintext -/
def PtRef.slice : PtRef → Nat → Nat → PExpr
  | .bytes b, off, len => .lit ((b.drop off).take len)
  | .pat s l, off, len => .pat s off (min len (l - off))

end Rpgp.Sym
