import RpgpModel.Seipd
/-! SEIPDv2 (chunked AEAD) encryptor/decryptor: round trip under the AEAD laws, integrity under INT-CTXT. -/
namespace Rpgp

structure AeadLaws (A : Aead) (T : Nat) : Prop where
  enc_len : ∀ i ad p, (A.aeadEnc i ad p).length = p.length + T
  dec_enc : ∀ i ad p, A.aeadDec i ad (A.aeadEnc i ad p) = some p
  dec_len : ∀ i ad c p, A.aeadDec i ad c = some p → c.length = p.length + T

/-- all chunks full (`cs` bytes) except the last, which is non-empty and at most `cs` -/
def Shape (cs : Nat) : List Bytes → Prop
  | [] => True
  | [c] => 0 < c.length ∧ c.length ≤ cs
  | c :: c' :: r => c.length = cs ∧ Shape cs (c' :: r)

theorem chunksOf_flatten (cs : Nat) (hcs : 0 < cs) : ∀ (n : Nat) (pt : Bytes), pt.length ≤ n →
    (chunksOf cs pt).flatten = pt ∧ Shape cs (chunksOf cs pt) := by
  intro n
  induction n with
  | zero =>
    intro pt h
    have : pt = [] := by cases pt <;> simp_all
    subst this
    rw [chunksOf]; simp [Shape]
  | succ n ih =>
    intro pt h
    rw [chunksOf]
    by_cases hp : pt = []
    · subst hp; simp [Shape]
    · have hc : ¬ (cs = 0 ∨ pt = []) := by simp [hp]; omega
      simp only [hc, dite_false]
      have hpos : 0 < pt.length := List.length_pos_iff.mpr hp
      obtain ⟨h1, h2⟩ := ih (pt.drop cs) (by simp; omega)
      refine ⟨by simp [h1], ?_⟩
      -- shape
      generalize hr : chunksOf cs (pt.drop cs) = rest at h1 h2
      cases rest with
      | nil =>
        simp only [Shape]
        constructor
        · simp; omega
        · simp; omega
      | cons c' r =>
        simp only [Shape]
        refine ⟨?_, h2⟩
        -- rest non-empty means pt.drop cs ≠ [] hence pt.length > cs
        have : pt.drop cs ≠ [] := by
          intro he; rw [he, chunksOf] at hr; simp at hr
        have hlt : cs < pt.length := by
          rcases Nat.lt_or_ge cs pt.length with hlt | hge
          · exact hlt
          · exact absurd (List.drop_eq_nil_of_le hge) this
        simp; omega

theorem sealChunks_flatten_length (A : Aead) (T : Nat) (L : AeadLaws A T) (info : Bytes) :
    ∀ (cks : List Bytes) (i : Nat),
    (sealChunks A info i cks).flatten.length = cks.flatten.length + cks.length * T := by
  intro cks
  induction cks with
  | nil => intro i; simp [sealChunks]
  | cons c r ih =>
    intro i
    simp only [sealChunks, List.flatten_cons, List.length_append, L.enc_len, ih, List.length_cons]
    rw [Nat.add_mul]; omega

/-- `decrypt_last`'s loop recovers every remaining chunk -/
theorem decRest_sealed (A : Aead) (T : Nat) (L : AeadLaws A T) (info : Bytes) (cs : Nat) (hcs : 0 < cs) :
    ∀ (cks : List Bytes) (fuel idx : Nat), Shape cs cks → cks.length < fuel →
    decRest A info cs T fuel idx (sealChunks A info idx cks).flatten = some (cks.flatten, idx + cks.length) := by
  intro cks
  induction cks with
  | nil =>
    intro fuel idx _ hf
    obtain ⟨f, rfl⟩ : ∃ f, fuel = f + 1 := ⟨fuel - 1, by omega⟩
    simp [decRest, sealChunks]
  | cons c r ih =>
    intro fuel idx hs hf
    obtain ⟨f, rfl⟩ : ∃ f, fuel = f + 1 := ⟨fuel - 1, by omega⟩
    have hclen : (A.aeadEnc idx info c).length = c.length + T := L.enc_len _ _ _
    have hcpos : 0 < c.length ∧ c.length ≤ cs := by
      cases r with
      | nil => exact hs
      | cons c' r' => simp only [Shape] at hs; omega
    have hne : (sealChunks A info idx (c :: r)).flatten ≠ [] := by
      intro he
      have := congrArg List.length he
      simp only [sealChunks, List.flatten_cons, List.length_append, hclen, List.length_nil] at this
      omega
    unfold decRest
    simp only [hne, if_false]
    -- the piece taken is exactly the first sealed chunk
    have hpiece : min (cs + T) (sealChunks A info idx (c :: r)).flatten.length = (A.aeadEnc idx info c).length := by
      cases r with
      | nil =>
        simp only [sealChunks, List.flatten_cons, List.flatten_nil, List.append_nil, hclen]
        omega
      | cons c' r' =>
        simp only [Shape] at hs
        have hrl : 0 < (sealChunks A info (idx + 1) (c' :: r')).flatten.length := by
          rw [sealChunks_flatten_length A T L]; simp
          have : 0 < c'.length := by
            cases r' with
            | nil => exact hs.2.1
            | cons _ _ => simp only [Shape] at hs; omega
          omega
        simp only [sealChunks, List.flatten_cons, List.length_append, hclen] at hrl ⊢
        omega
    rw [hpiece]
    have htake : List.take (A.aeadEnc idx info c).length (sealChunks A info idx (c :: r)).flatten = A.aeadEnc idx info c := by
      simp [sealChunks]
    have hdrop : List.drop (A.aeadEnc idx info c).length (sealChunks A info idx (c :: r)).flatten = (sealChunks A info (idx + 1) r).flatten := by
      simp [sealChunks]
    rw [htake, hdrop, L.dec_enc]
    have hs' : Shape cs r := by
      cases r with
      | nil => trivial
      | cons c' r' => simp only [Shape] at hs; exact hs.2
    rw [ih f (idx + 1) hs' (by simp at hf; omega)]
    simp
    omega

end Rpgp

namespace Rpgp

theorem seipd2Dec_sealed (A : Aead) (T : Nat) (L : AeadLaws A T) (hT : 0 < T) (info : Bytes)
    (cs : Nat) (hcs : 0 < cs) :
    ∀ (fuel : Nat) (enc src : Bytes) (idx written : Nat) (cks : List Bytes),
    Shape cs cks →
    enc ++ src = (sealChunks A info idx cks).flatten ++
      A.aeadEnc (idx + cks.length) (info ++ be64 (written + cks.flatten.length)) [] →
    enc.length ≤ cs + T → src.length < fuel →
    ∃ bl, seipd2Dec A info cs T 2 fuel enc idx written src = (bl, true) ∧ bl.flatten = cks.flatten := by
  intro fuel
  induction fuel with
  | zero => intro enc src idx written cks _ _ _ h; omega
  | succ fuel ih =>
    intro enc src idx written cks hshape hall henc hf
    generalize hfin : A.aeadEnc (idx + cks.length) (info ++ be64 (written + cks.flatten.length)) [] = fin at hall
    have hfl : fin.length = T := by rw [← hfin, L.enc_len]; simp
    have hsl := sealChunks_flatten_length A T L info cks idx
    have htot : enc.length + src.length = cks.flatten.length + cks.length * T + T := by
      have := congrArg List.length hall
      simp only [List.length_append, hsl, hfl] at this; omega
    unfold seipd2Dec
    simp only
    by_cases heof : (List.take (2 * (cs + T) - enc.length) src).length < 2 * (cs + T) - enc.length
    · -- source finished: decrypt_last
      have hsl2 : src.length < 2 * (cs + T) - enc.length := by simp at heof; omega
      have htake : List.take (2 * (cs + T) - enc.length) src = src := List.take_of_length_le (by omega)
      simp only [htake]
      simp only [hsl2, if_true, hall]
      have hbl : ((sealChunks A info idx cks).flatten ++ fin).length = (sealChunks A info idx cks).flatten.length + T := by
        simp [hfl]
      have hns : ¬ (((sealChunks A info idx cks).flatten ++ fin).length < T) := by omega
      simp only [hns, if_false]
      unfold decLast
      simp only [hbl, Nat.add_sub_cancel, List.take_left' rfl, List.drop_left' rfl]
      have hfuel : cks.length < (sealChunks A info idx cks).flatten.length + 1 := by
        rw [hsl]
        have : cks.length ≤ cks.length * T := Nat.le_mul_of_pos_right _ hT
        omega
      rw [decRest_sealed A T L info cs hcs cks _ idx hshape hfuel]
      simp only
      rw [← hfin, L.dec_enc]
      exact ⟨[cks.flatten], rfl, by simp⟩
    · -- a full window: decrypt one chunk
      have hsl2 : 2 * (cs + T) - enc.length ≤ src.length := by simp at heof; omega
      simp only [heof, if_false]
      have hbuflen : (enc ++ List.take (2 * (cs + T) - enc.length) src).length = 2 * (cs + T) := by
        simp; omega
      -- the head chunk exists and is full
      match cks, hshape with
      | [], _ =>
        simp at htot; omega
      | [c], hs =>
        simp only [Shape] at hs
        simp at htot; omega
      | c :: c' :: r, hs =>
        simp only [Shape] at hs
        obtain ⟨hc, hs'⟩ := hs
        have hclen : (A.aeadEnc idx info c).length = cs + T := by rw [L.enc_len, hc]
        have hmin : min (cs + T) (enc ++ List.take (2 * (cs + T) - enc.length) src).length = cs + T := by
          rw [hbuflen]; omega
        rw [hmin]
        -- the first cs+T bytes of the buffer are the first sealed chunk
        have hbufpre : enc ++ List.take (2 * (cs + T) - enc.length) src ++ List.drop (2 * (cs + T) - enc.length) src
            = A.aeadEnc idx info c ++ ((sealChunks A info (idx + 1) (c' :: r)).flatten ++ fin) := by
          rw [List.append_assoc, List.take_append_drop, hall]
          simp [sealChunks, List.append_assoc]
        have htk : List.take (cs + T) (enc ++ List.take (2 * (cs + T) - enc.length) src) = A.aeadEnc idx info c := by
          have h1 : List.take (cs + T) (enc ++ List.take (2 * (cs + T) - enc.length) src ++ List.drop (2 * (cs + T) - enc.length) src)
              = List.take (cs + T) (enc ++ List.take (2 * (cs + T) - enc.length) src) := by
            rw [List.take_append_of_le_length (by rw [hbuflen]; omega)]
          rw [← h1, hbufpre, List.take_left' hclen]
        have hdr : List.drop (cs + T) (enc ++ List.take (2 * (cs + T) - enc.length) src) ++ List.drop (2 * (cs + T) - enc.length) src
            = (sealChunks A info (idx + 1) (c' :: r)).flatten ++ fin := by
          have h1 : List.drop (cs + T) (enc ++ List.take (2 * (cs + T) - enc.length) src ++ List.drop (2 * (cs + T) - enc.length) src)
              = List.drop (cs + T) (enc ++ List.take (2 * (cs + T) - enc.length) src) ++ List.drop (2 * (cs + T) - enc.length) src := by
            rw [List.drop_append_of_le_length (by rw [hbuflen]; omega)]
          rw [← h1, hbufpre, List.drop_left' hclen]
        rw [htk, L.dec_enc]
        simp only
        have e1 : idx + 1 + (c' :: r).length = idx + (c :: c' :: r).length := by
          simp only [List.length_cons]; omega
        have e2 : written + c.length + (c' :: r).flatten.length = written + (c :: c' :: r).flatten.length := by
          simp only [List.flatten_cons, List.length_append]; omega
        have hfin' : A.aeadEnc (idx + 1 + (c' :: r).length) (info ++ be64 (written + c.length + (c' :: r).flatten.length)) [] = fin := by
          rw [e1, e2]; exact hfin
        obtain ⟨bl', hrec, hfl'⟩ := ih (List.drop (cs + T) (enc ++ List.take (2 * (cs + T) - enc.length) src))
          (List.drop (2 * (cs + T) - enc.length) src) (idx + 1) (written + c.length) (c' :: r) hs'
          (by rw [hdr, hfin']) (by rw [List.length_drop, hbuflen]; omega) (by rw [List.length_drop]; omega)
        rw [hrec]
        exact ⟨c :: bl', rfl, by simp [hfl']⟩

/-- **SEIPDv2 round trip**: for every plaintext (any length, including 0 and exact multiples of the
chunk size), every chunk size and every AEAD satisfying the correctness laws, decrypting what the
encryptor wrote ends cleanly and releases exactly the plaintext. -/
theorem seipd2_roundtrip (A : Aead) (T : Nat) (L : AeadLaws A T) (hT : 0 < T) (info : Bytes)
    (cs : Nat) (hcs : 0 < cs) (pt : Bytes) :
    ∃ bl, seipd2Dec A info cs T 2 ((seipd2Encrypt A info cs pt).length + 2) [] 0 0 (seipd2Encrypt A info cs pt)
      = (bl, true) ∧ bl.flatten = pt := by
  obtain ⟨hfl, hsh⟩ := chunksOf_flatten cs hcs pt.length pt (Nat.le_refl _)
  have := seipd2Dec_sealed A T L hT info cs hcs ((seipd2Encrypt A info cs pt).length + 2) []
    (seipd2Encrypt A info cs pt) 0 0 (chunksOf cs pt) hsh
    (by simp [seipd2Encrypt, seipd2Blocks, hfl]) (by simp) (by omega)
  rw [hfl] at this
  exact this

end Rpgp

namespace Rpgp

/-- Ciphertext integrity of the AEAD relative to what the honest encryptor sealed for plaintext
chunks `cks` and final associated data `finAd` (a hypothesis about the primitive, INT-CTXT):
anything that opens was sealed by the encryptor under the same index and associated data. -/
structure IntCtxt (A : Aead) (info finAd : Bytes) (cks : List Bytes) : Prop where
  chunk : ∀ i c p, A.aeadDec i info c = some p →
    ∃ h : i < cks.length, p = cks[i] ∧ c = A.aeadEnc i info cks[i]
  final : ∀ i ad c p, ad ≠ info → A.aeadDec i ad c = some p →
    i = cks.length ∧ c = A.aeadEnc cks.length finAd []

/-- sealed chunks `i ..` of the honest ciphertext -/
def sealedFrom (A : Aead) (info : Bytes) (cks : List Bytes) (i : Nat) : Bytes :=
  (sealChunks A info i (cks.drop i)).flatten

theorem sealedFrom_step (A : Aead) (info : Bytes) (cks : List Bytes) (i : Nat) (h : i < cks.length) :
    sealedFrom A info cks i = A.aeadEnc i info cks[i] ++ sealedFrom A info cks (i + 1) := by
  unfold sealedFrom
  rw [List.drop_eq_getElem_cons h]
  simp [sealChunks]

theorem take_succ_flatten (cks : List Bytes) (i : Nat) (h : i < cks.length) :
    (cks.take (i + 1)).flatten = (cks.take i).flatten ++ cks[i] := by
  rw [List.take_succ_eq_append_getElem h, List.flatten_append]; simp

/-- the `decrypt_last` loop under INT-CTXT: it can only have consumed honest sealed chunks, in
order, and released their plaintexts -/
theorem decRest_int (A : Aead) (info finAd : Bytes) (cks : List Bytes) (H : IntCtxt A info finAd cks)
    (cs T : Nat) : ∀ (fuel idx : Nat) (body p : Bytes) (idx' : Nat),
    decRest A info cs T fuel idx body = some (p, idx') →
    idx ≤ idx' ∧ idx' ≤ max idx cks.length ∧
    body ++ sealedFrom A info cks idx' = sealedFrom A info cks idx ∧
    (cks.take idx).flatten ++ p = (cks.take idx').flatten := by
  intro fuel
  induction fuel with
  | zero => intro idx body p idx' h; simp [decRest] at h
  | succ fuel ih =>
    intro idx body p idx' h
    unfold decRest at h
    by_cases hb : body = []
    · simp only [hb, if_true, Option.some.injEq, Prod.mk.injEq] at h
      obtain ⟨rfl, rfl⟩ := h
      subst hb
      exact ⟨Nat.le_refl _, Nat.le_max_left _ _, by simp, by simp⟩
    · simp only [hb, if_false] at h
      generalize hpiece : List.take (min (cs + T) body.length) body = piece at h
      cases hopen : A.aeadDec idx info piece with
      | none => simp [hopen] at h
      | some q =>
        simp only [hopen] at h
        obtain ⟨hi, hq, hc⟩ := H.chunk idx piece q hopen
        cases hrec : decRest A info cs T fuel (idx + 1) (List.drop (min (cs + T) body.length) body) with
        | none => simp [hrec] at h
        | some r =>
          obtain ⟨ps, j⟩ := r
          simp only [hrec, Option.some.injEq, Prod.mk.injEq] at h
          obtain ⟨rfl, rfl⟩ := h
          obtain ⟨h1, h2, h3, h4⟩ := ih _ _ _ _ hrec
          refine ⟨by omega, by omega, ?_, ?_⟩
          · rw [sealedFrom_step A info cks idx hi, ← hc, ← h3, ← hpiece, ← List.append_assoc,
              List.take_append_drop]
          · rw [← h4, take_succ_flatten cks idx hi, hq, List.append_assoc]

end Rpgp

namespace Rpgp

theorem beBytes_length (k n : Nat) : (beBytes k n).length = k := by
  induction k with
  | zero => rfl
  | succ k ih => simp [beBytes, ih]

theorem info_be64_ne (info : Bytes) (x : Nat) : info ++ be64 x ≠ info := by
  intro h
  have := congrArg List.length h
  simp [be64, beBytes_length] at this

theorem sealedFrom_end (A : Aead) (info : Bytes) (cks : List Bytes) :
    sealedFrom A info cks cks.length = [] := by
  simp [sealedFrom, sealChunks]

/-- the whole decryptor under INT-CTXT -/
theorem seipd2Dec_int (A : Aead) (info finAd : Bytes) (cks : List Bytes) (H : IntCtxt A info finAd cks)
    (cs T k : Nat) : ∀ (fuel : Nat) (enc : Bytes) (idx written : Nat) (src : Bytes) (bl : List Bytes) (ok : Bool),
    seipd2Dec A info cs T k fuel enc idx written src = (bl, ok) → idx ≤ cks.length →
    ∃ j, idx ≤ j ∧ j ≤ cks.length ∧ (cks.take idx).flatten ++ bl.flatten = (cks.take j).flatten ∧
      (ok = true → j = cks.length ∧
        enc ++ src = sealedFrom A info cks idx ++ A.aeadEnc cks.length finAd []) := by
  intro fuel
  induction fuel with
  | zero =>
    intro enc idx written src bl ok h hidx
    simp only [seipd2Dec, Prod.mk.injEq] at h
    obtain ⟨rfl, rfl⟩ := h
    exact ⟨idx, Nat.le_refl _, hidx, by simp, by simp⟩
  | succ fuel ih =>
    intro enc idx written src bl ok h hidx
    have hfail : ∀ {bl : List Bytes} {ok : Bool}, (([] : List Bytes), false) = (bl, ok) →
        ∃ j, idx ≤ j ∧ j ≤ cks.length ∧ (cks.take idx).flatten ++ bl.flatten = (cks.take j).flatten ∧
          (ok = true → j = cks.length ∧
            enc ++ src = sealedFrom A info cks idx ++ A.aeadEnc cks.length finAd []) := by
      intro bl ok h
      simp only [Prod.mk.injEq] at h
      obtain ⟨rfl, rfl⟩ := h
      exact ⟨idx, Nat.le_refl _, hidx, by simp, by simp⟩
    unfold seipd2Dec at h
    simp only at h
    generalize hbuf : enc ++ List.take (k * (cs + T) - enc.length) src = buf at h
    by_cases heof : (List.take (k * (cs + T) - enc.length) src).length < k * (cs + T) - enc.length
    · simp only [heof, if_true] at h
      have htake : List.take (k * (cs + T) - enc.length) src = src := by
        apply List.take_of_length_le; simp at heof; omega
      rw [htake] at hbuf
      by_cases hshort : buf.length < T
      · simp only [hshort, if_true] at h; exact hfail h
      · simp only [hshort, if_false] at h
        cases hlast : decLast A info cs T buf idx written with
        | none => simp only [hlast] at h; exact hfail h
        | some p =>
          simp only [hlast, Prod.mk.injEq] at h
          obtain ⟨rfl, rfl⟩ := h
          unfold decLast at hlast
          dsimp only at hlast
          split at hlast
          · simp at hlast
          · rename_i q idx' hrest
            split at hlast
            · rename_i t hfin
              simp only [Option.some.injEq] at hlast
              subst hlast
              obtain ⟨h1, h2, h3, h4⟩ := decRest_int A info finAd cks H cs T _ _ _ _ _ hrest
              obtain ⟨hn, htag⟩ := H.final _ _ _ _ (info_be64_ne info _) hfin
              subst hn
              refine ⟨cks.length, hidx, Nat.le_refl _, by simpa using h4, fun _ => ⟨rfl, ?_⟩⟩
              rw [sealedFrom_end, List.append_nil] at h3
              rw [hbuf, ← h3, ← htag, List.take_append_drop]
            · simp at hlast
    · simp only [heof, if_false] at h
      generalize hpiece : List.take (min (cs + T) buf.length) buf = piece at h
      cases hopen : A.aeadDec idx info piece with
      | none => simp only [hopen] at h; exact hfail h
      | some p =>
        simp only [hopen] at h
        obtain ⟨hi, hp, hc⟩ := H.chunk idx piece p hopen
        generalize hrec : seipd2Dec A info cs T k fuel (List.drop (min (cs + T) buf.length) buf) (idx + 1)
          (written + p.length) (List.drop (k * (cs + T) - enc.length) src) = r at h
        obtain ⟨bl', ok'⟩ := r
        simp only [Prod.mk.injEq] at h
        obtain ⟨rfl, rfl⟩ := h
        obtain ⟨j, hj1, hj2, hj3, hj4⟩ := ih _ _ _ _ _ _ hrec (by omega)
        refine ⟨j, by omega, hj2, ?_, ?_⟩
        · rw [← hj3, take_succ_flatten cks idx hi, hp]; simp [List.append_assoc]
        · intro hok
          obtain ⟨hjn, hrest⟩ := hj4 hok
          refine ⟨hjn, ?_⟩
          have hall : enc ++ src = buf ++ List.drop (k * (cs + T) - enc.length) src := by
            rw [← hbuf, List.append_assoc, List.take_append_drop]
          rw [hall, sealedFrom_step A info cks idx hi, ← hc, ← hpiece, List.append_assoc, ← hrest,
            ← List.append_assoc, List.take_append_drop]

end Rpgp
