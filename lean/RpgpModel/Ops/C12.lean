import RpgpModel.Proto
import RpgpModel.Framing
import RpgpModel.SymEnc
import RpgpModel.Kdf
/-!
# Ops for C12 — plans (primitive inputs) and the functions that sit behind a primitive

Answers: `ok:<plan>` (a rendered `PExpr`, see `RpgpModel/Plan.lean`), `ok:<hex>`, `err`.
-/
namespace Rpgp.Ops.C12
open Rpgp Rpgp.Sym

/-- S2K specifier from `typ= hash= salt= count= t= p= m=` -/
def spec (a : Args) : Option S2k.Spec := do
  let typ ← a.nat "typ"
  match typ with
  | 0 => pure (.simple (← a.nat "hash"))
  | 1 => pure (.salted (← a.nat "hash") (← a.bytes "salt"))
  | 3 => pure (.iterated (← a.nat "hash") (← a.bytes "salt") (← a.nat "count"))
  | 4 => pure (.argon2 (← a.bytes "salt") (← a.nat "t") (← a.nat "p") (← a.nat "m"))
  | _ => none

/-- plaintext: `pt=<seed>:<len>` (test pattern) or `ptx=<hex>` -/
def ptRef (a : Args) : Option PtRef :=
  match a.get? "pt" with
  | some v =>
    match v.splitOn ":" with
    | [s, n] => do pure (.pat (← s.toNat?) (← n.toNat?))
    | _ => none
  | none => do pure (.bytes (← a.bytes "ptx"))

def planAns (p : Option PExpr) : String :=
  match p with
  | some e => "ok:" ++ e.render
  | none => "err"

def flag (a : Args) (k : String) : Option Bool := do pure ((← a.nat k) != 0)

def showCk (b : Bytes) : String :=
  let (n, x, y) := cksum b
  s!"{n}.{x}.{y}"

def handle (op : String) (a : Args) : Option String :=
  match op with
  | "s2k.derive" => do
    let s ← spec a
    pure (planAns (S2k.plan s (← a.bytes "pw") (← a.nat "ks")))
  | "s2k.spec" => do pure (okBytes (S2k.specBytes (← spec a)))
  | "seipd1.enc" => do
    pure ("ok:" ++ (Seipd1.plan (← a.nat "alg") (← a.bytes "key") (← a.bytes "pre") (← ptRef a)).render)
  | "seipd1.mdcpre" => do
    let n ← a.nat "n"
    pure s!"ok:{(Seipd1.mdcPreimage (List.replicate n 0)).length}"
  | "seipd1.open" => do
    let r := Seipd1.openWith (← a.bytes "sha") (← a.nat "bs") (← a.bytes "dec")
    pure (match r with
      | .ok pt => "ok:" ++ showCk pt
      | .error .eof => "err:eof"
      | .error .mdc => "err:mdc")
  | "seipd2.info" => do pure (okBytes (Seipd2.info (← a.nat "sym") (← a.nat "aead") (← a.nat "cs")))
  | "seipd2.split" => do
    let (k, n) := Seipd2.split (← a.nat "sym") (← a.nat "aead") (← a.bytes "okm")
    pure ("ok:" ++ hexOrDash k ++ ":" ++ hexOrDash n)
  | "seipd2.enc" => do
    pure ("ok:" ++ (Seipd2.plan (← a.nat "sym") (← a.nat "aead") (← a.nat "cs") (← a.bytes "salt")
      (← a.bytes "key") (← ptRef a)).render)
  | "skesk4.enc" => do
    pure (planAns (Skesk.plan4 (← flag a "enc") (← a.nat "sym") (← spec a) (← a.bytes "pw") (← a.bytes "sk")))
  | "skesk4.open" => do
    pure (match Skesk.open4 (← a.bytes "dec") with
      | some (alg, key) => s!"ok:{alg}:" ++ hexOrDash key
      | none => "err")
  | "skesk6.enc" => do
    pure (planAns (Skesk.plan6 (← flag a "enc") (← a.nat "sym") (← a.nat "aead") (← spec a) (← a.bytes "pw")
      (← a.bytes "sk") (← a.bytes "iv")))
  | "seckey.cfb" => do
    pure (planAns (SecKey.cfbPlan (← flag a "enc") (← a.nat "ver") (← a.nat "sym") (← spec a) (← a.bytes "pw") (← a.bytes "iv")
      (← a.bytes "raw")))
  | "seckey.aead" => do
    pure (planAns (SecKey.aeadPlan (← flag a "enc") (← a.nat "sym") (← a.nat "aead") (← spec a) (← a.bytes "pw")
      (← a.bytes "nonce") (← a.nat "tag") (← a.nat "ver") (← a.bytes "pub") (← a.bytes "raw")))
  | "ecdh.param" => do
    pure (okBytes (Ecdh.param (← a.bytes "oid") (← a.nat "sym") (← a.nat "hash") (← a.bytes "fp")))
  | "ecdh.kek" => do
    pure (planAns (Ecdh.kekPlan (← a.nat "hash") (← a.bytes "z") (← a.nat "len") (← a.bytes "param")))
  | "ecdh.wrap" => do
    pure (planAns (Ecdh.wrapPlan (← flag a "enc") (← a.bytes "oid") (← a.nat "hash") (← a.nat "sym")
      (← a.bytes "fp") (← a.bytes "z") (← a.bytes "plain")))
  | "ecdh.pad" => do pure (okBytes (Ecdh.pad (← a.bytes "plain")))
  | "ecdh.unpad" => do
    pure (match Ecdh.unpad (← a.bytes "data") with
      | some x => okBytes x
      | none => "err")
  | "x25519.kek" => do
    pure ("ok:" ++ (X25519.kekPlan (← a.bytes "eph") (← a.bytes "rcpt") (← a.bytes "z")).render)
  | "x25519.wrap" => do
    pure ("ok:" ++ (X25519.wrapPlan (← a.bytes "eph") (← a.bytes "rcpt") (← a.bytes "z") (← a.bytes "plain")).render)
  | "x448.kek" => do
    pure ("ok:" ++ (X448.kekPlan (← a.bytes "eph") (← a.bytes "rcpt") (← a.bytes "z")).render)
  | "x448.wrap" => do
    pure ("ok:" ++ (X448.wrapPlan (← a.bytes "eph") (← a.bytes "rcpt") (← a.bytes "z") (← a.bytes "plain")).render)
  | "sum16" => do pure s!"ok:{sum16 (← a.bytes "data")}"
  | "sum16c" => do pure s!"ok:{sum16Chunks (← a.list "chunks")}"
  | "pkesk.plain" => do
    let alg := (a.get? "alg").bind String.toNat?
    pure (okBytes (sessionKeyPlain alg (← a.bytes "sk") (← flag a "ck")))
  | _ => none

end Rpgp.Ops.C12
