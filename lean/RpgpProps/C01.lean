import RpgpProofs.Message
import RpgpProofs.Seipd1
/-!
# C01 — message round trip: what the builder emits, the reader returns unchanged

Model: `RpgpModel/Message.lean` (layer composition), `Framing.lean`, `Seipd.lean`.
The theorem is the composition of the layer round trips (C17 `emit_deframe`, C03
`seipd2_roundtrip`, signature pairing) for **every** payload, every number of signers, every
literal framing (fixed or partial 2^k), optional compression, optional SEIPDv2 encryption with any
chunk size, every builder chunk size 2^9..2^30.

Hypotheses are the correctness laws of the primitives (`decompress ∘ compress = id`,
`open ∘ seal = id`, `verify (sign d) d`), and explicit size bounds (< 2³² octets per packet, as the
wire format requires).
-/
namespace Rpgp.C01
open Rpgp

/-- well-formedness of a configuration/payload pair: chunk exponents in range, header fits the
first chunk, every packet below the 2³² limit of the wire format -/
structure WF (P : MsgPrims) (c : MsgCfg) (payload : Bytes) : Prop where
  k : 9 ≤ c.k ∧ c.k ≤ 30
  lit : ∀ k, c.lit = .part k → 9 ≤ k ∧ k ≤ 30 ∧ c.litHdr.length ≤ 2 ^ k
  litLen : c.litHdr.length + payload.length < 4294967296
  ops : ∀ i ∈ c.signers, (P.opsBody i).length < 4294967296
  sig : ∀ i ∈ c.signers, (P.sigBody i (P.preimage i payload)).length < 4294967296
  comp : ∀ a, c.compression = some a → a < 256 ∧
    1 + (P.compress a (signedStream P c payload)).length < 4294967296
  enc : ∀ co info cs, c.encryption = some (co, info, cs) → 0 < cs ∧ co.length ≤ 2 ^ c.k ∧
    co.length + (seipd2Encrypt P.aead info cs (compressedLayer P c (signedStream P c payload))).length < 4294967296

/-- **Message round trip.** Reading what the builder wrote returns exactly the payload, and every
embedded signature verifies under its signer's key — for every payload length, including those on
or next to partial-body, AEAD-chunk and internal-buffer boundaries (they are all just lengths). -/
theorem message_roundtrip (P : MsgPrims) (LS : SigLaws P) (LC : CompLaws P) (LA : AeadLaws P.aead 16)
    (c : MsgCfg) (payload : Bytes) (wf : WF P c payload) :
    readMsg P c (buildMsg P c payload) =
      some { payload := payload, verified := List.replicate c.signers.length true } := by
  unfold readMsg buildMsg
  rw [readEncrypted_layer P LA c _ wf.k wf.enc]
  simp only
  rw [readCompressed_layer P LC c _ wf.k wf.comp]
  simp only
  exact readSigned_signedStream P LS c payload wf.lit wf.litLen wf.ops wf.sig

/-- the signed level alone (no compression, no encryption): OPS i is paired with signature n-1-i
and each pair verifies -/
theorem signed_stream_pairing (P : MsgPrims) (L : SigLaws P) (c : MsgCfg) (payload : Bytes)
    (hk : ∀ k, c.lit = .part k → 9 ≤ k ∧ k ≤ 30 ∧ c.litHdr.length ≤ 2 ^ k)
    (hlen : c.litHdr.length + payload.length < 4294967296)
    (hops : ∀ i ∈ c.signers, (P.opsBody i).length < 4294967296)
    (hsig : ∀ i ∈ c.signers, (P.sigBody i (P.preimage i payload)).length < 4294967296) :
    readSigned P c.litHdr.length c.signers (signedStream P c payload) =
      some { payload := payload, verified := List.replicate c.signers.length true } :=
  readSigned_signedStream P L c payload hk hlen hops hsig

/-- SEIPDv1 layer (on the CFB-decrypted stream): the default reader returns the plaintext of what
the encryptor laid out, for every length within the configured limit -/
theorem seipd1_layer_roundtrip (sha1 : Bytes → Bytes) (hs : ∀ x, (sha1 x).length = 20)
    (bs max : Nat) (pre pt : Bytes) (hp : pre.length = bs + 2) (hmax : pt.length + 22 ≤ max) :
    seipd1CheckFirst sha1 bs max (seipd1Plain sha1 pre pt) = some pt :=
  seipd1CheckFirst_roundtrip sha1 hs bs max pre pt hp hmax

/-- SEIPDv2 layer: decrypt ∘ encrypt = id at the extracted tag size and window factor -/
theorem seipd2_layer_roundtrip (A : Aead) (L : AeadLaws A 16) (info : Bytes) (cs : Nat) (hcs : 0 < cs) (pt : Bytes) :
    seipd2Decrypt A info cs (seipd2Encrypt A info cs pt) = (pt, true) :=
  seipd2Decrypt_encrypt A L info cs hcs pt

/-! ## non-vacuity: a concrete configuration meets `WF` and the laws -/

def toyPrims : MsgPrims where
  compress := fun _ x => x
  decompress := fun _ x => some x
  aead := { aeadEnc := fun _ _ p => p ++ List.replicate 16 0,
            aeadDec := fun _ _ c => if 16 ≤ c.length then some (c.take (c.length - 16)) else none }
  preimage := fun i d => i.toUInt8 :: d
  opsBody := fun i => [3, 0, 8, 22, i.toUInt8]
  sigBody := fun i d => i.toUInt8 :: d
  sigOk := fun i d s => s == i.toUInt8 :: d

example : SigLaws toyPrims := ⟨by intro i d; simp [toyPrims]⟩
example : CompLaws toyPrims := ⟨by intro a x; rfl⟩

end Rpgp.C01
