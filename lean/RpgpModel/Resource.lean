import RpgpModel.Bytes
import RpgpModel.Stream
import RpgpModel.Seipd
import RpgpModel.Canon
import RpgpModel.Gen.Constants
/-!
# Resource — allocation and work model of the parsing / streaming code (property C19)

What is modelled is the *sizes* rpgp's own code asks its containers for, as a cost semantics:

* `Buf`               `Vec<u8>` / `BytesMut` (KIND_VEC): `with_capacity`, `extend_from_slice` with
                      `RawVec::grow_amortized` (new capacity `max(8, 2·cap, len+additional)`); every
                      alloc/realloc size is recorded (`allocs`), so `total` and `peak` are functions of it
* `takeBytes`         `parsing_reader.rs  BufReadParsing::take_bytes` (pre-allocation `min(size, 1024)`,
                      then growth by the data actually present)
* `readToEnd`         `parsing_reader.rs  rest` (`Vec::new()` + `read_to_end`; std's contract: grow
                      amortised, by at least 32)
* `mpiRead`           `types/mpi.rs  Mpi::try_from_reader` (bit-count ceiling, then `take_bytes`)
* `subLen`, `subpacketsShape`
                      `signature/subpacket.rs SubpacketLength::try_from_reader`,
                      `signature/de.rs subpackets` (`Vec::with_capacity(len.min(32))`, one push per
                      subpacket, every iteration consumes at least two octets)
* `sigCost`, `areaCost`
                      `signature/de.rs  {try_from_reader_nested, v4_parser, v6_parser, subpackets,
                      embedded_sig}` with `MAX_EMBEDDED_SIGNATURE_DEPTH`: the bytes `embedded_sig`
                      copies with `i.rest()`, whether the nesting cap refused the input, and the
                      deepest `depth` any nested signature parser ran with
* `sigCopyUncapped`, `sigDepthUncapped`
                      the same code WITHOUT the cap (the tree before the D19 repair), kept as a
                      regression model only
* `nestSig`           the witness family: a signature whose unhashed area holds one embedded signature …
* `readFromBuf`       `armor/reader.rs  read_from_buf` (back buffer, `limit`, re-parse per refill) over
                      an abstract parser verdict
* `fillBufferBytes`, `Refill`
                      `util.rs fill_buffer_bytes` and the "refill when empty" idiom of
                      `reader/{packet_body,literal,compressed,signed_many}.rs`
* `seipd2DecI`, `seipd1RoundsI`
                      the decryptor state machines of `Seipd.lean`, instrumented with the buffer they hold
                      in each round (erasure lemmas in `RpgpProofs/Resource.lean` show the instrumented
                      versions compute exactly the same results)
* `argon2Admit`, `decodeCount`, `iterBytes`
                      `types/s2k.rs  derive_key` admission of Argon2 parameters and the iterated-S2K loop

Nothing here measures the real allocator or the clock; that is what the harness does.
-/
namespace Rpgp.Resource

/-! ## 1. `Vec<u8>` / `BytesMut` growth -/

/-- `RawVec::<u8>::MIN_NON_ZERO_CAP` (std: 8 for one-byte elements) -/
def vecMinCapU8 : Nat := 8

/-- `RawVec::grow_amortized(len, additional)`: `max(MIN_NON_ZERO_CAP, max(2·cap, len+additional))` -/
def growAmortized (minCap cap len add : Nat) : Nat := max minCap (max (2 * cap) (len + add))

structure Buf where
  cap : Nat
  len : Nat
  /-- sizes passed to the allocator so far (first `alloc`, then every `realloc`), oldest first -/
  allocs : List Nat
deriving Repr, DecidableEq

/-- `BytesMut::with_capacity(c)` / `Vec::with_capacity(c)` (no allocation for 0) -/
def Buf.withCapacity (c : Nat) : Buf := ⟨c, 0, if c = 0 then [] else [c]⟩

/-- `extend_from_slice` of `n` bytes: `reserve(n)` (amortised growth if it does not fit) + copy -/
def Buf.extend (b : Buf) (n : Nat) : Buf :=
  if b.len + n ≤ b.cap then { b with len := b.len + n }
  else
    let c := growAmortized vecMinCapU8 b.cap b.len n
    ⟨c, b.len + n, b.allocs ++ [c]⟩

/-- all bytes ever requested from the allocator -/
def Buf.total (b : Buf) : Nat := b.allocs.sum

/-- high-water mark of live bytes: during a `realloc` the old and the new block coexist -/
def peakOf : List Nat → Nat
  | [] => 0
  | [c] => c
  | c :: d :: r => max (c + d) (peakOf (d :: r))

def Buf.peak (b : Buf) : Nat := peakOf b.allocs

/-! ## 2. `take_bytes` -/

/-- the `while arr.len() < size { fill_buf; extend; consume }` loop over the successive non-empty
`fill_buf` results `src` (an empty chunk is EOF); returns the buffer, the unconsumed source and the
number of iterations that extended the buffer -/
def takeLoop (size : Nat) : List Bytes → Buf → Buf × List Bytes × Nat
  | [], b => (b, [], 0)
  | c :: cs, b =>
    if size ≤ b.len then (b, c :: cs, 0)
    else if c = [] then (b, c :: cs, 0)
    else
      let avail := min (size - b.len) c.length
      let b' := b.extend avail
      if avail < c.length then (b', c.drop avail :: cs, 1)
      else
        let (b'', rest, k) := takeLoop size cs b'
        (b'', rest, k + 1)

/-- `take_bytes(size)`: buffer after the loop; the call succeeds iff `len = size` -/
def takeBytesBuf (size : Nat) (src : List Bytes) : Buf :=
  (takeLoop size src (Buf.withCapacity (min size Gen.takeBytesPreallocCap))).1

def takeBytesOk (size : Nat) (src : List Bytes) : Bool := (takeBytesBuf size src).len == size

def takeBytesSteps (size : Nat) (src : List Bytes) : Nat :=
  (takeLoop size src (Buf.withCapacity (min size Gen.takeBytesPreallocCap))).2.2

/-- a packet body parser that is a sequence of length-prefixed fields (MPIs, salts, fingerprints,
notation names, S2K blobs, …): one `take_bytes` per declared size over the same source, stopping at
the first field that is not fully present; returns the buffers allocated -/
def takeSeq : List Nat → List Bytes → List Buf
  | [], _ => []
  | s :: ss, src =>
    let r := takeLoop s src (Buf.withCapacity (min s Gen.takeBytesPreallocCap))
    r.1 :: (if r.1.len = s then takeSeq ss r.2.1 else [])

/-! ## 3. `rest` (`Vec::new()` + `read_to_end`) -/

/-- std `default_read_to_end` contract: when the vector is full it reserves at least 32 more bytes
(amortised), then reads into the spare capacity; `rem` = bytes the source still holds -/
def readToEnd : Nat → Nat → Buf → Buf
  | 0, _, b => b
  | fuel + 1, rem, b =>
    if rem = 0 then b
    else
      let b1 : Buf := if b.len = b.cap then
          let c := growAmortized vecMinCapU8 b.cap b.len 32
          ⟨c, b.len, b.allocs ++ [c]⟩
        else b
      let n := min rem (b1.cap - b1.len)
      readToEnd fuel (rem - n) { b1 with len := b1.len + n }

/-- `rest()` on a source holding `n` bytes -/
def restBuf (n : Nat) : Buf := readToEnd (n + 1) n (Buf.withCapacity 0)

/-! ## 4. MPI -/

inductive MpiRes where
  | tooLarge
  | eof
  | ok (len : Nat)
deriving Repr, DecidableEq

/-- `Mpi::try_from_reader` after the two length octets: `bits` declared, `src` what follows
(stored length given for a body without leading zero octets) -/
def mpiRead (bits : Nat) (src : List Bytes) : MpiRes × Buf :=
  if Gen.maxExternMpiBits < bits then (.tooLarge, Buf.withCapacity 0)
  else
    let n := (bits + Gen.mpiRoundAdd) / 2 ^ Gen.mpiRoundShift
    let b := takeBytesBuf n src
    (if b.len = n then .ok n else .eof, b)

/-! ## 5. subpacket areas -/

/-- `SubpacketLength::try_from_reader`: decoded length and the rest -/
def subLen : Bytes → Option (Nat × Bytes)
  | [] => none
  | o :: r =>
    if o.toNat ≤ Gen.subLenOneOctetMax then some (o.toNat, r)
    else if o.toNat ≤ Gen.subLenTwoOctetMax then
      match r with
      | [] => none
      | a :: r' => some ((o.toNat - Gen.subLenTwoOctetSub) * 256 + Gen.subLenTwoOctetAdd + a.toNat, r')
    else if r.length < 4 then none
    else some (beNat (r.take 4), r.drop 4)

/-- `Vec::<Subpacket>::push` capacity step (`MIN_NON_ZERO_CAP` = 4 for elements of 2..1024 bytes) -/
def vecPushCap (cap len : Nat) : Nat := if len < cap then cap else growAmortized 4 cap len 1

/-- the `while i.has_remaining()` loop of `subpackets` over the bytes actually present in the area:
`some (count, capacity)` or `none` (truncated length, zero length, missing type octet, body shorter
than declared).  Subpacket *bodies* are not validated here (exact for types whose body is opaque). -/
def subpacketsLoop : Nat → Bytes → Nat → Nat → Option (Nat × Nat)
  | 0, _, _, _ => none
  | fuel + 1, area, cap, n =>
    if area = [] then some (n, cap)
    else
      match subLen area with
      | none => none
      | some (l, r) =>
        if l = 0 then none
        else
          match r with
          | [] => none
          | _ :: r' =>
            if r'.length < l - 1 then none
            else subpacketsLoop fuel (r'.drop (l - 1)) (vecPushCap cap n) (n + 1)

/-- `subpackets(_, declared, area)`: the vector starts at `min(declared, 32)` -/
def subpacketsShape (declared : Nat) (area : Bytes) : Option (Nat × Nat) :=
  subpacketsLoop (area.length + 1) area (min declared Gen.subpacketVecCapLimit) 0

/-! ## 6. embedded signatures: bytes copied and recursion depth -/

def isEmbedded (t : UInt8) : Bool := t.toNat % 2 ^ Gen.subTypeCriticalShift == Gen.subTypeEmbeddedSignature

/-- what the embedded-signature machinery costs while `Signature::try_from_reader_nested(.., depth)`
parses a packet body: bytes copied by `embedded_sig` (`i.rest()`) at all levels, whether the parse
survived the nesting cap (`ok = false`: `embedded_sig` refused a subpacket at `depth = cap`, the whole
parse is aborted and nothing further is copied), and the largest `depth` argument any (transitively)
invoked signature parser ran with -/
structure SigCost where
  copy : Nat
  ok : Bool
  reach : Nat
deriving Repr, DecidableEq

mutual
/-- `Signature::try_from_reader_nested(header, b, depth)` with `MAX_EMBEDDED_SIGNATURE_DEPTH = cap`:
`v4_parser` / `v6_parser` run `subpackets` on the hashed, then on the unhashed area.  Other parse
errors are not modelled (they only stop the parse earlier: the cost is an upper bound in general and
exact on input that is otherwise well formed). -/
def sigCost (cap : Nat) : Nat → Nat → Bytes → SigCost
  | 0, depth, _ => ⟨0, true, depth⟩
  | fuel + 1, depth, b =>
    match b with
    | [] => ⟨0, true, depth⟩
    | v :: r =>
      if v.toNat = 4 then
        let r := r.drop 3
        let hl := beNat (r.take 2)
        let r := r.drop 2
        let ul := beNat ((r.drop hl).take 2)
        let c1 := areaCost cap fuel depth (r.take hl)
        if c1.ok then
          let c2 := areaCost cap fuel depth (((r.drop hl).drop 2).take ul)
          ⟨c1.copy + c2.copy, c2.ok, max c1.reach c2.reach⟩
        else c1
      else if v.toNat = 6 then
        let r := r.drop 3
        let hl := beNat (r.take 4)
        let r := r.drop 4
        let ul := beNat ((r.drop hl).take 4)
        let c1 := areaCost cap fuel depth (r.take hl)
        if c1.ok then
          let c2 := areaCost cap fuel depth (((r.drop hl).drop 4).take ul)
          ⟨c1.copy + c2.copy, c2.ok, max c1.reach c2.reach⟩
        else c1
      else ⟨0, true, depth⟩
/-- `subpackets(.., depth)` over one area: an Embedded Signature subpacket is refused by
`embedded_sig` when `depth ≥ cap` (before anything is copied); otherwise its body is copied and
parsed at `depth + 1` -/
def areaCost (cap : Nat) : Nat → Nat → Bytes → SigCost
  | 0, depth, _ => ⟨0, true, depth⟩
  | fuel + 1, depth, a =>
    match subLen a with
    | none => ⟨0, true, depth⟩
    | some (l, r) =>
      if l = 0 then ⟨0, true, depth⟩
      else
        match r with
        | [] => ⟨0, true, depth⟩
        | t :: r' =>
          let body := r'.take (l - 1)
          if isEmbedded t then
            if cap ≤ depth then ⟨0, false, depth⟩
            else
              let c1 := sigCost cap fuel (depth + 1) body
              if c1.ok then
                let c2 := areaCost cap fuel depth (r'.drop (l - 1))
                ⟨body.length + c1.copy + c2.copy, c2.ok, max c1.reach c2.reach⟩
              else ⟨body.length + c1.copy, false, c1.reach⟩
          else areaCost cap fuel depth (r'.drop (l - 1))
end

/-- the public entry `Signature::try_from_reader` (depth 0, the extracted cap) -/
def sigCostOf (b : Bytes) : SigCost := sigCost Gen.maxEmbeddedSignatureDepth (b.length + 1) 0 b

/-! ### the code before the nesting cap was introduced (kept as a regression model: D19)

`sigCopyUncapped` / `sigDepthUncapped` are `embedded_sig` WITHOUT `MAX_EMBEDDED_SIGNATURE_DEPTH`:
every level copies and recurses.  Nothing in the driver uses them; `RpgpProps/C19.lean` keeps the
proof that they are quadratic / unbounded on the witness family, i.e. that the cap is what makes
the property hold. -/

mutual
/-- bytes copied by an `embedded_sig` without nesting cap, at all nesting levels -/
def sigCopyUncapped : Nat → Bytes → Nat
  | 0, _ => 0
  | fuel + 1, b =>
    match b with
    | [] => 0
    | v :: r =>
      if v.toNat = 4 then
        let r := r.drop 3
        let hl := beNat (r.take 2)
        let r := r.drop 2
        let ul := beNat ((r.drop hl).take 2)
        areaCopyUncapped fuel (r.take hl) + areaCopyUncapped fuel (((r.drop hl).drop 2).take ul)
      else if v.toNat = 6 then
        let r := r.drop 3
        let hl := beNat (r.take 4)
        let r := r.drop 4
        let ul := beNat ((r.drop hl).take 4)
        areaCopyUncapped fuel (r.take hl) + areaCopyUncapped fuel (((r.drop hl).drop 4).take ul)
      else 0
/-- the same for one subpacket area -/
def areaCopyUncapped : Nat → Bytes → Nat
  | 0, _ => 0
  | fuel + 1, a =>
    match subLen a with
    | none => 0
    | some (l, r) =>
      if l = 0 then 0
      else
        match r with
        | [] => 0
        | t :: r' =>
          let body := r'.take (l - 1)
          (if isEmbedded t then body.length + sigCopyUncapped fuel body else 0) + areaCopyUncapped fuel (r'.drop (l - 1))
end

mutual
/-- nesting depth of embedded signatures = recursion depth of `Signature::try_from_reader` -/
def sigDepthUncapped : Nat → Bytes → Nat
  | 0, _ => 0
  | fuel + 1, b =>
    match b with
    | [] => 0
    | v :: r =>
      if v.toNat = 4 then
        let r := r.drop 3
        let hl := beNat (r.take 2)
        let r := r.drop 2
        let ul := beNat ((r.drop hl).take 2)
        max (areaDepthUncapped fuel (r.take hl)) (areaDepthUncapped fuel (((r.drop hl).drop 2).take ul))
      else if v.toNat = 6 then
        let r := r.drop 3
        let hl := beNat (r.take 4)
        let r := r.drop 4
        let ul := beNat ((r.drop hl).take 4)
        max (areaDepthUncapped fuel (r.take hl)) (areaDepthUncapped fuel (((r.drop hl).drop 4).take ul))
      else 0
def areaDepthUncapped : Nat → Bytes → Nat
  | 0, _ => 0
  | fuel + 1, a =>
    match subLen a with
    | none => 0
    | some (l, r) =>
      if l = 0 then 0
      else
        match r with
        | [] => 0
        | t :: r' =>
          let body := r'.take (l - 1)
          max (if isEmbedded t then 1 + sigDepthUncapped fuel body else 0) (areaDepthUncapped fuel (r'.drop (l - 1)))
end

/-- total copy volume / depth of a signature packet body -/
def sigCopyUncappedOf (b : Bytes) : Nat := sigCopyUncapped (b.length + 1) b
def sigDepthUncappedOf (b : Bytes) : Nat := sigDepthUncapped (b.length + 1) b

/-! ### the witness family -/

def nestTail4 : Bytes := [0xAB, 0xCD, 0, 8, 0xFF]
def nestTail6 : Bytes := [0xAB, 0xCD, 16] ++ List.replicate 16 0x5A ++ [0, 8, 0xFF]

/-- innermost signature: RSA, SHA-256, both areas empty -/
def nestBase (ver : Nat) : Bytes :=
  if ver = 4 then [4, 0, 1, 8, 0, 0, 0, 0] ++ nestTail4
  else [6, 0, 1, 8, 0, 0, 0, 0, 0, 0, 0, 0] ++ nestTail6

/-- a signature whose unhashed area is exactly one Embedded Signature subpacket (5-octet length
form) holding `s` -/
def nestWrap (ver : Nat) (s : Bytes) : Bytes :=
  if ver = 4 then
    [4, 0, 1, 8, 0, 0] ++ be16 (s.length + 6) ++ [255] ++ be32 (s.length + 1) ++ [32] ++ s ++ nestTail4
  else
    [6, 0, 1, 8, 0, 0, 0, 0] ++ be32 (s.length + 6) ++ [255] ++ be32 (s.length + 1) ++ [32] ++ s ++ nestTail6

def nestSig (ver : Nat) : Nat → Bytes
  | 0 => nestBase ver
  | d + 1 => nestWrap ver (nestSig ver d)

/-- length of `nestSig ver d` (closed form, proved in `RpgpProofs/Resource.lean`) -/
def nestLen (ver d : Nat) : Nat := if ver = 4 then 13 + 19 * d else 34 + 40 * d

/-- bytes copied while parsing `nestSig ver d` (closed form of `sigCopyUncappedOf (nestSig ver d)`, proved in
`RpgpProofs/Resource.lean`): level `i` copies the whole of `nestSig ver i` -/
def nestCopyClosed (ver d : Nat) : Nat :=
  if ver = 4 then 13 * d + 19 * (d * (d - 1) / 2) else 34 * d + 40 * (d * (d - 1) / 2)

/-- bytes copied while `sigCost cap` parses `nestSig ver d` when `k` more levels may still be
entered: the `k` outermost embedded signatures `nestSig ver (d-1)`, …, `nestSig ver (d-k)` -/
def nestCopyCapped (ver : Nat) : Nat → Nat → Nat
  | 0, _ => 0
  | _ + 1, 0 => 0
  | d + 1, k + 1 => nestLen ver d + nestCopyCapped ver d k

/-! ## 7. `read_from_buf` (armor header / footer accumulation) -/

/-- verdict of the nom parser on a buffer: needs more, done with `rem` unparsed trailing bytes, or
a hard error -/
inductive PRes where
  | incomplete
  | done (rem : Nat)
  | fail
deriving Repr, DecidableEq

inductive RfbRes where
  | ok
  | tooLarge      -- "input too large"
  | eof           -- "not enough bytes in buffer"
  | failed        -- parser error
  | inconsistent  -- "less data parsed than expected"
deriving Repr, DecidableEq

structure RfbOut where
  res : RfbRes
  /-- bytes consumed from the source -/
  consumed : Nat
  /-- longest back buffer held -/
  maxBack : Nat
  /-- total bytes handed to the parser (each refill re-parses the whole back buffer) -/
  work : Nat
  /-- loop iterations -/
  steps : Nat
deriving Repr, DecidableEq

/-- the `loop` of `read_from_buf`; `back` is the back buffer, `o` the running totals -/
def rfbLoop (P : Bytes → PRes) (limit : Nat) : List Bytes → Bytes → RfbOut → RfbOut
  | [], back, o => if limit ≤ back.length then { o with res := .tooLarge } else { o with res := .eof }
  | c :: cs, back, o =>
    if limit ≤ back.length then { o with res := .tooLarge }
    else if c = [] then { o with res := .eof }
    else
      let back' := back ++ c
      let o' : RfbOut := { o with maxBack := max o.maxBack back'.length, work := o.work + back'.length, steps := o.steps + 1 }
      match P back' with
      | .done rem =>
        if c.length < rem then { o' with res := .inconsistent }
        else { o' with res := .ok, consumed := o.consumed + (c.length - rem) }
      | .incomplete => rfbLoop P limit cs back' { o' with consumed := o.consumed + c.length }
      | .fail => { o' with res := .failed }

/-- `read_from_buf(b, ctx, limit, parser)` over the successive `fill_buf` results -/
def readFromBuf (P : Bytes → PRes) (limit : Nat) : List Bytes → RfbOut
  | [] => ⟨.eof, 0, 0, 0, 0⟩
  | c :: cs =>
    if c = [] then ⟨.eof, 0, 0, 0, 0⟩
    else
      match P c with
      | .done rem => ⟨.ok, c.length - rem, 0, c.length, 0⟩
      | .fail => ⟨.failed, 0, 0, c.length, 0⟩
      | .incomplete => rfbLoop P limit cs c ⟨.ok, c.length, c.length, c.length, 0⟩

/-! ## 8. `fill_buffer_bytes` and the refill-when-empty readers -/

/-- `util::fill_buffer_bytes(source, buffer, len)`: append from the source until the buffer holds
`len` bytes or the source is at its end -/
def fillBufferBytes (len : Nat) : List Bytes → Bytes → Bytes × List Bytes
  | [], buf => (buf, [])
  | c :: cs, buf =>
    if len ≤ buf.length then (buf, c :: cs)
    else if c = [] then (buf, c :: cs)
    else if len - buf.length < c.length then (buf ++ c.take (len - buf.length), c.drop (len - buf.length) :: cs)
    else fillBufferBytes len cs (buf ++ c)

/-- state of a reader of the shape `if buffer.has_remaining() { return }; fill_buffer_bytes(source,
buffer, B)` (`PacketBodyReader`, `LiteralDataReader`, `CompressedDataReader`, `SignatureManyReader`) -/
structure Refill where
  buffer : Bytes
  src : List Bytes
deriving Repr

/-- what can happen to such a reader: the consumer takes `k` bytes (`consume`/`read`), or the reader
is asked to fill -/
inductive RefillOp where
  | consume (k : Nat)
  | fill

def Refill.step (B : Nat) (s : Refill) : RefillOp → Refill
  | .consume k => { s with buffer := s.buffer.drop k }
  | .fill =>
    if s.buffer ≠ [] then s
    else
      let (buf, src') := fillBufferBytes B s.src s.buffer
      ⟨buf, src'⟩

/-! ## 9. decryptor state machines, instrumented with the buffer they hold -/

/-- `seipd2Dec` (Seipd.lean) returning in addition the content of `buffer` at each refill -/
def seipd2DecI (A : Aead) (info : Bytes) (cs T k : Nat) :
    Nat → Bytes → Nat → Nat → Bytes → List Bytes × Bool × List Bytes
  | 0, _, _, _, _ => ([], false, [])
  | fuel + 1, enc, idx, written, src =>
    let window := k * (cs + T)
    let toRead := window - enc.length
    let got := src.take toRead
    let buf := enc ++ got
    if got.length < toRead then
      if buf.length < T then ([], false, [buf])
      else
        match decLast A info cs T buf idx written with
        | some p => ([p], true, [buf])
        | none => ([], false, [buf])
    else
      let e := min (cs + T) buf.length
      match A.aeadDec idx info (buf.take e) with
      | none => ([], false, [buf])
      | some p =>
        let (bl, ok, bs) := seipd2DecI A info cs T k fuel (buf.drop e) (idx + 1) (written + p.length) (src.drop toRead)
        (p :: bl, ok, buf :: bs)

/-- `seipd1Rounds` (Seipd.lean) returning in addition the content of `buffer` at each refill -/
def seipd1RoundsI (sha1 : Bytes → Bytes) (pre : Bytes) (B : Nat) :
    Nat → Bytes → Bytes → Bytes → List Bytes × Bool × List Bytes
  | 0, _, _, _ => ([], false, [])
  | fuel + 1, held, hashed, src =>
    let toRead := B - held.length
    let got := src.take toRead
    let buf := held ++ got
    if buf.length < Gen.mdcLen then ([], false, [buf])
    else
      let avail := buf.take (buf.length - Gen.mdcLen)
      let mdc := buf.drop (buf.length - Gen.mdcLen)
      if got.length < toRead then
        if mdcOk sha1 pre (hashed ++ avail) mdc then ([avail], true, [buf]) else ([], false, [buf])
      else
        let (bl, ok, bs) := seipd1RoundsI sha1 pre B fuel mdc (hashed ++ avail) (src.drop toRead)
        (avail :: bl, ok, buf :: bs)

/-- bytes `fill_buffer_bytes(source, buffer, max_message_size)` leaves in the CheckFirst buffer -/
def checkFirstBuffered (max : Nat) (data : Bytes) : Bytes := data.take max

/-! ## 10. S2K -/

/-- `(p as f32).log2().ceil() as u8` (0 for p = 0: the cast of -inf saturates) -/
def ceilLog2 (p : Nat) : Nat :=
  ((List.range 9).filter (fun k => decide (p ≤ 2 ^ k))).headD 8

/-- `derive_key` for `StringToKey::Argon2 { t, p, m_enc }`: the three `ensure!`s of the crate, then
`argon2::Params::new(m, t, p, Some(key_size))` (documented contract of the argon2 crate / RFC 9106:
1 ≤ t, 1 ≤ p, 8·p ≤ m) -/
def argon2Admit (t p m : Nat) : Bool :=
  decide (t ≤ Gen.argon2MaxT) && decide (p ≤ Gen.argon2MaxP) &&
  decide (ceilLog2 p ≤ m) && decide (m ≤ Gen.argon2MaxMEnc) &&
  decide (2 ^ m ≤ Gen.argon2MemoryLimitKib) &&
  decide (1 ≤ t) && decide (1 ≤ p) && decide (8 * p ≤ 2 ^ m)

/-- `decode_count`: `(16 + (c & 15)) << ((c >> 4) + EXPBIAS)` -/
def decodeCount (c : Nat) : Nat := (16 + c % 16) * 2 ^ (c / 16 + Gen.s2kExpbias)

/-- the hashing loop of the iterated S2K for one round: bytes fed to the hash after the zero
prefix (`count` starts at `max(decode_count(c), data_size)`) and number of `update` rounds -/
def iterLoop (ds : Nat) : Nat → Nat → Nat × Nat
  | 0, _ => (0, 0)
  | fuel + 1, count =>
    if ds < count then
      let (b, k) := iterLoop ds fuel (count - ds)
      (ds + b, k + 1)
    else (count, 1)

def iterHashed (c ds : Nat) : Nat × Nat :=
  let count := max (decodeCount c) ds
  iterLoop ds (count + 1) count

/-! ## 9. `SignatureManyReader`: one hasher per signature packet

`reader/signed_many.rs`: the reader holds one `Option<hasher>` per One-Pass Signature (or prefixed
signature) packet of the message and feeds every buffer of the data to every one of them. -/

/-- octets each hasher has seen after the buffers `chunks` (lengths) went through `fill_inner` -/
def feedHashers (hashers : List Nat) (chunks : List Nat) : List Nat :=
  chunks.foldl (fun hs c => hs.map (· + c)) hashers

/-- total hashing work of reading a message with `n` signature packets -/
def sigHashWork (n : Nat) (chunks : List Nat) : Nat := (feedHashers (List.replicate n 0) chunks).sum

/-- octets of a message with `n` one-pass signatures: `n` OPS packets, the data, `n` signature packets -/
def opsMessageSize (n opsLen sigLen dataLen : Nat) : Nat := n * opsLen + dataLen + n * sigLen

/-! ## 10. ignored packets behind a message — `Message::check_trailing_data`

The body of a trailing Padding / Marker / unassigned non-critical / experimental packet arrives in
reads of some lengths; before repair D19e they were appended to a `Vec` (`read_to_end`), now they go
through the fixed buffer of `drain`. -/

/-- octets held after each read when everything is collected -/
def heldCollected : List Nat → List Nat
  | [] => []
  | c :: cs => c :: (heldCollected cs).map (· + c)

/-- octets held after each read of `drain`: one buffer, reused -/
def heldDrained (reads : List Nat) : List Nat := reads.map (min Gen.drainChunk)

/-- the way the tree does it (the translator reports which) -/
def heldTrailing (reads : List Nat) : List Nat :=
  if Gen.fixD19eTrailingPacketsDrained = 1 then heldDrained reads else heldCollected reads

end Rpgp.Resource
