import RpgpModel.Kdf
import RpgpProofs.S2k
/-!
# Proofs about `RpgpModel/Kdf.lean` (helper lemmas for `RpgpProps/C12.lean`)
-/
namespace Rpgp.Sym
open Rpgp
open Ecdh

theorem pad_eq (x : Bytes) :
    pad x = x ++ List.replicate (8 - x.length % 8) (8 - x.length % 8).toUInt8 := by
  have e1 : Gen.ecdhPadBlock = 8 := rfl
  have e2 : Gen.ecdhPadAdd = 8 := rfl
  unfold pad
  simp only [e1, e2]
  have h := Nat.mod_lt x.length (by decide : 0 < 8)
  have hle := Nat.mod_le x.length 8
  have : x.length + 8 - x.length % 8 - x.length = 8 - x.length % 8 := by omega
  rw [this]

theorem pad_length (x : Bytes) :
    (pad x).length % 8 = 0 ∧ x.length < (pad x).length ∧ (pad x).length ≤ x.length + 8 := by
  rw [pad_eq]
  simp only [List.length_append, List.length_replicate]
  have h := Nat.mod_lt x.length (by decide : 0 < 8)
  have := Nat.div_add_mod x.length 8
  omega

theorem toUInt8_toNat_small (n : Nat) (h : n < 256) : n.toUInt8.toNat = n := by
  simp [Nat.toUInt8]; omega

theorem getLastD_append_replicate (x : Bytes) (k : Nat) (b : Byte) (hk : 0 < k) :
    (x ++ List.replicate k b).getLastD 0 = b := by
  obtain ⟨j, rfl⟩ : ∃ j, k = j + 1 := ⟨k - 1, by omega⟩
  rw [List.replicate_succ', ← List.append_assoc, List.getLastD_eq_getLast?]
  simp

/-- unpadding undoes padding, for every non-empty key of every length -/
theorem unpad_pad (x : Bytes) (hx : x ≠ []) : unpad (pad x) = some x := by
  have e1 : Gen.ecdhUnpadBlock = 8 := rfl
  obtain ⟨h8, hlt, hle⟩ := pad_length x
  have hk : 0 < 8 - x.length % 8 := by have := Nat.mod_lt x.length (by decide : 0 < 8); omega
  have hk8 : 8 - x.length % 8 ≤ 8 := by omega
  have hlast : (pad x).getLastD 0 = (8 - x.length % 8).toUInt8 := by
    rw [pad_eq]; exact getLastD_append_replicate x _ _ hk
  have hlen : (pad x).length = x.length + (8 - x.length % 8) := by rw [pad_eq]; simp
  unfold unpad
  rw [e1]
  have hne : pad x ≠ [] := by intro h; rw [h] at hlt; simp at hlt
  simp only [h8, hne, hlast, toUInt8_toNat_small _ (by omega : 8 - x.length % 8 < 256)]
  simp only [ne_eq, not_true_eq_false, if_false]
  rw [if_neg (by omega)]
  have hsub : (pad x).length - (8 - x.length % 8) = x.length := by omega
  rw [hsub]
  have hd : (pad x).drop x.length = List.replicate (8 - x.length % 8) (8 - x.length % 8).toUInt8 := by
    rw [pad_eq, List.drop_left]
  have ht : (pad x).take x.length = x := by rw [pad_eq, List.take_left]
  rw [hd, ht]
  simp [hx]

theorem all_eq_replicate (l : Bytes) (b : Byte) (h : l.any (fun x => x ≠ b) = false) :
    l = List.replicate l.length b := by
  induction l with
  | nil => rfl
  | cons a r ih =>
    simp only [List.any_cons, Bool.or_eq_false_iff, decide_eq_false_iff_not, ne_eq, Decidable.not_not] at h
    simp only [List.length_cons, List.replicate_succ]
    rw [← ih h.2, h.1]

/-- what the reader strips is `k ≥ 1` octets of value `k`, `k` being the last octet -/
theorem unpad_sound (d x : Bytes) (h : unpad d = some x) :
    d.length % 8 = 0 ∧ x ≠ [] ∧ 1 ≤ (d.getLastD 0).toNat ∧
      d = x ++ List.replicate (d.getLastD 0).toNat (d.getLastD 0) := by
  have e1 : Gen.ecdhUnpadBlock = 8 := rfl
  unfold unpad at h
  rw [e1] at h
  generalize d.getLastD 0 = p at h ⊢
  by_cases c1 : d.length % 8 ≠ 0
  · rw [if_pos c1] at h; cases h
  · rw [if_neg c1] at h
    by_cases c2 : d = []
    · rw [if_pos c2] at h; cases h
    · rw [if_neg c2] at h
      by_cases c3 : p.toNat = 0 ∨ p.toNat > d.length
      · rw [if_pos c3] at h; cases h
      · rw [if_neg c3] at h
        by_cases c4 : (d.drop (d.length - p.toNat)).any (fun b => b ≠ p) = true
        · rw [if_pos c4] at h; cases h
        · rw [if_neg c4] at h
          by_cases c5 : d.take (d.length - p.toNat) = []
          · rw [if_pos c5] at h; cases h
          · rw [if_neg c5] at h
            injection h with hx
            refine ⟨by omega, by rw [← hx]; exact c5, by omega, ?_⟩
            have hrep := all_eq_replicate (d.drop (d.length - p.toNat)) p (by
              cases hb : (d.drop (d.length - p.toNat)).any (fun b => decide (b ≠ p))
              · rfl
              · exact absurd hb c4)
            rw [List.length_drop] at hrep
            have hk : d.length - (d.length - p.toNat) = p.toNat := by omega
            rw [hk] at hrep
            rw [← hx, ← hrep, List.take_append_drop]

/-- a padding octet of value 0 is refused -/
theorem unpad_zero_pad_refused (d : Bytes) (h0 : d.getLastD 0 = 0) : unpad d = none := by
  cases h : unpad d with
  | none => rfl
  | some x =>
    have := (unpad_sound d x h).2.2.1
    rw [h0] at this
    simp at this

theorem sum16_fold (bs : Bytes) : ∀ acc, acc < 65536 →
    bs.foldl (fun a b => (a + b.toNat) % 65536) acc = (acc + (bs.map UInt8.toNat).sum) % 65536 := by
  induction bs with
  | nil => intro acc h; simp; omega
  | cons a r ih =>
    intro acc h
    simp only [List.foldl_cons, List.map_cons, List.sum_cons]
    rw [ih _ (Nat.mod_lt _ (by decide))]
    omega

/-- the two-octet checksum is the sum of the octets modulo 65536 -/
theorem sum16_eq (bs : Bytes) : sum16 bs = (bs.map UInt8.toNat).sum % 65536 := by
  have e : Gen.sum16Mask + 1 = 65536 := rfl
  unfold sum16
  rw [e, sum16_fold bs 0 (by decide), Nat.zero_add]

theorem plain_fold (c : Bytes) : ∀ s, c.foldl (fun s b => s + b.toNat) s = s + (c.map UInt8.toNat).sum := by
  induction c with
  | nil => intro s; simp
  | cons a r ih => intro s; simp only [List.foldl_cons, List.map_cons, List.sum_cons, ih]; omega

theorem sum16Chunks_fold (cs : List Bytes) : ∀ acc, acc < 65536 →
    cs.foldl (fun acc c => (acc + (c.foldl (fun s b => s + b.toNat) 0)) % 65536) acc =
      (acc + (cs.flatten.map UInt8.toNat).sum) % 65536 := by
  induction cs with
  | nil => intro acc h; simp; omega
  | cons c r ih =>
    intro acc h
    simp only [List.foldl_cons, List.flatten_cons, List.map_append, List.sum_append]
    rw [ih _ (Nat.mod_lt _ (by decide)), plain_fold, Nat.zero_add]
    omega

/-- feeding the checksum in pieces gives the checksum of the concatenation -/
theorem sum16Chunks_eq (cs : List Bytes) : sum16Chunks cs = sum16 cs.flatten := by
  have e : Gen.sum16Mask + 1 = 65536 := rfl
  rw [sum16_eq]
  unfold sum16Chunks
  rw [e, sum16Chunks_fold cs 0 (by decide), Nat.zero_add]

theorem param_length (oid : Bytes) (sym hash : Nat) (fp : Bytes) :
    (Ecdh.param oid sym hash fp).length = 1 + oid.length + 1 + 4 + 20 + fp.length := by
  simp [Ecdh.param, Gen.anonSender]
  omega

/-- ASCII "OpenPGP X25519" -/
theorem x25519_info_bytes : X25519.info = [79, 112, 101, 110, 80, 71, 80, 32, 88, 50, 53, 53, 49, 57] := by decide
/-- ASCII "OpenPGP X448" -/
theorem x448_info_bytes : X448.info = [79, 112, 101, 110, 80, 71, 80, 32, 88, 52, 52, 56] := by decide
/-- ASCII "Anonymous Sender    " (20 octets) -/
theorem anon_sender_bytes : Gen.anonSender.map Nat.toUInt8 = [65, 110, 111, 110, 121, 109, 111, 117, 115, 32, 83, 101, 110, 100, 101, 114, 32, 32, 32, 32] := by decide

theorem Ecdh.kekPlan_eval (P : Prims) (hash : Nat) (z : Bytes) (len : Nat) (par : Bytes) :
    (Ecdh.kekPlan hash z len par).map (PExpr.eval P) = Ecdh.kdf P hash z len par := by
  unfold Ecdh.kekPlan Ecdh.kdf
  cases S2k.digestSize hash <;> simp [PExpr.eval]


theorem Ecdh.wrapPlan_eval (P : Prims) (oid : Bytes) (hash sym : Nat) (fp z plain : Bytes)
    (hk : ∀ k, Ecdh.kdf P hash z (Gen.c12SymKeySize sym) (Ecdh.param oid sym hash fp) = some k → Ecdh.kekOk k = true) :
    (Ecdh.wrapPlan true oid hash sym fp z plain).map (PExpr.eval P) = Ecdh.wrap P oid hash sym fp z plain := by
  unfold Ecdh.wrapPlan Ecdh.wrap
  rw [← Ecdh.kekPlan_eval] at *
  cases h1 : decide (plain.length > Gen.ecdhMaxPlain) <;> cases h2 : Ecdh.weakKdfHash hash <;>
    cases h3 : Ecdh.kekPlan hash z (Gen.c12SymKeySize sym) (Ecdh.param oid sym hash fp) <;>
    simp_all [PExpr.eval, bind, Option.bind, pure]

end Rpgp.Sym
