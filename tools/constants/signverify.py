# ---- signature digest framing / sign- and verify-side sites (C06) -----------------------------
item("sigTypeBinary", "src/packet/signature/types.rs", r"pub enum SignatureType \{.*?Binary = (0x[0-9A-Fa-f]+),",
     "signature/types.rs SignatureType::Binary")
item("sigTypeText", "src/packet/signature/types.rs", r"pub enum SignatureType \{.*?Text = (0x[0-9A-Fa-f]+),",
     "signature/types.rs SignatureType::Text")
item("sigTrailerMarker", "src/packet/signature/config.rs",
     r"let mut trailer = vec!\[self\.version\(\)\.into\(\), (0x[0-9A-Fa-f]+), 0, 0, 0, 0\];",
     "signature/config.rs trailer(): second octet")
item("sigTrailerLenOffset", "src/packet/signature/config.rs",
     r"BigEndian::write_u32\(&mut trailer\[(\d+)\.\.\], len\.try_into\(\)\?\);",
     "signature/config.rs trailer(): offset of the 4-octet length")
# certification prefix octets: one item per use site (sign side config.rs, verify side types.rs)
item("certPrefixUidSign", "src/packet/signature/config.rs", r"Tag::UserId => (0x[0-9A-Fa-f]+),",
     "signature/config.rs sign_certification_third_party: User ID prefix")
item("certPrefixAttrSign", "src/packet/signature/config.rs", r"Tag::UserAttribute => (0x[0-9A-Fa-f]+),",
     "signature/config.rs sign_certification_third_party: User Attribute prefix")
item("certPrefixUidVerify", "src/packet/signature/types.rs", r"Tag::UserId => (0x[0-9A-Fa-f]+),",
     "signature/types.rs verify_third_party_certification: User ID prefix")
item("certPrefixAttrVerify", "src/packet/signature/types.rs", r"Tag::UserAttribute => (0x[0-9A-Fa-f]+),",
     "signature/types.rs verify_third_party_certification: User Attribute prefix")
item("keyFrameV4", "src/packet/signature/types.rs",
     r"fn serialize_for_hashing.*?KeyVersion::V4 => \{.*?writer\.write_u8\((0x[0-9A-Fa-f]+)\)\?;",
     "signature/types.rs serialize_for_hashing: v4 key prefix octet")
item("keyFrameV6", "src/packet/signature/types.rs",
     r"fn serialize_for_hashing.*?KeyVersion::V6 => \{.*?writer\.write_u8\((0x[0-9A-Fa-f]+)\)\?;",
     "signature/types.rs serialize_for_hashing: v6 key prefix octet")
item("signedManyBufferSize", "src/composed/message/reader/signed_many.rs", r"const BUFFER_SIZE: usize = ([^;]+);",
     "reader/signed_many.rs BUFFER_SIZE (inline verification hashes the body in reads of this size)")
