import RpgpModel.Bytes
import RpgpModel.Gen.Constants
/-!
# Seipd — SEIPDv2 (chunked AEAD) and SEIPDv1 (CFB + MDC) stream structure over abstract primitives

The primitives are *parameters*: `Aead` (seal/open under the message key, the nonce being
`iv ‖ be64 index`), `sha1`, and for v1 the CFB decryption is applied outside the model (the model
works on the decrypted stream).  Nothing here computes AES or SHA.

* `seipd2Encrypt`  `crypto/aead/encryptor.rs  StreamEncryptor` (fill_buffer of `cs` bytes per
                   chunk, sealed under index `i` with AD `info`; on the 0-byte read the final tag
                   over `info ‖ be64 total` under index `n`)
* `seipd2Dec`      `crypto/aead/decryptor.rs  StreamDecryptor::{fill_inner,decrypt,decrypt_last}`
                   (window of `k·(cs+T)` bytes, one chunk decrypted per refill, `decrypt_last`
                   when the source ends)
* `seipd1CheckFirst`, `seipd1Streaming`
                   `crypto/sym/decryptor.rs  StreamDecryptorInner` (prefix `bs+2`, 22-byte MDC
                   hold-back, `finalize_data`)
-/
namespace Rpgp

/-- `aeadEnc index ad plaintext` (seal), `aeadDec index ad ciphertext` (open); key and iv fixed -/
structure Aead where
  aeadEnc : Nat → Bytes → Bytes → Bytes
  aeadDec : Nat → Bytes → Bytes → Option Bytes

/-! ## SEIPDv2 encryptor -/

/-- consecutive chunks of `cs` bytes, the last one possibly shorter, never empty -/
def chunksOf (cs : Nat) (pt : Bytes) : List Bytes :=
  if h : cs = 0 ∨ pt = [] then [] else pt.take cs :: chunksOf cs (pt.drop cs)
termination_by pt.length
decreasing_by
  have h1 : cs ≠ 0 := fun e => h (Or.inl e)
  have h2 : pt ≠ [] := fun e => h (Or.inr e)
  have : 0 < pt.length := List.length_pos_iff.mpr h2
  simp only [List.length_drop]; omega

def sealChunks (A : Aead) (info : Bytes) : Nat → List Bytes → List Bytes
  | _, [] => []
  | i, c :: cs => A.aeadEnc i info c :: sealChunks A info (i + 1) cs

/-- the successive blocks the encryptor hands out: sealed chunks, then the final tag -/
def seipd2Blocks (A : Aead) (info : Bytes) (cs : Nat) (pt : Bytes) : List Bytes :=
  sealChunks A info 0 (chunksOf cs pt) ++
    [A.aeadEnc (chunksOf cs pt).length (info ++ be64 pt.length) []]

def seipd2Encrypt (A : Aead) (info : Bytes) (cs : Nat) (pt : Bytes) : Bytes :=
  (seipd2Blocks A info cs pt).flatten

/-! ## SEIPDv2 decryptor -/

/-- the `while self.in_buffer_end > 0 { self.decrypt()? }` loop of `decrypt_last`:
decrypt `body` front to back in pieces of at most `cs + T`; returns plaintext and next index -/
def decRest (A : Aead) (info : Bytes) (cs T : Nat) : Nat → Nat → Bytes → Option (Bytes × Nat)
  | 0, _, _ => none
  | fuel + 1, idx, body =>
    if body = [] then some ([], idx)
    else
      let e := min (cs + T) body.length
      match A.aeadDec idx info (body.take e) with
      | none => none
      | some p =>
        match decRest A info cs T fuel (idx + 1) (body.drop e) with
        | none => none
        | some (ps, idx') => some (p ++ ps, idx')

/-- `decrypt_last`: split off the final tag, decrypt what is left, verify the final tag whose AD
is `info ‖ be64 (total plaintext octets)` -/
def decLast (A : Aead) (info : Bytes) (cs T : Nat) (buf : Bytes) (idx written : Nat) : Option Bytes :=
  let tag := buf.drop (buf.length - T)
  let body := buf.take (buf.length - T)
  match decRest A info cs T (body.length + 1) idx body with
  | none => none
  | some (p, idx') =>
    match A.aeadDec idx' (info ++ be64 (written + p.length)) tag with
    | some _ => some p
    | none => none

/-- The decryptor over a flat ciphertext `src` (its source is read with `fill_buffer_bytes`).
`enc` = still-encrypted bytes kept from the previous round, `k` = window factor (2 in the code).
Returns the plaintext blocks released to the consumer, in order, and whether the stream ended
cleanly (`true`) or with an error (`false`). -/
def seipd2Dec (A : Aead) (info : Bytes) (cs T k : Nat) : Nat → Bytes → Nat → Nat → Bytes → List Bytes × Bool
  | 0, _, _, _, _ => ([], false)
  | fuel + 1, enc, idx, written, src =>
    let window := k * (cs + T)
    let toRead := window - enc.length
    let got := src.take toRead
    let buf := enc ++ got
    if got.length < toRead then
      -- source finished
      if buf.length < T then ([], false)
      else
        match decLast A info cs T buf idx written with
        | some p => ([p], true)
        | none => ([], false)
    else
      let e := min (cs + T) buf.length
      match A.aeadDec idx info (buf.take e) with
      | none => ([], false)
      | some p =>
        let (bl, ok) := seipd2Dec A info cs T k fuel (buf.drop e) (idx + 1) (written + p.length) (src.drop toRead)
        (p :: bl, ok)

/-- everything a consumer reading to the end (or to the first error) obtains -/
def seipd2Decrypt (A : Aead) (info : Bytes) (cs : Nat) (ct : Bytes) : Bytes × Bool :=
  let r := seipd2Dec A info cs Gen.aeadTagSize Gen.aeadWindowFactor (ct.length + 2) [] 0 0 ct
  (r.1.flatten, r.2)

/-! ## SEIPDv1 (on the CFB-decrypted stream `dec`) -/

/-- the comparison in `finalize_data`: tag octet, length octet, SHA-1 over everything before the
digest (`pre` = decrypted prefix, `body` = plaintext) -/
def mdcOk (sha1 : Bytes → Bytes) (pre body mdc : Bytes) : Bool :=
  mdc.head? == some Gen.mdcTagOctet.toUInt8 &&
  (mdc.drop 1).head? == some Gen.mdcLenOctet.toUInt8 &&
  mdc.drop 2 == sha1 (pre ++ body ++ mdc.take 2)

/-- default mode (`Seipdv1ReadMode::CheckFirst { max_message_size }`): `none` = error; nothing is
ever released before the MDC has been checked -/
def seipd1CheckFirst (sha1 : Bytes → Bytes) (bs max : Nat) (dec : Bytes) : Option Bytes :=
  if dec.length < bs + 2 then none
  else
    let pre := dec.take (bs + 2)
    let data := dec.drop (bs + 2)
    if max < data.length then none
    else if data.length < Gen.mdcLen then none
    else
      let body := data.take (data.length - Gen.mdcLen)
      let mdc := data.drop (data.length - Gen.mdcLen)
      if mdcOk sha1 pre body mdc then some body else none

/-- streaming mode rounds: `held` = bytes kept back from the previous round (always `mdcLen`
after the first), `hashed` = plaintext hashed so far; `B` = `BUFFER_SIZE` -/
def seipd1Rounds (sha1 : Bytes → Bytes) (pre : Bytes) (B : Nat) :
    Nat → Bytes → Bytes → Bytes → List Bytes × Bool
  | 0, _, _, _ => ([], false)
  | fuel + 1, held, hashed, src =>
    let toRead := B - held.length
    let got := src.take toRead
    let buf := held ++ got
    if buf.length < Gen.mdcLen then ([], false)
    else
      let avail := buf.take (buf.length - Gen.mdcLen)
      let mdc := buf.drop (buf.length - Gen.mdcLen)
      if got.length < toRead then
        if mdcOk sha1 pre (hashed ++ avail) mdc then ([avail], true) else ([], false)
      else
        let (bl, ok) := seipd1Rounds sha1 pre B fuel mdc (hashed ++ avail) (src.drop toRead)
        (avail :: bl, ok)

def seipd1Streaming (sha1 : Bytes → Bytes) (bs B : Nat) (dec : Bytes) : List Bytes × Bool :=
  if dec.length < bs + 2 then ([], false)
  else seipd1Rounds sha1 (dec.take (bs + 2)) B (dec.length + 2) [] [] (dec.drop (bs + 2))

/-- what the encryptor's CFB plaintext looks like: `prefix ‖ repeat ‖ pt ‖ D3 14 ‖ sha1(…)` -/
def seipd1Plain (sha1 : Bytes → Bytes) (pre pt : Bytes) : Bytes :=
  let hdr := [Gen.mdcTagOctet.toUInt8, Gen.mdcLenOctet.toUInt8]
  pre ++ pt ++ hdr ++ sha1 (pre ++ pt ++ hdr)

end Rpgp
