# ---- C02: signature soundness — guards of the verify entry points ----------------------------
# One item per *use site*.  Signature types are named by enum variants at the verify sites; a
# callable item resolves the names of one `matches!` / `ensure_eq!` through the `SignatureType`
# enum of the same file and encodes the sorted octet list in base 257 as digits octet+1 (most significant first), so
# that a dropped or added variant changes the number.
ST_ = "src/packet/signature/types.rs"
SC_ = "src/packet/signature/config.rs"
MT_ = "src/composed/message/types.rs"
SM_ = "src/composed/message/reader/signed_many.rs"
OP_ = "src/packet/one_pass_signature.rs"
PA_ = "src/crypto/public_key.rs"
SP_ = "src/composed/signed_key/public.rs"
SS_ = "src/composed/signed_key/secret.rs"
US_ = "src/types/user.rs"
SH_ = "src/composed/signed_key/shared.rs"
CT_ = "src/composed/cleartext.rs"
DS_ = "src/composed/signature.rs"


def _fn_body(text, name):
    """text of `fn name` up to the next `\n    pub fn ` / `\n    fn ` / `\n    pub(crate) fn ` at the same indentation"""
    m = re.search(r"\n    (?:pub(?:\(crate\))? )?fn " + re.escape(name) + r"\b", text)
    if not m:
        return None
    rest = text[m.end():]
    n = re.search(r"\n    (?:pub(?:\(crate\))? )?fn \w+", rest)
    return rest[: n.start()] if n else rest


def _enum_table(text, enum):
    m = re.search(r"pub enum " + enum + r" \{(.*?)\n\}", text, re.S)
    if not m:
        return {}
    return {k: int(v, 0) for k, v in re.findall(r"\b(\w+) = (0x[0-9A-Fa-f]+|\d+),", m.group(1))}


def _types_at(fn, which=0):
    """octet list (base-256 encoded) of the SignatureType variants named in the `which`-th type
    guard (`matches!(… typ, A | B)` or `ensure_eq!(config.typ, A, …)`) of `fn`"""
    def f(text):
        body = _fn_body(text, fn)
        if body is None:
            return None
        tab = _enum_table(text, "SignatureType")
        guards = re.findall(r"matches!\(\s*(?:self\.|config\.)?typ,\s*(.*?)\)", body, re.S)
        guards += re.findall(r"ensure_eq!\(\s*config\.typ,\s*(SignatureType::\w+),", body, re.S)
        if len(guards) <= which:
            return None
        names = re.findall(r"SignatureType::(\w+)", guards[which])
        octs = sorted(tab[n] for n in names)
        v = 0
        for o in octs:
            v = v * 257 + (o + 1)
        return v
    return f


item("sndTypesVerifyCert", ST_, _types_at("verify_third_party_certification"), "verify_third_party_certification: accepted signature types (base-257 list of octet+1)")
item("sndTypesVerifySubkeyBinding", ST_, _types_at("verify_subkey_binding"), "verify_subkey_binding: accepted signature types (base-257 list of octet+1)")
item("sndTypesVerifyPrimaryKeyBinding", ST_, _types_at("verify_primary_key_binding"), "verify_primary_key_binding: accepted signature type")
item("sndTypesVerifyKey", ST_, _types_at("verify_key_third_party"), "verify_key_third_party: accepted signature types (base-257 list of octet+1)")
item("sndTypesInline", ST_, _types_at("check_inline_verification_preconditions"), "check_inline_verification_preconditions: accepted signature types (base-257 list of octet+1)")


def _hash_data_types(text):
    """hash_data_to_sign: the arm that copies all data (Text | Binary), base-256"""
    body = _fn_body(text, "hash_data_to_sign") if False else None
    m = re.search(r"pub fn hash_data_to_sign.*?match self\.typ \{(.*?)=> \{\s*let written = std::io::copy", text, re.S)
    if not m:
        return None
    tab = _enum_table(read(ST_) or "", "SignatureType")
    octs = sorted(tab[n] for n in re.findall(r"SignatureType::(\w+)", m.group(1)))
    v = 0
    for o in octs:
        v = v * 257 + (o + 1)
    return v


item("sndTypesHashDataFull", SC_, _hash_data_types, "hash_data_to_sign: types whose whole data is hashed (base-257 list of octet+1)")


def _align(fn, idx):
    """the four version names of the two alignment `if`s of `fn`, resolved through KeyVersion /
    SignatureVersion: idx 0 = key version tested first, 1 = signature version then demanded,
    2 = signature version tested second, 3 = key version then demanded"""
    def f(text):
        body = _fn_body(text, fn)
        if body is None:
            return None
        kv = _enum_table(read("src/types/packet.rs") or "", "KeyVersion")
        sv = _enum_table(text, "SignatureVersion")
        m = re.search(r"if key\.version\(\) == KeyVersion::(\w+) \{\s*ensure_eq!\(\s*config\.version\(\),\s*SignatureVersion::(\w+),"
                      r".*?if config\.version\(\) == SignatureVersion::(\w+) \{\s*ensure_eq!\(\s*key\.version\(\),\s*KeyVersion::(\w+),", body, re.S)
        if not m:
            return None
        return [kv[m.group(1)], sv[m.group(2)], sv[m.group(3)], kv[m.group(4)]][idx]
    return f


for _i, _n in enumerate(["IfKey", "ThenSig", "IfSig", "ThenKey"]):
    item("sndAlign" + _n, ST_, _align("check_signature_key_version_alignment", _i), "check_signature_key_version_alignment: " + _n)
    item("sndAlignInline" + _n, ST_, _align("check_inline_verification_preconditions", _i), "check_inline_verification_preconditions: " + _n)

# the left-16 comparison, one flag per entry point
flag("sndLeft16Data", ST_, r"ensure_eq!\(\s*signed_hash_value,\s*&hash\[0\.\.2\],\s*\"signature: invalid signed hash value\"", "Signature::verify compares signed_hash_value with hash[0..2]")
flag("sndLeft16Cert", ST_, r"ensure_eq!\(\s*signed_hash_value,\s*&hash\[0\.\.2\],\s*\"certification: invalid signed hash value\"", "verify_third_party_certification compares signed_hash_value with hash[0..2]")
flag("sndLeft16SubkeyBinding", ST_, r"ensure_eq!\(\s*signed_hash_value,\s*&hash\[0\.\.2\],\s*\"subkey binding: invalid signed hash value\"", "verify_subkey_binding compares signed_hash_value with hash[0..2]")
flag("sndLeft16PrimaryKeyBinding", ST_, r"ensure_eq!\(\s*signed_hash_value,\s*&hash\[0\.\.2\],\s*\"key binding: invalid signed hash value\"", "verify_primary_key_binding compares signed_hash_value with hash[0..2]")
flag("sndLeft16Key", ST_, r"ensure_eq!\(\s*signed_hash_value,\s*&hash\[0\.\.2\],\s*\"key: invalid signed hash value\"", "verify_key_third_party compares signed_hash_value with hash[0..2]")
flag("sndLeft16Inline", MT_, r"ensure_eq!\(\s*signed_hash_value,\s*&calculated_hash\[0\.\.2\],", "Message::verify_nested_explicit compares signed_hash_value with calculated_hash[0..2]")

# match_identity: which entry points call it
def _calls(fn, pat):
    def f(text):
        body = _fn_body(text, fn)
        if body is None:
            return None
        return 1 if re.search(pat, body, re.S) else 0
    return f


item("sndIdentityData", ST_, _calls("verify", r"Self::match_identity\(self, key\)"), "Signature::verify calls match_identity")
item("sndIdentityCert", ST_, _calls("verify_third_party_certification", r"Self::match_identity\(self, signer\)"), "verify_third_party_certification calls match_identity")
item("sndIdentityKey", ST_, _calls("verify_key_third_party", r"Self::match_identity\(self, signer\)"), "verify_key_third_party calls match_identity")
item("sndIdentitySubkeyBinding", ST_, _calls("verify_subkey_binding", r"match_identity"), "verify_subkey_binding calls match_identity")
item("sndIdentityPrimaryKeyBinding", ST_, _calls("verify_primary_key_binding", r"match_identity"), "verify_primary_key_binding calls match_identity")
item("sndIdentityBothAreasId", SC_, _calls("issuer_key_id", r"self\.hashed_subpackets\(\)\s*\.chain\(self\.unhashed_subpackets\(\)\)"), "issuer_key_id reads hashed and unhashed subpackets")
item("sndIdentityBothAreasFp", SC_, _calls("issuer_fingerprint", r"self\.hashed_subpackets\(\)\s*\.chain\(self\.unhashed_subpackets\(\)\)"), "issuer_fingerprint reads hashed and unhashed subpackets")

# salt-size checks
item("sndSaltCheckVerify", ST_, _calls("verify", r"config\.hash_alg\.salt_len\(\),\s*Some\(salt\.len\(\)\)"), "Signature::verify compares the v6 salt size with the table")
item("sndSaltCheckHsd", SC_, _calls("hash_signature_data", r"self\.hash_alg\.salt_len\(\) == Some\(salt\.len\(\)\)"), "hash_signature_data compares the v6 salt size with the table")
item("sndSaltCheckNewHasher", SM_, lambda t: len(re.findall(r"salt_len\(\),\s*Some\(salt\.len\(\)\)", _fn_body(t, "new_hasher") or "")), "SignaturePacket::new_hasher: number of salt-size comparisons (OPS arm, signature arm)")

# one-pass signature
item("sndOpsV3", OP_, r"OpsVersionSpecific::V3 \{ \.\. \} => (\d+),", "OnePassSignature::version for V3")
item("sndOpsV6", OP_, r"OpsVersionSpecific::V6 \{ \.\. \} => (\d+),", "OnePassSignature::version for V6")
item("sndOpsMatchFields", OP_, lambda t: sum(1 for p in (r"self\.typ != sig_config\.typ", r"self\.hash_algorithm != sig_config\.hash_alg",
                                                         r"self\.pub_algorithm != sig_config\.pub_alg", r"ops_salt != sig_salt")
                                             if re.search(p, _fn_body(t, "matches") or "")), "OnePassSignature::matches: number of compared fields (type, hash, pk, salt)")
item("sndOpsPairV3V4", OP_, _calls("matches", r"\(OpsVersionSpecific::V3 \{ \.\. \}, SignatureVersionSpecific::V4\) => \{\}"), "matches: v3 OPS pairs with v4 signature")
item("sndOpsNoneOnMismatch", SM_, lambda t: 1 if re.search(r"if !ops\.matches\(&signature\) \{.*?hashes\.push\(None\);", t, re.S) else 0, "fill_inner: OPS / signature mismatch leaves the hash slot None")
item("sndInlineNoneIsError", MT_, lambda t: 1 if re.search(r"let Some\(calculated_hash\) = reader\.hash\(index\) else \{\s*bail!", t, re.S) else 0, "verify_nested_explicit: a None hash slot is an error")

# message parser: is the body of a prefixed Signature / OPS packet required to be fully consumed?
item("sndMsgSigExhausted", "src/composed/message/parser.rs",
     lambda t: 1 if len(re.findall(r"try_from_reader\(\s*packet\.packet_header\(\),\s*&mut packet,\s*\)\?;\s*ensure_packet_consumed\(&mut packet\)\?;", t)) >= 2 else 0,
     "message/parser.rs: the prefixed Signature / OPS packet body must be exhausted after parsing")

# hashed area re-serialised for the digest
item("sndHashedReserialised", SC_, _calls("hash_signature_data", r"packet\.to_writer\(&mut hashed_subpackets\)\?"), "hash_signature_data hashes the re-serialisation of the parsed hashed subpackets")

def _top_fn(text, name):
    m = re.search(r"\nfn " + name + r"\b", text)
    if not m:
        return ""
    rest = text[m.end():]
    n = re.search(r"\n(?:pub )?fn \w+", rest)
    return rest[: n.start()] if n else rest


item("sndHashedAreaCanonical", "src/packet/signature/de.rs",
     lambda t: 1 if all(re.search(r"let hsub = subpackets\(.*?\)\?;\s*ensure_hashed_area_canonical\(&hsub, &hsub_raw\)\?;", _top_fn(t, f), re.S) for f in ("v4_parser", "v6_parser"))
                    and re.search(r"written == raw", _top_fn(t, "ensure_hashed_area_canonical")) else 0,
     "signature/de.rs: the v4 and the v6 parser refuse a hashed area that hash_signature_data would write back differently")

# PQC arms of is_pqc that are compiled without the draft-pqc feature
def _pqc_arms(text):
    body = _fn_body(text, "is_pqc")
    if body is None:
        return None
    stripped = re.sub(r"#\[cfg\(feature = \"draft-pqc\"\)\].*?=> true,", "", body, flags=re.S)
    return len(re.findall(r"=> true", stripped))


item("sndPqcArms", PA_, _pqc_arms, "is_pqc: arms returning true that are compiled without the draft-pqc feature")

# certificates
item("sndBacksigPublic", SP_, lambda t: 1 if re.search(r"if sig\.key_flags\(\)\.sign\(\) \{.*?backsig\.verify_primary_key_binding\(&self\.key, key\)\?", t, re.S) else 0, "SignedPublicSubKey::verify_bindings verifies the embedded back-signature of signing subkeys")
item("sndBacksigSecret", SS_, lambda t: 1 if re.search(r"if sig\.key_flags\(\)\.sign\(\) \{.*?backsig\.verify_primary_key_binding\(self\.key\.public_key\(\), key\)\?", t, re.S) else 0, "SignedSecretSubKey::verify_bindings verifies the embedded back-signature of signing subkeys")
item("sndUserNonEmpty", US_, lambda t: len(re.findall(r"ensure!\(!self\.signatures\.is_empty\(\), \"no signatures found\"\)", t)), "types/user.rs: number of verify functions that refuse an empty signature list")
item("sndCleartextViaVerify", CT_, lambda t: 1 if re.search(r"signature\.verify\(key, nt\.as_bytes\(\)\)\.is_ok\(\)", t) else 0, "CleartextSignedMessage::verify goes through Signature::verify over signed_text()")
item("sndDetachedViaVerify", DS_, lambda t: 1 if re.search(r"self\.signature\.verify\(key, content\)", t) else 0, "DetachedSignature::verify goes through Signature::verify")

derived("""
/-- decode a base-257 list of (octet + 1) digits, most significant first -/
def sndDecode (fuel n : Nat) : List Nat :=
  match fuel with
  | 0 => []
  | f + 1 => if n = 0 then [] else sndDecode f (n / 257) ++ [n % 257 - 1]

def sndCertTypes : List Nat := sndDecode 8 sndTypesVerifyCert
def sndSubkeyBindingTypes : List Nat := sndDecode 8 sndTypesVerifySubkeyBinding
def sndPrimaryKeyBindingTypes : List Nat := sndDecode 8 sndTypesVerifyPrimaryKeyBinding
def sndKeyTypes : List Nat := sndDecode 8 sndTypesVerifyKey
def sndInlineTypes : List Nat := sndDecode 8 sndTypesInline
def sndHashDataFullTypes : List Nat := sndDecode 8 sndTypesHashDataFull
""")
