//! Part C — every value of every one-octet field of SEIPDv2 / SKESK / S2K / secret-key parameter
//! encodings, around artifacts the recipient can otherwise process.

use std::io::Read;
use std::time::Instant;

use pgp::armor::Dearmor;
use pgp::composed::{Deserializable, Message, MessageBuilder, SignedSecretKey};
use pgp::crypto::aead::{AeadAlgorithm, ChunkSize};
use pgp::crypto::hash::HashAlgorithm;
use pgp::crypto::sym::SymmetricKeyAlgorithm;
use pgp::packet::PacketParser;
use pgp::ser::Serialize;
use pgp::types::{KeyDetails, KeyVersion, Password, S2kParams, StringToKey};
use rand::{Rng, SeedableRng};
use rand_chacha::ChaCha8Rng;

use super::{guard, no_panic, Ring};
use crate::ctx::{hx, Ctx};

fn s2ks(rng: &mut ChaCha8Rng) -> Vec<(&'static str, StringToKey)> {
    vec![
        ("salted", StringToKey::Salted { hash_alg: HashAlgorithm::Sha256, salt: rng.gen() }),
        ("iterated", StringToKey::IteratedAndSalted { hash_alg: HashAlgorithm::Sha256, salt: rng.gen(), count: 16 }),
        ("argon2", StringToKey::Argon2 { salt: rng.gen(), t: 1, p: 1, m_enc: 6 }),
    ]
}

/// offsets (into the message) of the octets that are swept: everything from the first packet's
/// version octet up to `upto`
fn sweep_message(ctx: &mut Ctx, what: &str, msg: &[u8], upto: usize, pw: &Password, avoid_costly_argon2_at: Option<usize>) {
    let site = "Message::from_bytes -> decrypt_with_password -> read (one-octet field sweep)";
    for off in 2..upto.min(msg.len()) {
        for v in 0..=255u8 {
            if v == msg[off] {
                continue;
            }
            if Some(off) == avoid_costly_argon2_at && (12..=21).contains(&v) {
                ctx.stat("sweep:argon2-m-not-run(cost)");
                continue;
            }
            let mut m = msg.to_vec();
            m[off] = v;
            let t = Instant::now();
            let r = guard(|| {
                let parsed = Message::from_bytes(&m[..])?;
                let mut d = parsed.decrypt_with_password(pw)?;
                let mut out = Vec::new();
                d.read_to_end(&mut out)?;
                Ok::<_, pgp::errors::Error>(out.len())
            });
            no_panic(ctx, site, &format!("{what} offset={off} value={v} password=hunter2 msg={}", hx(&m)), &r, t);
            ctx.stat(&format!("sweep:{what}:{}", super::cls(&r)));
        }
    }
}

fn message_sweeps(ctx: &mut Ctx, rng: &mut ChaCha8Rng) {
    let pw = Password::from("hunter2");
    for (name, s2k) in s2ks(rng) {
        // SKESK v4 + SEIPD v1
        let r = guard(|| {
            let mut b = MessageBuilder::from_bytes("", b"hello".to_vec()).seipd_v1(&mut *rng, SymmetricKeyAlgorithm::AES128);
            b.encrypt_with_password(s2k.clone(), &pw)?;
            b.to_vec(&mut *rng)
        });
        if let Ok(Ok(msg)) = r {
            // SKESK body: version, sym, s2k type, [hash, salt.., count | salt.., t, p, m]
            let skesk_len = msg[1] as usize + 2;
            let m_off = if name == "argon2" { Some(2 + 1 + 1 + 1 + 16 + 2) } else { None };
            sweep_message(ctx, &format!("skesk4-{name}+seipd1"), &msg, skesk_len + 3, &pw, m_off);
        } else {
            ctx.stat(&format!("sweep:cannot-build:skesk4-{name}"));
        }
        // SKESK v6 + SEIPD v2
        let r = guard(|| {
            let mut b = MessageBuilder::from_bytes("", b"hello".to_vec()).seipd_v2(&mut *rng, SymmetricKeyAlgorithm::AES128, AeadAlgorithm::Ocb, ChunkSize::C64B);
            b.encrypt_with_password(&mut *rng, s2k.clone(), &pw)?;
            b.to_vec(&mut *rng)
        });
        if let Ok(Ok(msg)) = r {
            // SKESK v6 body: version, count, sym, aead, s2k-len, s2k.., iv.., esk+tag ; then SEIPD v2: version sym aead cs salt
            let skesk_len = msg[1] as usize + 2;
            let m_off = if name == "argon2" { Some(2 + 5 + 1 + 16 + 2) } else { None };
            sweep_message(ctx, &format!("skesk6-{name}+seipd2"), &msg, skesk_len + 2 + 5, &pw, m_off);
        } else {
            ctx.stat(&format!("sweep:cannot-build:skesk6-{name}"));
        }
    }
}

/// secret key packets: every octet of the S2K usage / parameter / IV region and of the first octets
/// of the protected material
fn secret_key_sweeps(ctx: &mut Ctx, ring: &Ring, rng: &mut ChaCha8Rng) {
    let site = "SignedSecretKey::from_bytes -> unlock / checksum / to_bytes (one-octet field sweep)";
    let pw = Password::from("hunter2");
    for (kname, sk) in ring.keys.iter().filter(|(n, _)| ["ecdh25519", "x25519v6", "rsa"].contains(n)) {
        let version = sk.primary_key.version();
        let mut variants: Vec<(String, S2kParams)> = Vec::new();
        for (sname, s2k) in s2ks(rng) {
            if sname == "argon2" {
                variants.push((format!("aead-{sname}"), S2kParams::Aead { sym_alg: SymmetricKeyAlgorithm::AES128, aead_mode: AeadAlgorithm::Ocb, s2k, nonce: vec![7u8; 15].into() }));
            } else {
                variants.push((format!("cfb-{sname}"), S2kParams::Cfb { sym_alg: SymmetricKeyAlgorithm::AES128, s2k: s2k.clone(), iv: vec![7u8; 16].into() }));
                if version != KeyVersion::V6 {
                    variants.push((format!("malleable-{sname}"), S2kParams::MalleableCfb { sym_alg: SymmetricKeyAlgorithm::AES128, s2k, iv: vec![7u8; 16].into() }));
                }
            }
        }
        if *kname == "rsa" {
            variants.truncate(1);
        }
        for (vname, params) in variants {
            let mut locked = sk.clone();
            if guard(|| locked.primary_key.set_password_with_s2k(&pw, params.clone())).map(|r| r.is_err()).unwrap_or(true) {
                ctx.stat(&format!("sweep:cannot-lock:{kname}:{vname}"));
                continue;
            }
            let Ok(bytes) = locked.to_bytes() else { continue };
            // locate the secret part: public part length = serialized public key packet body
            let Ok(pub_body) = locked.primary_key.public_key().to_bytes() else { continue };
            let first_len = match PacketParser::new(&bytes[..]).next() {
                Some(Ok(p)) => p.to_bytes().map(|b| b.len()).unwrap_or(0),
                _ => 0,
            };
            if first_len == 0 || bytes[0] & 0x40 == 0 {
                continue;
            }
            // new-format header: 1 tag octet + length octets
            let header_len = {
                let l = bytes[1];
                if l < 192 { 2 } else if l < 224 { 3 } else { 6 }
            };
            let sec_start = header_len + pub_body.len();
            let sec_end = (sec_start + 48).min(first_len);
            for off in sec_start..sec_end {
                let vals: Vec<u8> = if ctx.thorough() || off < sec_start + 8 { (0..=255).collect() } else { vec![0, 1, 2, 3, 4, 7, 100, 110, 253, 254, 255] };
                for v in vals {
                    if v == bytes[off] {
                        continue;
                    }
                    let mut m = bytes.clone();
                    m[off] = v;
                    let t = Instant::now();
                    let r = guard(|| {
                        let k = SignedSecretKey::from_bytes(&m[..])?;
                        let _ = k.primary_key.secret_params().checksum();
                        let _ = k.to_bytes()?;
                        let _ = k.primary_key.has_sha1_checksum();
                        // Argon2 with a large memory parameter is admitted by design (<= 2 GiB): not run here
                        let costly = matches!(k.primary_key.secret_params(), pgp::types::SecretParams::Encrypted(e)
                            if matches!(e.string_to_key_params(), S2kParams::Aead { s2k: StringToKey::Argon2 { m_enc, t, p, .. }, .. } if *m_enc >= 12 && *m_enc <= 21 && *t <= 32 && *p <= 32));
                        if !costly {
                            let _ = k.primary_key.unlock(&pw, |_, _| Ok(()))?;
                        }
                        Ok::<_, pgp::errors::Error>(())
                    });
                    no_panic(ctx, site, &format!("key={kname} s2k={vname} offset={off} value={v} password=hunter2 key_bytes={}", hx(&m[..first_len.min(m.len())])), &r, t);
                    ctx.stat(&format!("sweep:seckey:{kname}:{vname}:{}", super::cls(&r)));
                }
            }
            // protected material shorter than its checksum (D4c2 through the parser)
            for keep in 0..=21usize {
                let cut = sec_end.min(first_len);
                let _ = cut;
                // body truncated so that `keep` octets of protected data remain
                let s2k_region = locate_data_start(&locked);
                let Some(data_start_in_body) = s2k_region else { break };
                let body_start = header_len;
                let data_start = body_start + pub_body.len() + data_start_in_body;
                if data_start + keep > first_len {
                    break;
                }
                let new_body = &bytes[body_start..data_start + keep];
                let mut m = vec![bytes[0]];
                m.extend(crate::frame::new_len_min(new_body.len()));
                m.extend_from_slice(new_body);
                let t = Instant::now();
                let r = guard(|| {
                    let k = SignedSecretKey::from_bytes(&m[..])?;
                    let c = k.primary_key.secret_params().checksum();
                    let _ = k.primary_key.unlock(&pw, |_, _| Ok(()));
                    let _ = k.to_bytes();
                    Ok::<_, pgp::errors::Error>(c.len())
                });
                let site2 = "types/params/encrypted_secret.rs EncryptedSecretParams::checksum (through SignedSecretKey::from_bytes)";
                no_panic(ctx, site2, &format!("key={kname} s2k={vname} protected_octets={keep} key_bytes={}", hx(&m)), &r, t);
                ctx.stat(&format!("sweep:seckey-short:{}", super::cls(&r)));
            }
        }
    }
}

/// offset of the protected data inside the secret part (usage octet + parameters), from the
/// serialization of the parameters themselves
fn locate_data_start(k: &SignedSecretKey) -> Option<usize> {
    match k.primary_key.secret_params() {
        pgp::types::SecretParams::Encrypted(e) => {
            let mut v = Vec::new();
            k.primary_key.secret_params().to_writer(&mut v, k.primary_key.version()).ok()?;
            Some(v.len() - e.data().len())
        }
        _ => None,
    }
}

/// `Read` contract: a reader that returned `Err` may be polled again
fn read_after_error(ctx: &mut Ctx) {
    let site = "armor/reader.rs Dearmor::read (polled again after Err)";
    // (input, the loop steps of `read` by construction: <step ok><more>; footer "01" = parsed but rejected)
    let table: [(&[u8], &str); 5] = [
        (b"-----BEGIN PGP MESSAGE-----\n\nAAAA\n", "10,11,10,00,10"),
        (b"-----BEGIN PGP MESSAGE-----\n\n", "10,10,00,10"),
        (b"-----BEGIN PGP MESSAGE-----\n\nAAAA\n=AAAA\n-----END PGP SIGNATURE-----\n", "10,11,10,01,10"),
        (b"garbage", "00,10"),
        (b"-----BEGIN PGP MESSAGE-----\n\nAAAA\n-----END PGP MESSAGE-----\n", "10,11,10,10,10"),
    ];
    for (input, steps) in table {
        let t = Instant::now();
        let r = guard(|| {
            let mut d = Dearmor::new(input);
            let mut buf = [0u8; 64];
            let mut errs = 0;
            for _ in 0..6 {
                match d.read(&mut buf) {
                    Ok(0) => {}
                    Ok(_) => {}
                    Err(_) => errs += 1,
                }
            }
            errs
        });
        no_panic(ctx, site, &format!("armor={} polled 6 times", hx(input)), &r, t);
        ctx.case(format!("dearmor_calls steps={steps}"), if r.is_ok() { "ok".into() } else { "panic".into() });
    }
}

/// `BufRead::consume` on every layer of the message reader once that layer has failed: a no-op,
/// never a panic (`read` / `fill_buf` keep returning `Err` there).  The layers are driven to their
/// error through `fill_buf`, the call after which a `consume` is legitimate.
fn consume_after_failed_fill_buf(ctx: &mut Ctx) {
    use pgp::composed::PlainSessionKey;
    use std::io::BufRead;
    let site = "Message (every reader layer): fill_buf -> Err, then consume";
    let mut inputs: Vec<(String, Vec<u8>, Option<PlainSessionKey>)> = Vec::new();
    // compressed data with a corrupt stream (ZIP, ZLIB, BZip2), also with a few valid octets first
    for alg in [1u8, 2, 3] {
        for junk in [vec![0xFFu8; 20], vec![0x78, 0x9C, 0xFF, 0xFF, 0xFF, 0xFF, 0x00], vec![0x4B, 0x4C, 0xFF, 0xFE, 0x00, 0x01, 0x02], vec![]] {
            let mut body = vec![alg];
            body.extend_from_slice(&junk);
            inputs.push((format!("compressed alg={alg} stream={}", hx(&junk)), crate::wire::packet(8, &body), None));
        }
    }
    // literal / SED / SEIPD v1 / v2 whose body is shorter than declared (the packet body reader fails)
    let lit = { let mut b = vec![b'b', 0, 0, 0, 0, 0]; b.extend_from_slice(&[b'x'; 40]); b };
    for (name, tag, body, sk) in [
        ("literal", 11u8, lit.clone(), None),
        ("sed", 9u8, vec![0x55; 60], Some(PlainSessionKey::V3_4 { sym_alg: SymmetricKeyAlgorithm::AES128, key: vec![1u8; 16].into() })),
        ("seipd-v1", 18u8, { let mut b = vec![1u8]; b.extend_from_slice(&[0x33; 70]); b }, Some(PlainSessionKey::V3_4 { sym_alg: SymmetricKeyAlgorithm::AES128, key: vec![1u8; 16].into() })),
        ("seipd-v2", 18u8, { let mut b = vec![2u8, 7, 2, 0]; b.extend_from_slice(&[0x44; 32 + 90]); b }, Some(PlainSessionKey::V6 { key: vec![1u8; 16].into() })),
    ] {
        let mut p = crate::wire::packet(tag, &body);
        // declare 5 octets more than follow
        if p.len() > 2 && p[1] < 187 {
            p[1] += 5;
        }
        inputs.push((format!("{name} body shorter than declared"), p, sk));
    }
    for (what, data, sk) in inputs {
        let sk2 = sk.clone();
        let t = Instant::now();
        let r = guard(|| {
            let mut steps = 0usize;
            let Ok(m) = Message::from_bytes(&data[..]) else { return steps };
            let m = match sk {
                Some(sk) => match m.decrypt_with_session_key(sk) { Ok(m) => m, Err(_) => return steps },
                None => m,
            };
            let mut m = if m.is_compressed() { match m.decompress() { Ok(m) => m, Err(_) => return steps } } else { m };
            for _ in 0..4 {
                steps += 1;
                match m.fill_buf() {
                    Ok(b) => {
                        let n = b.len();
                        m.consume(n);
                        if n == 0 { break; }
                    }
                    Err(_) => {
                        m.consume(0);
                        m.consume(1);
                    }
                }
            }
            steps
        });
        no_panic(ctx, site, &format!("{what} data={}", hx(&data)), &r, t);
        ctx.stat("consume_after_failed_fill_buf");
        // the same through the readers in the public fields of `Message`
        let t = Instant::now();
        for round in 0..2 {
        let sk2 = sk2.clone();
        let r = guard(|| {
            let Ok(m) = Message::from_bytes(&data[..]) else { return 0usize };
            let mut steps = 0usize;
            fn poke<R: BufRead>(r: &mut R, steps: &mut usize) {
                for _ in 0..3 {
                    *steps += 1;
                    match r.fill_buf() {
                        Ok(b) => {
                            let n = b.len();
                            r.consume(n);
                            if n == 0 { break; }
                        }
                        Err(_) => {
                            r.consume(0);
                            r.consume(1);
                        }
                    }
                }
                let mut buf = [0u8; 16];
                let _ = r.read(&mut buf);
                r.consume(0);
            }
            match m {
                Message::Compressed { reader, .. } => {
                    if let Ok(mut d) = reader.decompress() {
                        poke(&mut d, &mut steps);
                    }
                }
                Message::Literal { mut reader, .. } => poke(&mut reader, &mut steps),
                Message::Encrypted { mut edata, .. } => {
                    // a session key that does not fit, then the right shape of key on damaged data
                    // (a second `decrypt` on a failed object would go through its accessors, which panic in
                    //  the Error state: known finding D4i; hence one decrypt per parse)
                    let bad = PlainSessionKey::V3_4 { sym_alg: SymmetricKeyAlgorithm::AES256, key: vec![1u8; 5].into() };
                    let key = if round == 0 { Some(bad) } else { sk2 };
                    if let Some(k) = key {
                        let _ = edata.decrypt(&k);
                        poke(&mut edata, &mut steps);
                    }
                }
                _ => {}
            }
            steps
        });
        no_panic(ctx, "readers in the public fields of Message: failed step, then fill_buf / consume / read", &format!("{what} round={round} data={}", hx(&data)), &r, t);
        }
    }
}

/// a source that delivers a prefix of the input in small pieces and then FAILS with
/// `ErrorKind::UnexpectedEof` (what a truncated gzip / TLS stream below the parser reports)
#[derive(Debug)]
struct EofFailing<'a> {
    data: &'a [u8],
    piece: usize,
}

impl std::io::Read for EofFailing<'_> {
    fn read(&mut self, buf: &mut [u8]) -> std::io::Result<usize> {
        if self.data.is_empty() {
            return Err(std::io::Error::new(std::io::ErrorKind::UnexpectedEof, "truncated stream"));
        }
        let n = self.data.len().min(buf.len()).min(self.piece.max(1));
        buf[..n].copy_from_slice(&self.data[..n]);
        self.data = &self.data[n..];
        Ok(n)
    }
}

/// every armored / binary entry point over a source that fails with `UnexpectedEof` after a prefix
fn sources_failing_with_unexpected_eof(ctx: &mut Ctx, ring: &Ring) {
    use pgp::composed::{CleartextSignedMessage, Deserializable, DetachedSignature, SignedPublicKey, SignedSecretKey};
    let site = "from_armor / from_bytes entry points over a source that fails with UnexpectedEof after a prefix";
    let mut rng = ChaCha8Rng::seed_from_u64(ctx.seed ^ 0xC04E);
    let key: &SignedSecretKey = &ring.keys[3].1;
    let mut docs: Vec<(&str, Vec<u8>)> = Vec::new();
    if let Ok(Ok(c)) = guard(|| CleartextSignedMessage::sign(&mut rng, "hello\n- dash\n", &key.primary_key, &Password::empty())) {
        if let Ok(t) = c.to_armored_string(Default::default()) {
            docs.push(("cleartext", t.into_bytes()));
        }
    }
    if let Ok(t) = key.to_public_key().to_armored_string(Default::default()) {
        docs.push(("public key", t.into_bytes()));
    }
    if let Ok(t) = key.to_armored_string(Default::default()) {
        docs.push(("secret key", t.into_bytes()));
    }
    if let Ok(Ok(m)) = guard(|| {
        let mut b = pgp::composed::MessageBuilder::from_bytes("", b"signed and armored".to_vec());
        b.sign(&key.primary_key, Password::empty(), HashAlgorithm::Sha256);
        b.to_armored_string(&mut rng, Default::default())
    }) {
        docs.push(("signed message", m.into_bytes()));
    }
    for (what, doc) in &docs {
        let stride = if ctx.thorough() { 1 } else { 3 };
        for cut in (0..doc.len()).step_by(stride) {
            for piece in [16usize, 1] {
                if piece == 1 && cut % 7 != 0 && !ctx.thorough() {
                    continue;
                }
                let t = Instant::now();
                let r = guard(|| {
                    let mut n = 0usize;
                    let src = || std::io::BufReader::with_capacity(64, EofFailing { data: &doc[..cut], piece });
                    n += CleartextSignedMessage::from_armor(src()).is_ok() as usize;
                    n += SignedPublicKey::from_armor_single(src()).is_ok() as usize;
                    n += SignedSecretKey::from_armor_single(src()).is_ok() as usize;
                    n += DetachedSignature::from_armor_single(src()).is_ok() as usize;
                    if let Ok((mut m, _)) = Message::from_armor(src()) {
                        let mut out = Vec::new();
                        n += std::io::Read::read_to_end(&mut m, &mut out).is_ok() as usize;
                    }
                    n += SignedPublicKey::from_reader_many(src()).map(|(it, _)| it.take(4).count()).unwrap_or(0);
                    n
                });
                no_panic(ctx, site, &format!("{what} prefix of {cut} octets in pieces of {piece}, then Err(UnexpectedEof); doc={}", hx(doc)), &r, t);
                ctx.stat("source_unexpected_eof");
            }
        }
    }
    // (the packet-level decrypt of a version 1 SEIPD packet when the caller has no cipher to name:
    //  a session key from a v6 ESK in front of a v1 container)
    for ver in [1u8, 2] {
        let mut body = vec![ver];
        if ver == 2 {
            body.extend_from_slice(&[7, 2, 0]);
            body.extend_from_slice(&[0x5A; 32]);
        }
        body.extend_from_slice(&[0x33; 60]);
        let pkt = crate::wire::packet(18, &body);
        let t = Instant::now();
        let r = guard(|| {
            let mut n = 0;
            for p in PacketParser::new(&pkt[..]).flatten() {
                if let pgp::packet::Packet::SymEncryptedProtectedData(s) = p {
                    for alg in [None, Some(SymmetricKeyAlgorithm::AES128), Some(SymmetricKeyAlgorithm::Plaintext)] {
                        n += s.decrypt(&[1u8; 16], alg, Default::default()).is_ok() as usize;
                    }
                }
            }
            n
        });
        no_panic(ctx, "SymEncryptedProtectedData::decrypt(key, sym_alg: None | Some, mode)", &format!("packet={}", hx(&pkt)), &r, t);
    }
}

/// the armored entry points that take `DearmorOptions`, with small limits chosen by the caller: the
/// limit falls on packet boundaries, inside headers and inside bodies of the armored packet stream
fn limited_dearmor_options(ctx: &mut Ctx) {
    use pgp::armor::{BlockType, DearmorOptions};
    use pgp::composed::{Any, CleartextSignedMessage, Deserializable, DetachedSignature, SignedPublicKey};
    struct Raw(Vec<u8>);
    impl Serialize for Raw {
        fn to_writer<W: std::io::Write>(&self, w: &mut W) -> pgp::errors::Result<()> {
            w.write_all(&self.0)?;
            Ok(())
        }
        fn write_len(&self) -> usize {
            self.0.len()
        }
    }
    let site = "armored entry points with DearmorOptions::set_limit";
    // packet streams: n packets of a given size each (signatures of an unknown version, markers, user ids)
    let mut streams: Vec<(String, Vec<u8>)> = Vec::new();
    for (tag, first) in [(2u8, 9u8), (10, b'P'), (13, b'u')] {
        for size in [2usize, 50, 100] {
            for n in [1usize, 3, 6] {
                let mut v = Vec::new();
                for i in 0..n {
                    let mut p = vec![0xC0 | tag, (size - 2) as u8];
                    if size > 2 {
                        p.push(first);
                        p.extend(std::iter::repeat(i as u8).take(size - 3));
                    }
                    v.extend(p);
                }
                streams.push((format!("{n} x tag {tag} of {size} octets"), v));
            }
        }
    }
    for (what, pk) in &streams {
        let armor = |typ: BlockType| {
            let mut out = Vec::new();
            pgp::armor::write(&Raw(pk.clone()), typ, &mut out, None, true).ok().map(|_| out)
        };
        let Some(sig_block) = armor(BlockType::Signature) else { continue };
        let Some(msg_block) = armor(BlockType::Message) else { continue };
        let Some(key_block) = armor(BlockType::PublicKey) else { continue };
        let mut cleartext = b"-----BEGIN PGP SIGNED MESSAGE-----\nHash: SHA256\n\nhello\n".to_vec();
        cleartext.extend_from_slice(&sig_block);
        for limit in [0usize, 1, 2, 3, 49, 50, 51, 99, 100, 101, 150, 199, 200, 201, 299, 300, 1000] {
            let t = Instant::now();
            let r = guard(|| {
                let opt = || DearmorOptions::new().set_limit(limit);
                let mut n = 0usize;
                n += CleartextSignedMessage::from_armor_buf(&cleartext[..], opt()).is_ok() as usize;
                n += Any::from_armor_buf_with_options(&cleartext[..], opt()).is_ok() as usize;
                n += Any::from_armor_buf_with_options(&msg_block[..], opt()).is_ok() as usize;
                n += Any::from_armor_buf_with_options(&key_block[..], opt()).is_ok() as usize;
                n += DetachedSignature::from_armor_single_buf_with_options(&sig_block[..], opt()).is_ok() as usize;
                n += SignedPublicKey::from_armor_single_buf_with_options(&key_block[..], opt()).is_ok() as usize;
                n += SignedPublicKey::from_armor_many_buf_with_options(&key_block[..], opt()).map(|(it, _)| it.take(8).count()).unwrap_or(0);
                if let Ok((mut m, _)) = Message::from_armor_with_options(&msg_block[..], opt()) {
                    let mut out = Vec::new();
                    n += std::io::Read::read_to_end(&mut m, &mut out).is_ok() as usize;
                }
                n
            });
            no_panic(ctx, site, &format!("{what}, limit {limit}, packets={}", hx(pk)), &r, t);
            ctx.stat("limited_dearmor_options");
        }
    }
}

/// secret keys whose parameters parse but do not fit together (RSA with p = q: no inverse of p modulo
/// q): whatever is accepted can be written, measured and used without a panic
fn inconsistent_secret_keys(ctx: &mut Ctx, ring: &Ring) {
    let site = "SignedSecretKey::from_bytes -> to_bytes / write_len / to_armored_string / sign (parameters that do not fit together)";
    // (v4 RSA secret key, usage 0, n = p*p, e = 65537, d = e^-1 mod (p-1), q = p, u = 1)
    let pq = "c5c099040000000101040082c35cc563f31eee207afd77dcd0c5eb6861c0159e0e55810ad33dde2e010e2e3a364ed36fa70e19e6ba8200308bf3f21cddfbe5c2c57941b0317e1e60154ac9e68b9eb6f459c5d30e5df209bbbbd9af48228673ba7ea4604ebf8b8b6ac9b9bd07ff7b872f36bf1452393ae8fece06d22cdb4ba4d41eb5bb7491eae4d94c34b100110100010001fc0e6d80fc8f81de082645337be96fd39a3219a71a35b7aba594c0e20bfff57039046b5409042d559b80ee0a6639bdcdc7493129734438527287000a7466d52a810200b6f675cc81e74ef5e8e25d940ed904759531985d5d9dc9f81818e811892f902bd23f0824128b2f330c5c7fd0a6a3a4506513270e269e0d37f2a74de452e6b4390200b6f675cc81e74ef5e8e25d940ed904759531985d5d9dc9f81818e811892f902bd23f0824128b2f330c5c7fd0a6a3a4506513270e269e0d37f2a74de452e6b43900010157bc";
    let Ok(data) = hex::decode(pq) else { return };
    let t = Instant::now();
    let r = guard(|| super::child::exercise_all(&data, ring).len());
    no_panic(ctx, site, &format!("RSA secret key with p = q, data={pq}"), &r, t);
    let t = Instant::now();
    let r = guard(|| {
        use pgp::composed::{Deserializable, SignedSecretKey};
        let mut n = 0usize;
        if let Ok(k) = SignedSecretKey::from_bytes(&data[..]) {
            n += k.write_len();
            n += k.to_bytes().map(|b| b.len()).unwrap_or(0);
            n += k.to_armored_string(Default::default()).map(|b| b.len()).unwrap_or(0);
        }
        for p in PacketParser::new(&data[..]).flatten() {
            n += p.write_len();
            n += p.to_bytes().map(|b| b.len()).unwrap_or(0);
        }
        n
    });
    no_panic(ctx, site, &format!("RSA secret key with p = q (serialise), data={pq}"), &r, t);
    ctx.stat("inconsistent_secret_keys");
}

/// multi-octet fields placed across the 8 KiB refill boundary of the packet body reader, in packets
/// whose declared length ends inside such a field, and the same inputs delivered through readers that
/// hand out 1..7 octets per `fill_buf`: every `read_be_*` / `read_arr` / `take_bytes` of the parsers
/// meets a buffer that ends in the middle of a field
fn boundary_straddles(ctx: &mut Ctx, ring: &Ring) {
    use crate::wire;
    let site = "PacketParser / Message::from_bytes / Signed*Key::from_bytes on fields straddling the 8 KiB buffer";
    let keyid = [1u8, 2, 3, 4, 5, 6, 7, 8];
    let mut inputs: Vec<(String, Vec<u8>)> = Vec::new();
    let shifts: Vec<usize> = if ctx.thorough() { (0..24).collect() } else { vec![0, 1, 2, 3, 4, 7, 8, 9, 12] };
    for &shift in &shifts {
        // v4 signature: hashed area = creation time + a notation whose size puts what follows (the
        // unhashed area length, an issuer key id, an issuer fingerprint, the left-16, the MPIs) around 8192
        let fill = 8160 + shift;
        let mut hashed = wire::subpacket_min(2, &[0x60, 0, 0, 1]);
        let mut notation = vec![0x80, 0, 0, 0, 0, 1];
        notation.extend_from_slice(&((fill as u16).to_be_bytes()));
        notation.push(b'n');
        notation.extend(std::iter::repeat(b'v').take(fill));
        hashed.extend_from_slice(&wire::subpacket(5, 20, &notation).unwrap_or_default());
        let mut unhashed = wire::subpacket_min(16, &keyid);
        let mut fp = vec![4u8];
        fp.extend_from_slice(&[0xAB; 20]);
        unhashed.extend_from_slice(&wire::subpacket_min(33, &fp));
        let body = wire::sig_v4(4, 0x00, 1, 8, &hashed, &unhashed, [1, 2], None, &wire::mpi(&[0x7F; 256]));
        for end in [8189usize, 8190, 8191, 8192, 8193, 8194, 8195, 8196, 8200, 8210, body.len()] {
            if end > body.len() {
                continue;
            }
            inputs.push((format!("sig shift={shift} declared_end={end}"), wire::packet(2, &body[..end])));
        }
    }
    // a v6 public key whose declared key-material count is larger than what follows, past the boundary
    for extra in [0usize, 1, 3, 4, 5] {
        let mut material = vec![0u8; 8180 + extra];
        material[0] = 1;
        let mut body = vec![6u8, 0x60, 0, 0, 1, 100];
        body.extend_from_slice(&((material.len() as u32 + 7).to_be_bytes()));
        body.extend_from_slice(&material);
        inputs.push((format!("pubkey-v6-unknown-alg extra={extra}"), wire::packet(6, &body)));
    }
    for (what, data) in &inputs {
        let t = Instant::now();
        let r = guard(|| super::child::exercise_all(data, ring).len());
        no_panic(ctx, site, &format!("{what} data_cksum={} len={}", crate::frame::cksum(data), data.len()), &r, t);
        // the same octets through readers that deliver a few octets per refill
        for cap in [1usize, 2, 3, 5, 7] {
            let t = Instant::now();
            let r = guard(|| {
                let mut n = 0usize;
                for p in PacketParser::new(std::io::BufReader::with_capacity(cap, &data[..])) {
                    n += 1;
                    if let Ok(p) = p {
                        let _ = p.to_bytes();
                    }
                    if n > 1000 {
                        break;
                    }
                }
                n
            });
            no_panic(ctx, "PacketParser over BufReader::with_capacity(1..7) (fields split across refills)", &format!("{what} cap={cap} len={}", data.len()), &r, t);
        }
        ctx.stat("boundary_straddle");
    }
}

/// parse one packet stream and, for everything that parses, ask for its lengths and write it back
fn parse_and_write_back(data: &[u8]) -> usize {
    use pgp::packet::PacketTrait;
    let mut n = 0usize;
    for p in PacketParser::new(data) {
        n += 1;
        if n > 64 {
            break;
        }
        if let Ok(p) = p {
            let _ = p.write_len();
            let _ = p.write_len_with_header();
            let _ = p.to_bytes();
            let mut out = Vec::new();
            let _ = p.to_writer_with_header(&mut out);
        }
    }
    n
}

/// (a) every packet tag with EVERY body of up to five octets over a small alphabet of meaningful
/// octets (version numbers, algorithm ids, small lengths, 0x80, 0xff): the corners of every packet
/// parser (a length field of 0..4 in front of nothing, a version octet and then the end);
/// (b) well-formed template packets of every kind with each of their first octets set to every value
fn tiny_and_octet_sweeps(ctx: &mut Ctx) {
    use crate::wire;
    let site = "PacketParser -> write_len / to_bytes on tiny packet bodies and one-octet field sweeps";
    let alphabet: &[u8] = if ctx.thorough() { &[0, 1, 2, 3, 4, 5, 6, 7, 16, 0x80, 0xff] } else { &[0, 1, 2, 3, 4, 6, 0xff] };
    let tags: Vec<u8> = (1u8..=21).chain([60, 63]).collect();
    for &tag in &tags {
        for len in 0..=5usize {
            let total = alphabet.len().pow(len as u32);
            let mut failed = false;
            for mut k in 0..total {
                let mut body = Vec::with_capacity(len);
                for _ in 0..len {
                    body.push(alphabet[k % alphabet.len()]);
                    k /= alphabet.len();
                }
                let pkt = wire::packet(tag, &body);
                let r = guard(|| parse_and_write_back(&pkt));
                if r.is_err() && !failed {
                    // report the first panicking body of this (tag, length); the rest of the class is counted
                    failed = true;
                    no_panic(ctx, site, &format!("tag={tag} body={}", hx(&body)), &r, Instant::now());
                } else if r.is_err() {
                    ctx.stat(&format!("tiny:panic:tag{tag}"));
                }
            }
            // one oracle evaluation per (tag, length) class when nothing panicked
            if !failed {
                let ok: Result<usize, String> = Ok(total);
                no_panic(ctx, site, &format!("tag={tag} all {total} bodies of {len} octets over {alphabet:?}"), &ok, Instant::now());
            }
            ctx.stat_n("tiny:bodies", total as u64);
        }
    }
    // (b) templates
    let keyid = [1u8, 2, 3, 4, 5, 6, 7, 8];
    let fp6 = [0x5Au8; 32];
    let templates: Vec<(&str, Vec<u8>)> = vec![
        ("pkesk3-rsa", wire::packet(1, &wire::pkesk_v3(keyid, 1, &wire::mpi(&[0x7F; 32])))),
        ("pkesk6-x25519", wire::packet(1, &wire::pkesk_v6(Some((6, &fp6)), None, 25, &[[9u8; 32].as_slice(), &[24u8], &[7u8; 24]].concat()))),
        ("pkesk6-rsa", wire::packet(1, &wire::pkesk_v6(Some((4, &[0x4Bu8; 20])), None, 1, &wire::mpi(&[0x7F; 32])))),
        ("skesk4", wire::packet(3, &wire::skesk_v4(7, &wire::s2k(3, 8, &[1; 8], 96, [0; 3], &[]), &[]))),
        ("skesk6", wire::packet(3, &wire::skesk_v6(None, 7, 2, None, &wire::s2k(3, 8, &[1; 8], 96, [0; 3], &[]), &[2; 15], &[3; 32]))),
        ("ops3", wire::packet(4, &wire::ops_v3(0, 8, 22, keyid, 1))),
        ("ops6", wire::packet(4, &wire::ops_v6(0, 8, 27, &[4; 16], None, &fp6, 1))),
        ("sig4", wire::packet(2, &wire::sig_v4(4, 0, 22, 8, &wire::subpacket_min(2, &[0x60, 0, 0, 1]), &wire::subpacket_min(16, &keyid), [1, 2], None, &[wire::mpi(&[0x7F; 32]), wire::mpi(&[0x7E; 32])].concat()))),
        ("sig6", wire::packet(2, &wire::sig_v4(6, 0, 27, 8, &wire::subpacket_min(2, &[0x60, 0, 0, 1]), &[], [1, 2], Some(&[5; 16]), &[6; 64]))),
        ("pub4-ed25519legacy", wire::packet(6, &wire::key_public(4, [0x60, 0, 0, 1], [0, 0], 22, &[&[9u8, 0x2B, 6, 1, 4, 1, 0xDA, 0x47, 0x0F, 1][..], &wire::mpi(&[&[0x40u8][..], &[7u8; 32]].concat())].concat(), None))),
        ("pub6-x25519", wire::packet(6, &wire::key_public(6, [0x60, 0, 0, 1], [0, 0], 25, &[8u8; 32], Some(32)))),
        ("uattr-image", wire::packet(17, &[&[0x15u8, 1, 0x10, 0, 1, 1][..], &[0u8; 12], &[0xFF, 0xD8, 0xFF]].concat())),
        ("seipd2", wire::packet(18, &wire::seipd_v2(7, 2, 0, &[1; 32], &[2; 40]))),
        ("literal", wire::packet(11, &wire::literal(b'b', b"n", None, [0, 0, 0, 0], b"data"))),
    ];
    for (name, t) in &templates {
        let upto = t.len().min(if ctx.thorough() { 64 } else { 48 });
        let mut first_panic: Option<(usize, u8, String)> = None;
        let mut panics = 0u64;
        for off in 0..upto {
            for v in 0..=255u8 {
                if t[off] == v {
                    continue;
                }
                let mut m = t.clone();
                m[off] = v;
                if let Err(p) = guard(|| parse_and_write_back(&m)) {
                    panics += 1;
                    if first_panic.is_none() {
                        first_panic = Some((off, v, p));
                    }
                }
            }
        }
        match first_panic {
            Some((off, v, p)) => {
                let mut m = t.clone();
                m[off] = v;
                let r: Result<usize, String> = Err(p);
                no_panic(ctx, site, &format!("template={name} offset={off} value={v} ({panics} panicking variants) packet={}", hx(&m)), &r, Instant::now());
            }
            None => {
                let ok: Result<usize, String> = Ok(0);
                no_panic(ctx, site, &format!("template={name}: every value of each of the first {upto} octets"), &ok, Instant::now());
            }
        }
        ctx.stat_n("octet_sweep:variants", (upto * 255) as u64);
    }
}

/// signed messages with several signature packets of which some are of a kind the reader keeps no
/// hasher for (unknown signature version, unknown hash algorithm, unknown public-key algorithm), in
/// every position, in one-pass and in prefixed form: read to the end, then every verify entry point with
/// every index / number of keys
fn mixed_known_unknown_signatures(ctx: &mut Ctx, ring: &Ring) {
    let site = "Message::verify / verify_nested / verify_nested_explicit / verify_read over messages with known and unknown signature packets";
    let mut rng = rand::thread_rng();
    let Some((_, k1)) = ring.keys.first() else { return };
    let k2 = ring.keys.get(1).map(|k| &k.1).unwrap_or(k1);
    let pk1 = k1.to_public_key();
    let built = guard(|| {
        let mut b = MessageBuilder::from_bytes("", b"mixed signatures".to_vec());
        b.sign(&k1.primary_key, Password::empty(), HashAlgorithm::Sha256);
        b.sign(&k2.primary_key, Password::empty(), HashAlgorithm::Sha512);
        b.sign(&k1.primary_key, Password::empty(), HashAlgorithm::Sha384);
        b.to_vec(&mut rng).ok()
    });
    let Ok(Some(msg)) = built else {
        ctx.stat("mixed_sigs:cannot_build");
        return;
    };
    // split into packets (serialised one by one)
    let pkts: Vec<(pgp::types::Tag, Vec<u8>)> = PacketParser::new(&msg[..])
        .filter_map(|p| p.ok())
        .filter_map(|p| {
            use pgp::packet::PacketTrait;
            let mut v = Vec::new();
            p.to_writer_with_header(&mut v).ok()?;
            Some((p.tag(), v))
        })
        .collect();
    let ops: Vec<&Vec<u8>> = pkts.iter().filter(|p| p.0 == pgp::types::Tag::OnePassSignature).map(|p| &p.1).collect();
    let sigs: Vec<&Vec<u8>> = pkts.iter().filter(|p| p.0 == pgp::types::Tag::Signature).map(|p| &p.1).collect();
    let lit: Vec<&Vec<u8>> = pkts.iter().filter(|p| p.0 == pgp::types::Tag::LiteralData).map(|p| &p.1).collect();
    if ops.len() != 3 || sigs.len() != 3 || lit.len() != 1 {
        ctx.stat("mixed_sigs:unexpected_shape");
        return;
    }
    // body offset of a packet written with a new-format header and a one- or two-octet length
    let body_at = |p: &[u8]| -> usize { if p[1] < 192 { 2 } else if p[1] < 224 { 3 } else { 6 } };
    // (name, octet offset inside the body, new value): OPS v3 = version, type, hash, pk ...; signature v4 = version, type, pk, hash
    let ops_muts: [(&str, usize, u8); 4] = [("as-is", 0, 3), ("ops-version=5", 0, 5), ("ops-hash=99", 2, 99), ("ops-pk=99", 3, 99)];
    let sig_muts: [(&str, usize, u8); 4] = [("as-is", 0, 4), ("sig-version=5", 0, 5), ("sig-version=23", 0, 23), ("sig-hash=99", 3, 99)];
    let apply = |p: &Vec<u8>, m: &(&str, usize, u8)| -> Vec<u8> {
        let mut v = p.clone();
        let at = body_at(&v) + m.1;
        if m.0 != "as-is" && at < v.len() {
            v[at] = m.2;
        }
        v
    };
    let mut n = 0u64;
    for form in ["one-pass", "prefixed"] {
        for a in 0..4usize {
            for b in 0..4usize {
                for c in 0..4usize {
                    let choice = [a, b, c];
                    let mut bytes = Vec::new();
                    if form == "one-pass" {
                        // the mutation of position i goes to the i-th OPS packet; the signature packets stay
                        for i in 0..3 {
                            bytes.extend(apply(ops[i], &ops_muts[choice[i]]));
                        }
                        bytes.extend_from_slice(lit[0]);
                        for s in &sigs {
                            bytes.extend_from_slice(s);
                        }
                    } else {
                        for i in 0..3 {
                            bytes.extend(apply(sigs[i], &sig_muts[choice[i]]));
                        }
                        bytes.extend_from_slice(lit[0]);
                    }
                    let t = Instant::now();
                    let r = guard(|| {
                        let Ok(mut m) = Message::from_bytes(&bytes[..]) else { return 0usize };
                        let mut sink = Vec::new();
                        let _ = m.read_to_end(&mut sink);
                        let mut acc = 0usize;
                        acc += m.verify(&pk1).is_ok() as usize;
                        for k in 1..=5usize {
                            let keys: Vec<&dyn pgp::types::VerifyingKey> = (0..k).map(|_| &pk1 as &dyn pgp::types::VerifyingKey).collect();
                            acc += m.verify_nested(&keys).map(|v| v.len()).unwrap_or(0);
                        }
                        for i in 0..6usize {
                            acc += m.verify_nested_explicit(i, &pk1).is_ok() as usize;
                        }
                        // a fresh parse for the consuming entry point
                        if let Ok(mut m2) = Message::from_bytes(&bytes[..]) {
                            acc += m2.verify_read(&pk1).is_ok() as usize;
                        }
                        acc
                    });
                    n += 1;
                    if r.is_err() || (a, b, c) == (0, 0, 0) {
                        no_panic(ctx, site, &format!("form={form} positions=[{}, {}, {}] msg={}", if form == "one-pass" { ops_muts[a].0 } else { sig_muts[a].0 }, if form == "one-pass" { ops_muts[b].0 } else { sig_muts[b].0 }, if form == "one-pass" { ops_muts[c].0 } else { sig_muts[c].0 }, hx(&bytes)), &r, t);
                    }
                }
            }
        }
    }
    ctx.stat_n("mixed_sigs:messages", n);
}

/// every signature subpacket type x critical bit x body length 0..=40 x fill octet, in the hashed and
/// in the unhashed area of v4 and v6 signatures: the per-type body parsers take whatever length the
/// subpacket header announces
fn subpacket_body_sweep(ctx: &mut Ctx) {
    use crate::wire;
    let site = "packet/signature/de.rs subpacket body parsers (every type x body length) -> write back";
    let keyid = [1u8, 2, 3, 4, 5, 6, 7, 8];
    let fills: &[u8] = if ctx.thorough() { &[0, 1, 2, 4, 6, 0x21, 0x7f, 0x80, 0xff] } else { &[0, 1, 4, 0xff] };
    for id in 0u8..=127 {
        let mut first_panic: Option<(String, String)> = None;
        let mut n = 0u64;
        for critical in [false, true] {
            for len in 0..=40usize {
                for &fill in fills {
                    let body: Vec<u8> = (0..len).map(|i| if i == 0 { fill } else { fill.wrapping_add((i as u8) & 1) }).collect();
                    let sp = wire::subpacket_min(id | if critical { 0x80 } else { 0 }, &body);
                    let ctime = wire::subpacket_min(2, &[0x60, 0, 0, 1]);
                    for (ver, area) in [(4u8, 0u8), (4, 1), (6, 0)] {
                        let (hashed, unhashed) = if area == 0 { ([&ctime[..], &sp[..]].concat(), wire::subpacket_min(16, &keyid)) } else { (ctime.clone(), sp.clone()) };
                        let pkt = if ver == 4 {
                            wire::packet(2, &wire::sig_v4(4, 0, 22, 8, &hashed, &unhashed, [1, 2], None, &[wire::mpi(&[0x7F; 32]), wire::mpi(&[0x7E; 32])].concat()))
                        } else {
                            wire::packet(2, &wire::sig_v4(6, 0, 27, 8, &hashed, &[], [1, 2], Some(&[5; 16]), &[6; 64]))
                        };
                        n += 1;
                        if let Err(p) = guard(|| parse_and_write_back(&pkt)) {
                            if first_panic.is_none() {
                                first_panic = Some((format!("subpacket type={id} critical={critical} body={} sig_version={ver} area={} packet={}", hx(&body), if area == 0 { "hashed" } else { "unhashed" }, hx(&pkt)), p));
                            }
                        }
                    }
                }
            }
        }
        match first_panic {
            Some((input, p)) => {
                let r: Result<usize, String> = Err(p);
                no_panic(ctx, site, &input, &r, Instant::now());
            }
            None => {
                let ok: Result<usize, String> = Ok(0);
                no_panic(ctx, site, &format!("subpacket type={id}: {n} bodies (lengths 0..=40, critical bit, fills {fills:?}, v4 hashed / v4 unhashed / v6 hashed)"), &ok, Instant::now());
            }
        }
        ctx.stat_n("subpacket_body_sweep:packets", n);
    }
}

/// SEIPDv2 containers (literal packet + padding packet inside) written with partial body lengths and
/// CUT at every chunk boundary / partial-body boundary, without a final length: the reader below the
/// decryptor fails while the message reader looks for trailing packets (D4m)
fn partial_cut_containers(ctx: &mut Ctx) {
    use pgp::composed::PlainSessionKey;
    use pgp::packet::{SymEncryptedProtectedData, SymEncryptedProtectedDataConfig};
    let site = "Message::from_bytes -> decrypt_with_session_key -> read_to_end (partial-length container cut short)";
    let mut rng = ChaCha8Rng::seed_from_u64(ctx.seed ^ 0xC04D);
    let key = [7u8; 16];
    let new_len = |n: usize| -> Vec<u8> {
        if n < 192 { vec![n as u8] } else if n < 8384 { let m = n - 192; vec![(m >> 8) as u8 + 192, m as u8] } else { let mut v = vec![255]; v.extend_from_slice(&(n as u32).to_be_bytes()); v }
    };
    // (250..=262 + a padding packet with a two-octet length: the padding's HEADER straddles an AEAD
    //  chunk edge, so the reader below fails in the middle of a header of the inner packet stream)
    let mut shapes: Vec<(usize, usize)> = Vec::new();
    for lit_total in [64usize, 512, 576, 1024] {
        for pad_len in [0usize, 100, 1000] {
            shapes.push((lit_total, pad_len));
        }
    }
    for lit_total in 250usize..=262 {
        shapes.push((lit_total, 400));
    }
    for lit_total in [318usize, 319, 320, 321, 510, 511, 513] {
        shapes.push((lit_total, 9000));
    }
    {
        for (lit_total, pad_len) in shapes {
            let straddle = pad_len == 400 || pad_len == 9000;
            let data_len = lit_total - 1 - new_len(lit_total - 3).len().max(1) - 6;
            let mut lit = vec![b'b', 0, 0, 0, 0, 0];
            lit.extend(std::iter::repeat(b'x').take(data_len));
            let mut inner = vec![0xCB];
            inner.extend(new_len(lit.len()));
            inner.extend(&lit);
            if pad_len > 0 {
                inner.push(0xC0 | 21);
                inner.extend(new_len(pad_len));
                inner.extend((0..pad_len).map(|i| i as u8));
            }
            let Ok(Ok(pkt)) = guard(|| SymEncryptedProtectedData::encrypt_seipdv2(&mut rng, SymmetricKeyAlgorithm::AES128, AeadAlgorithm::Ocb, ChunkSize::C64B, &key, &inner)) else { continue };
            let mut body = vec![2u8, 7, 2, 0];
            if let SymEncryptedProtectedDataConfig::V2 { salt, .. } = pkt.config() {
                body.extend_from_slice(salt);
            }
            body.extend_from_slice(pkt.data());
            let mut cuts: Vec<usize> = (1..=(body.len() - 36) / 80).map(|k| 36 + k * 80).collect();
            cuts.extend([body.len() - 16, body.len() - 1, body.len()]);
            if !ctx.thorough() && !straddle {
                cuts = cuts.into_iter().step_by(2).collect();
            }
            if straddle {
                // exactly behind a partial part (the next length octet is missing)
                cuts = vec![512, 512 + 256, 1024, 512 + 64, body.len() - 1];
            }
            for cut in cuts {
                if cut < 512 || cut > body.len() {
                    continue;
                }
                let b = &body[..cut];
                // partial framing: 512, then the rest in decreasing powers of two, NO final length
                let mut msg = vec![0xC0 | 18];
                let mut sizes = vec![512usize];
                let mut rest = b.len() - 512;
                for k in (0..=12).rev() {
                    let s = 1usize << k;
                    while rest >= s {
                        sizes.push(s);
                        rest -= s;
                    }
                }
                let mut pos = 0usize;
                for s in &sizes {
                    msg.push(224 + s.trailing_zeros() as u8);
                    msg.extend_from_slice(&b[pos..pos + s]);
                    pos += s;
                }
                let t = Instant::now();
                let r = guard(|| {
                    let m = Message::from_bytes(&msg[..]).map_err(|e| e.to_string())?;
                    let mut d = m.decrypt_with_session_key(PlainSessionKey::V6 { key: key.to_vec().into() }).map_err(|e| e.to_string())?;
                    let mut out = Vec::new();
                    d.read_to_end(&mut out).map_err(|e| e.to_string())
                });
                no_panic(ctx, site, &format!("literal packet of {lit_total} octets + padding {pad_len}, container body cut at {cut} of {}, partial framing, msg_cksum={}", body.len(), crate::frame::cksum(&msg)), &r, t);
                ctx.stat("partial_cut_container");
            }
        }
    }
}

pub fn run(ctx: &mut Ctx, ring: &Ring) {
    let mut rng = ChaCha8Rng::seed_from_u64(ctx.seed ^ 0xC04C);
    partial_cut_containers(ctx);
    consume_after_failed_fill_buf(ctx);
    sources_failing_with_unexpected_eof(ctx, ring);
    limited_dearmor_options(ctx);
    inconsistent_secret_keys(ctx, ring);
    tiny_and_octet_sweeps(ctx);
    subpacket_body_sweep(ctx);
    mixed_known_unknown_signatures(ctx, ring);
    boundary_straddles(ctx, ring);
    read_after_error(ctx);
    message_sweeps(ctx, &mut rng);
    secret_key_sweeps(ctx, ring, &mut rng);
}
