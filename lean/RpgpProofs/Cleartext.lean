import RpgpModel.Cleartext
import RpgpProofs.Canon
import RpgpProofs.CanonReader
namespace Rpgp

/-! ## lines -/

theorem splitInclusive_cons (b : Byte) (r : Bytes) :
    splitInclusive (b :: r) =
      if b = LF then [LF] :: splitInclusive r else consHead b (splitInclusive r) := by
  rw [splitInclusive]

theorem splitInclusive_cons_ne (b : Byte) (r : Bytes) (hb : b ≠ LF) :
    splitInclusive (b :: r) = consHead b (splitInclusive r) := by
  rw [splitInclusive_cons]; simp [hb]

@[simp] theorem consHead_ne_nil (b : Byte) (ls : List Bytes) : consHead b ls ≠ [] := by
  cases ls <;> simp [consHead]

@[simp] theorem consHead_cons (b : Byte) (l : Bytes) (ls : List Bytes) :
    consHead b (l :: ls) = (b :: l) :: ls := rfl
@[simp] theorem consHead_nil (b : Byte) : consHead b [] = [[b]] := rfl

@[simp] theorem consHead_flatten (b : Byte) (ls : List Bytes) : (consHead b ls).flatten = b :: ls.flatten := by
  cases ls <;> simp [consHead]

theorem splitInclusive_flatten (t : Bytes) : (splitInclusive t).flatten = t := by
  induction t with
  | nil => rfl
  | cons b r ih =>
    rw [splitInclusive_cons]
    by_cases hb : b = LF
    · simp [hb, ih]
    · simp only [hb, if_false]
      cases h : splitInclusive r with
      | nil => rw [h] at ih; simp at ih; simp [← ih]
      | cons l ls => rw [h] at ih; simp at ih; simp [← ih]

theorem splitInclusive_eq_nil (t : Bytes) : splitInclusive t = [] ↔ t = [] := by
  cases t with
  | nil => simp [splitInclusive]
  | cons b r =>
    rw [splitInclusive_cons]
    by_cases hb : b = LF
    · simp [hb]
    · simp only [hb, if_false]
      cases splitInclusive r <;> simp

theorem splitInclusive_cons_LF (r : Bytes) : splitInclusive (LF :: r) = [LF] :: splitInclusive r := by
  simp [splitInclusive]

/-- S1 -/
theorem splitInclusive_line (l r : Bytes) (h : LF ∉ l) :
    splitInclusive (l ++ LF :: r) = (l ++ [LF]) :: splitInclusive r := by
  induction l with
  | nil => simp [splitInclusive]
  | cons b l ih =>
    simp at h
    have hb : b ≠ LF := fun e => h.1 e.symm
    simp only [List.cons_append]
    rw [splitInclusive_cons]
    simp only [hb, if_false]
    rw [ih h.2]; simp

/-- S2 -/
theorem splitInclusive_append_LF (a b : Bytes) :
    splitInclusive (a ++ LF :: b) = splitInclusive (a ++ [LF]) ++ splitInclusive b := by
  induction a with
  | nil => simp [splitInclusive]
  | cons x a ih =>
    simp only [List.cons_append, splitInclusive_cons x]
    by_cases hx : x = LF
    · simp [hx, ih]
    · simp only [hx, if_false]
      rw [ih]
      cases h : splitInclusive (a ++ [LF]) with
      | nil => simp [splitInclusive_eq_nil] at h
      | cons l ls => simp

def endsLF (l : Bytes) : Prop := ∃ c, l = c ++ [LF]

/-- S3 -/
theorem splitInclusive_all_endLF (a : Bytes) : ∀ l ∈ splitInclusive (a ++ [LF]), endsLF l := by
  induction a with
  | nil => intro l hl; simp [splitInclusive] at hl; exact ⟨[], by simp [hl]⟩
  | cons x a ih =>
    simp only [List.cons_append]
    rw [splitInclusive_cons]
    by_cases hx : x = LF
    · simp only [hx, if_true]
      intro l hl
      simp at hl
      rcases hl with rfl | hl
      · exact ⟨[], rfl⟩
      · exact ih l hl
    · simp only [hx, if_false]
      cases h : splitInclusive (a ++ [LF]) with
      | nil => simp [splitInclusive_eq_nil] at h
      | cons l0 ls =>
        rw [h] at ih
        intro l hl
        simp at hl
        rcases hl with rfl | hl
        · obtain ⟨c, hc⟩ := ih l0 (by simp)
          exact ⟨x :: c, by simp [hc]⟩
        · exact ih l (by simp [hl])


/-! ## dash_escape as a two-state machine -/

/-- `dash_escape` byte by byte: `atStart` = the previous byte was LF (or there is none) -/
def escapeGo : Bool → Bytes → Bytes
  | _, [] => []
  | s, b :: r => (if s && b == DASH then [DASH, SP] else []) ++ b :: escapeGo (b == LF) r

/-- escape all lines, the first one only if `s` -/
def escLines (s : Bool) : List Bytes → Bytes
  | [] => []
  | l :: ls => (if s then escLine l else l) ++ (ls.map escLine).flatten

theorem escLines_true (ls : List Bytes) : escLines true ls = (ls.map escLine).flatten := by
  cases ls <;> simp [escLines]

theorem DASH_ne_LF : DASH ≠ LF := by decide
theorem SP_ne_LF : SP ≠ LF := by decide

theorem escLines_split (s : Bool) (t : Bytes) : escLines s (splitInclusive t) = escapeGo s t := by
  induction t generalizing s with
  | nil => simp [splitInclusive, escLines, escapeGo]
  | cons b r ih =>
    rw [splitInclusive_cons]
    by_cases hb : b = LF
    · subst hb
      have h1 : (LF == DASH) = false := by decide
      have h2 : (LF == LF) = true := by decide
      have h3 : LF ≠ DASH := by decide
      simp only [if_true, escapeGo, h1, h2, Bool.and_false]
      rw [← ih true, escLines_true]
      cases s <;> simp [escLines, escLine, h3]
    · have hbl : (b == LF) = false := by simp [hb]
      simp only [hb, if_false, escapeGo, hbl]
      rw [← ih false]
      cases splitInclusive r with
      | nil => cases s <;> by_cases hd : b = DASH <;> simp [escLines, escLine, hd]
      | cons l ls => cases s <;> by_cases hd : b = DASH <;> simp [escLines, escLine, hd]

theorem dashEscape_eq_go (t : Bytes) : dashEscape t = escapeGo true t := by
  rw [← escLines_split, escLines_true]; rfl


/-- map `escLine` over the lines, over the first one only if `s` -/
def mapFirst (s : Bool) : List Bytes → List Bytes
  | [] => []
  | l :: ls => (if s then escLine l else l) :: ls.map escLine

theorem mapFirst_true (ls : List Bytes) : mapFirst true ls = ls.map escLine := by
  cases ls <;> simp [mapFirst]

theorem split_escapeGo (s : Bool) (t : Bytes) :
    splitInclusive (escapeGo s t) = mapFirst s (splitInclusive t) := by
  induction t generalizing s with
  | nil => simp [splitInclusive, escapeGo, mapFirst]
  | cons b r ih =>
    rw [splitInclusive_cons b r]
    by_cases hb : b = LF
    · subst hb
      have h1 : (LF == DASH) = false := by decide
      have h2 : (LF == LF) = true := by decide
      have h3 : LF ≠ DASH := by decide
      simp only [if_true, escapeGo, h1, h2, Bool.and_false, Bool.false_eq_true, if_false, List.nil_append]
      rw [splitInclusive_cons, if_pos rfl, ih true, mapFirst_true]
      cases s <;> simp [mapFirst, escLine, h3]
    · have hbl : (b == LF) = false := by simp [hb]
      have hd1 : DASH ≠ LF := by decide
      have hs1 : SP ≠ LF := by decide
      simp only [hb, if_false, escapeGo, hbl]
      cases s <;> by_cases hd : b = DASH
      all_goals
        simp only [hd, Bool.false_and, Bool.true_and, beq_self_eq_true, if_true, List.nil_append,
          List.cons_append, Bool.false_eq_true, if_false, beq_iff_eq]
        try rw [splitInclusive_cons_ne _ _ hd1, splitInclusive_cons_ne _ _ hs1]
        try rw [splitInclusive_cons_ne _ _ hd1]
        try rw [splitInclusive_cons_ne _ _ hb]
        rw [ih false]
        cases splitInclusive r <;> simp [mapFirst, escLine, hd]

/-- the lines of the escaped text are the escaped lines of the text -/
theorem lines_dashEscape (t : Bytes) :
    splitInclusive (dashEscape t) = (splitInclusive t).map escLine := by
  rw [dashEscape_eq_go, split_escapeGo, mapFirst_true]



/-! ## per-line facts -/

theorem stripDashSp_escLine (l : Bytes) : stripDashSp (escLine l) = l := by
  have h : DASH ≠ SP := by decide
  cases l with
  | nil => rfl
  | cons b r =>
    by_cases hb : b = DASH
    · simp [escLine, hb, stripDashSp]
    · cases r with
      | nil => simp [escLine, hb, stripDashSp]
      | cons c r => simp [escLine, hb, stripDashSp]

theorem splitEnd_cons3 (a b c : Byte) (r : Bytes) :
    splitEnd (a :: b :: c :: r) = (a :: (splitEnd (b :: c :: r)).1, (splitEnd (b :: c :: r)).2) := by
  rw [splitEnd]

/-- the two bytes `"- "` in front of a line do not change where its line ending starts -/
theorem splitEnd_dash_sp (r : Bytes) :
    splitEnd (DASH :: SP :: r) = (DASH :: SP :: (splitEnd r).1, (splitEnd r).2) := by
  have h1 : SP ≠ LF := by decide
  have h2 : DASH ≠ CR := by decide
  have h3 : SP ≠ CR := by decide
  match r with
  | [] => simp [splitEnd, h1, h2]
  | [x] => by_cases hx : x = LF <;> simp [splitEnd, hx, h3]
  | x :: y :: r => rw [splitEnd_cons3, splitEnd_cons3]

theorem splitEnd_append (l : Bytes) : (splitEnd l).1 ++ (splitEnd l).2 = l := by
  match l with
  | [] => rfl
  | [a] => by_cases h : a = LF <;> simp [splitEnd, h]
  | [a, b] =>
    by_cases h1 : a = CR <;> by_cases h2 : b = LF <;> simp [splitEnd, h1, h2]
  | a :: b :: c :: r =>
    rw [splitEnd_cons3]
    simp [splitEnd_append (b :: c :: r)]

theorem splitEnd_head (b : Byte) (s : Bytes) :
    (splitEnd (b :: s)).1 = [] ∨ ∃ s', (splitEnd (b :: s)).1 = b :: s' := by
  match s with
  | [] => by_cases h : b = LF <;> simp [splitEnd, h]
  | [x] => by_cases h1 : b = CR <;> by_cases h2 : x = LF <;> simp [splitEnd, h1, h2]
  | x :: y :: r => rw [splitEnd_cons3]; exact Or.inr ⟨_, rfl⟩

theorem stripDashSp_noop (c : Bytes) (h : ∀ r, c ≠ DASH :: SP :: r) : stripDashSp c = c := by
  match c with
  | [] => rfl
  | [a] => rfl
  | a :: b :: r =>
    have : ¬(a = DASH ∧ b = SP) := by
      rintro ⟨rfl, rfl⟩; exact h r rfl
    simp [stripDashSp, this]

/-- the content of a line that does not start with `"- "` does not start with `"- "` -/
theorem splitEnd_fst_noDashSp (l : Bytes) (h : ∀ r, l ≠ DASH :: SP :: r) :
    ∀ r, (splitEnd l).1 ≠ DASH :: SP :: r := by
  intro r hr
  have := splitEnd_append l
  rw [hr] at this
  exact h (r ++ (splitEnd l).2) this.symm

/-- the code's per-line function is "trim" after "strip one dash-space" -/
theorem utLine_factor (l : Bytes) : utLine l = trimLine (stripDashSp l) := by
  by_cases h : ∃ r, l = DASH :: SP :: r
  · obtain ⟨r, rfl⟩ := h
    simp [utLine, trimLine, splitEnd_dash_sp, stripDashSp]
  · have h' : ∀ r, l ≠ DASH :: SP :: r := fun r e => h ⟨r, e⟩
    rw [stripDashSp_noop l h']
    simp only [utLine, trimLine]
    rw [stripDashSp_noop _ (splitEnd_fst_noDashSp l h')]

theorem utLine_escLine (l : Bytes) : utLine (escLine l) = trimLine l := by
  rw [utLine_factor, stripDashSp_escLine]


/-! ## whole-text consequences -/

theorem unescape_dashEscape (t : Bytes) : unescape (dashEscape t) = t := by
  simp [unescape, lines_dashEscape, List.map_map, Function.comp_def, stripDashSp_escLine,
    splitInclusive_flatten]

theorem unescapeTrim_dashEscape (t : Bytes) : unescapeTrim (dashEscape t) = trimLines t := by
  simp [unescapeTrim, trimLines, lines_dashEscape, List.map_map, Function.comp_def, utLine_escLine]

theorem unescapeTrim_factor (c : Bytes) :
    unescapeTrim c = ((splitInclusive c).map fun l => trimLine (stripDashSp l)).flatten := by
  have : utLine = fun l => trimLine (stripDashSp l) := funext utLine_factor
  simp [unescapeTrim, this]

/-! ## the escaped text contains no boundary -/

/-- every line that starts with `-` continues with a space -/
def okGo : Bool → Bytes → Bool
  | _, [] => true
  | s, b :: r => if s && b == DASH then (r.head? == some SP) && okGo false r else okGo (b == LF) r

theorem okGo_escapeGo (s : Bool) (t : Bytes) : okGo s (escapeGo s t) = true := by
  induction t generalizing s with
  | nil => simp [escapeGo, okGo]
  | cons b r ih =>
    have h1 : (SP == LF) = false := by decide
    have h2 : (DASH == LF) = false := by decide
    by_cases hc : (s && b == DASH) = true
    · simp only [Bool.and_eq_true, beq_iff_eq] at hc
      obtain ⟨rfl, rfl⟩ := hc
      simp [escapeGo, okGo, h1, h2, ih false]
    · have hc' : (s && b == DASH) = false := by simpa using hc
      simp only [escapeGo, hc', Bool.false_eq_true, if_false, List.nil_append, okGo]
      exact ih _

theorem okGo_tail (s : Bool) (b : Byte) (r : Bytes) (h : okGo s (b :: r) = true) :
    ∃ s', okGo s' r = true := by
  simp only [okGo] at h
  split at h
  · simp at h; exact ⟨false, h.2⟩
  · exact ⟨_, h⟩

theorem okGo_not_prefix (x : Bytes) (h : okGo true x = true) : ¬ [DASH, DASH] <+: x := by
  have hds : DASH ≠ SP := by decide
  rintro ⟨r, rfl⟩
  simp [okGo, hds] at h

theorem okGo_no_pat (s : Bool) (x : Bytes) (h : okGo s x = true) : ¬ bodyEndPat <:+: x := by
  induction x generalizing s with
  | nil => simp [bodyEndPat]
  | cons b r ih =>
    rw [List.infix_cons_iff]
    rintro (hp | hi)
    · obtain ⟨q, hq⟩ := hp
      simp [bodyEndPat, fiveDashes] at hq
      obtain ⟨rfl, rfl⟩ := hq
      have h1 : (LF == DASH) = false := by decide
      have hds : DASH ≠ SP := by decide
      simp [okGo, h1, hds] at h
    · obtain ⟨s', hs'⟩ := okGo_tail s b r h
      exact ih s' hs' hi

theorem dashEscape_no_pat (t : Bytes) : ¬ bodyEndPat <:+: dashEscape t := by
  rw [dashEscape_eq_go]; exact okGo_no_pat _ _ (okGo_escapeGo _ _)

theorem dashEscape_no_dashdash (t : Bytes) : ¬ [DASH, DASH] <+: dashEscape t := by
  rw [dashEscape_eq_go]; exact okGo_not_prefix _ (okGo_escapeGo _ _)



/-! ## `rfind` -/

theorem findLast_none (pat s : Bytes) (h : ¬ pat <:+: s) : findLast pat s = none := by
  induction s with
  | nil =>
    have : pat ≠ [] := fun e => h (by simp [e])
    cases pat with
    | nil => exact absurd rfl this
    | cons p ps => simp [findLast, List.isPrefixOf]
  | cons b r ih =>
    rw [List.infix_cons_iff] at h
    have h1 : ¬ pat <+: b :: r := fun e => h (Or.inl e)
    have h2 : ¬ pat <:+: r := fun e => h (Or.inr e)
    have h3 : pat.isPrefixOf (b :: r) = false := by
      rw [Bool.eq_false_iff]; intro e; exact h1 (List.isPrefixOf_iff_prefix.mp e)
    simp [findLast, ih h2, h3]

/-- the last occurrence: nothing later -/
theorem findLast_at (pat a c : Bytes) (hne : pat ≠ []) (h : ¬ pat <:+: (pat.tail ++ c)) :
    findLast pat (a ++ pat ++ c) = some a.length := by
  induction a with
  | nil =>
    cases pat with
    | nil => exact absurd rfl hne
    | cons p ps =>
      simp only [List.nil_append, List.cons_append, findLast, List.tail_cons] at *
      rw [findLast_none _ _ h]
      have : (p :: ps).isPrefixOf (p :: (ps ++ c)) = true :=
        List.isPrefixOf_iff_prefix.mpr ⟨c, by simp⟩
      simp [this]
  | cons x a ih =>
    simp only [List.cons_append, findLast]
    simp only [List.append_assoc] at ih
    simp [ih]


/-! ## `read_cleartext_body` -/

theorem no_LFpat_in_line (X : Bytes) (y : Byte) (ys : Bytes) (h : LF ∉ X) :
    ¬ (LF :: y :: ys) <:+: X ++ [LF] := by
  induction X with
  | nil =>
    intro hi
    have := hi.length_le
    simp at this
  | cons x X ih =>
    simp at h
    rw [List.cons_append, List.infix_cons_iff]
    rintro (hp | hi)
    · obtain ⟨q, hq⟩ := hp
      simp at hq
      exact h.1 hq.1
    · exact ih h.2 hi

theorem fiveDashes_prefix_dd (x : Bytes) (h : fiveDashes.isPrefixOf x = true) : [DASH, DASH] <+: x := by
  obtain ⟨q, rfl⟩ := List.isPrefixOf_iff_prefix.mp h
  exact ⟨[DASH, DASH, DASH] ++ q, by simp [fiveDashes]⟩

theorem readBodyLoop_spec (ls : List Bytes) (out S0 c : Bytes) (more : List Bytes)
    (hS : out ++ ls.flatten = S0 ++ [LF])
    (h1 : ∀ z, ¬ [DASH, DASH] <+: S0 ++ [LF] ++ z)
    (h2 : ¬ bodyEndPat <:+: S0 ++ [LF])
    (hc : LF ∉ c) :
    readBodyLoop out (ls ++ (fiveDashes ++ c ++ [LF]) :: more) =
      some (stripLineBreak (S0 ++ [LF]), fiveDashes ++ c ++ [LF], more) := by
  induction ls generalizing out with
  | nil =>
    simp only [List.flatten_nil, List.append_nil] at hS
    subst hS
    simp only [List.nil_append, readBodyLoop]
    have hp : fiveDashes.isPrefixOf (S0 ++ [LF] ++ (fiveDashes ++ c ++ [LF])) = false := by
      rw [Bool.eq_false_iff]; intro e; exact h1 _ (fiveDashes_prefix_dd _ e)
    have hf : findLast bodyEndPat (S0 ++ [LF] ++ (fiveDashes ++ c ++ [LF])) = some S0.length := by
      have := findLast_at bodyEndPat S0 (c ++ [LF]) (by simp [bodyEndPat]) (by
        have hX : LF ∉ fiveDashes ++ c := by
          simp [fiveDashes, hc]; decide
        have := no_LFpat_in_line (fiveDashes ++ c) DASH [DASH, DASH, DASH, DASH] hX
        simpa [bodyEndPat, fiveDashes] using this)
      simpa [bodyEndPat, List.append_assoc] using this
    simp only [hp, Bool.false_eq_true, if_false, hf]
    have ht : (S0 ++ [LF] ++ (fiveDashes ++ c ++ [LF])).take (S0.length + 1) = S0 ++ [LF] := by
      have : S0.length + 1 = (S0 ++ [LF]).length := by simp
      rw [this, List.take_left']
      rfl
    have hd : (S0 ++ [LF] ++ (fiveDashes ++ c ++ [LF])).drop (S0.length + 1) = fiveDashes ++ c ++ [LF] := by
      have : S0.length + 1 = (S0 ++ [LF]).length := by simp
      rw [this, List.drop_left']
      rfl
    rw [ht, hd]
  | cons l ls ih =>
    simp only [List.cons_append, readBodyLoop]
    have hpre : (out ++ l) <+: S0 ++ [LF] := ⟨ls.flatten, by simp [← hS]⟩
    have hp : fiveDashes.isPrefixOf (out ++ l) = false := by
      rw [Bool.eq_false_iff]; intro e
      have := (fiveDashes_prefix_dd _ e).trans hpre
      exact h1 [] (by simpa using this)
    have hf : findLast bodyEndPat (out ++ l) = none :=
      findLast_none _ _ fun e => h2 (e.trans hpre.isInfix)
    simp only [hp, Bool.false_eq_true, if_false, hf]
    exact ih (out ++ l) (by simp [← hS])



theorem endsCRLF_append_LF (x : Bytes) : endsCRLF (x ++ [LF]) = endsCR x := by
  match x with
  | [] => rfl
  | [a] => simp [endsCRLF]
  | a :: b :: r =>
    have := endsCRLF_append_LF (b :: r)
    simp only [List.cons_append] at this ⊢
    cases r with
    | nil => simp [endsCRLF] at this ⊢
    | cons c r => simp [endsCRLF] at this ⊢; exact this

theorem endsCR_eq_dropLast (x : Bytes) (h : endsCR x = true) : x = x.dropLast ++ [CR] :=
  (dropLast_append_CR x h).symm

/-- "remove trailing line break" on a body that ends with the LF the writer appended -/
theorem stripLineBreak_append_LF (x : Bytes) :
    stripLineBreak (x ++ [LF]) = if endsCR x then x.dropLast else x := by
  unfold stripLineBreak
  rw [endsCRLF_append_LF]
  have h2 : Gen.csfStripCrLf = 2 := rfl
  have h1 : Gen.csfStripLf = 1 := rfl
  by_cases h : endsCR x = true
  · simp only [h, if_true, h2]
    have hx := endsCR_eq_dropLast x h
    generalize x.dropLast = y at hx
    subst hx
    simp
  · simp only [h, Bool.false_eq_true, if_false, h1]
    simp

theorem not_dd_prefix_append (E z : Bytes) (h : ¬ [DASH, DASH] <+: E) : ¬ [DASH, DASH] <+: E ++ [LF] ++ z := by
  have hdl : DASH ≠ LF := by decide
  match E with
  | [] => rintro ⟨q, hq⟩; simp at hq; exact hdl hq.1
  | [x] => rintro ⟨q, hq⟩; simp at hq; exact hdl hq.2.1
  | x :: y :: r =>
    rintro ⟨q, hq⟩
    simp at hq
    exact h ⟨r, by rw [← hq.1, ← hq.2.1]; rfl⟩

theorem no_pat_append_LF (E : Bytes) (h : ¬ bodyEndPat <:+: E) : ¬ bodyEndPat <:+: E ++ [LF] := by
  rintro ⟨p, q, hq⟩
  rcases List.eq_nil_or_concat q with rfl | ⟨q', x, rfl⟩
  · simp [bodyEndPat, fiveDashes] at hq
    have := congrArg List.getLast? hq
    simp at this
    exact absurd this (by decide)
  · have : p ++ bodyEndPat ++ q' ++ [x] = E ++ [LF] := by simpa [List.append_assoc] using hq
    have h' := List.append_inj' this rfl
    exact h ⟨p, q', h'.1⟩

/-- `read_cleartext_body` on `body ++ "\n" ++ signature block`, for every body in which no line
starts with `--` (in particular every dash-escaped text) -/
theorem readCleartextBody_spec (E c more : Bytes)
    (hp : ¬ bodyEndPat <:+: E) (hd : ¬ [DASH, DASH] <+: E) (hc : LF ∉ c) :
    readCleartextBody (E ++ LF :: (fiveDashes ++ c ++ LF :: more)) =
      some (if endsCR E then E.dropLast else E, fiveDashes ++ c ++ LF :: more) := by
  unfold readCleartextBody readBodyLines
  rw [splitInclusive_append_LF]
  have hX : LF ∉ fiveDashes ++ c := by simp [fiveDashes, hc]; decide
  have hs : splitInclusive (fiveDashes ++ c ++ LF :: more) = (fiveDashes ++ c ++ [LF]) :: splitInclusive more :=
    splitInclusive_line _ _ hX
  rw [hs, readBodyLoop_spec (splitInclusive (E ++ [LF])) [] E c (splitInclusive more)
    (by simp [splitInclusive_flatten]) (fun z => not_dd_prefix_append E z hd) (no_pat_append_LF E hp) hc]
  simp [stripLineBreak_append_LF, splitInclusive_flatten]



theorem hashedText_eq_canon (chunks : List Bytes) : hashedText chunks = canon chunks.flatten := by
  have := (hasher_fold chunks {} [] rfl rfl).1
  simpa [hashedText, Hasher.done] using this

theorem window_pos : 0 < Gen.normalizedReaderWindow := by decide

theorem signedText_eq (csf : Bytes) : signedText csf = canon (unescapeTrim csf) :=
  replaceNewlines_crlf _

theorem signInputMany_eq (t : Bytes) : signInputMany t = canon (trimLines t) := by
  unfold signInputMany; rw [replaceNewlines_crlf, unescapeTrim_dashEscape]; rfl

theorem signInputNew_eq (chunk : Bytes → List Bytes) (hch : ∀ x, (chunk x).flatten = x) (t : Bytes) :
    signInputNew chunk t = canon (trimLines t) := by
  unfold signInputNew
  rw [hashedText_eq_canon, hch, normalizedRead_eq_canon _ window_pos, canon_idem,
    unescapeTrim_dashEscape]

theorem verifyInput_eq (csf : Bytes) : verifyInput csf = signedText csf := by
  unfold verifyInput
  rw [normalizedRead_eq_canon _ window_pos, signedText_eq, canon_idem]

theorem endsCR_escapeGo (s : Bool) (t : Bytes) : endsCR (escapeGo s t) = endsCR t := by
  induction t generalizing s with
  | nil => rfl
  | cons b r ih =>
    cases r with
    | nil =>
      by_cases h : (s && b == DASH) = true
      · simp [escapeGo, h]
      · have h' : (s && b == DASH) = false := by simpa using h
        simp [escapeGo, h']
    | cons c r =>
      have hne : escapeGo (b == LF) (c :: r) ≠ [] := by
        simp only [escapeGo]
        cases (b == LF && c == DASH) <;> simp
      have e : escapeGo s (b :: c :: r) =
          ((if s && b == DASH then [DASH, SP] else []) ++ [b]) ++ escapeGo (b == LF) (c :: r) := by
        simp [escapeGo]
      rw [e, endsCR_append_ne_nil _ _ hne, ih, endsCR_cons_cons]

theorem endsCR_dashEscape (t : Bytes) : endsCR (dashEscape t) = endsCR t := by
  rw [dashEscape_eq_go, endsCR_escapeGo]



def hashSpecB (id : Nat) : Bool :=
  match hashName id with
  | none => true
  | some n => (hashHeaderLine (hashTag ++ n ++ [LF]) == some [n]) && !(n.contains LF) &&
      (hashOfName n == some id)

theorem hashSpecB_small : ∀ id, id < 111 → hashSpecB id = true := by decide

theorem hashName_large (id : Nat) (h : 111 ≤ id) : hashName id = none := by
  simp only [hashName, Gen.hashIdNone, Gen.hashIdMd5, Gen.hashIdSha1, Gen.hashIdRipemd160,
    Gen.hashIdSha256, Gen.hashIdSha384, Gen.hashIdSha512, Gen.hashIdSha224, Gen.hashIdSha3_256,
    Gen.hashIdSha3_512, Gen.hashIdPrivate10]
  simp [show id ≠ 0 by omega, show id ≠ 1 by omega, show id ≠ 2 by omega, show id ≠ 3 by omega,
    show id ≠ 8 by omega, show id ≠ 9 by omega, show id ≠ 10 by omega, show id ≠ 11 by omega,
    show id ≠ 12 by omega, show id ≠ 14 by omega, show id ≠ 110 by omega]

theorem hashName_spec (id : Nat) (n : Bytes) (h : hashName id = some n) :
    hashHeaderLine (hashTag ++ n ++ [LF]) = some [n] ∧ LF ∉ n ∧ hashOfName n = some id := by
  by_cases hid : id < 111
  · have := hashSpecB_small id hid
    simp only [hashSpecB, h, Bool.and_eq_true, beq_iff_eq, Bool.not_eq_true', List.contains_eq_mem,
      decide_eq_false_iff_not] at this
    exact ⟨this.1.1, this.1.2, this.2⟩
  · rw [hashName_large id (by omega)] at h; cases h


theorem hashHeaderLine_LF : hashHeaderLine [LF] = none := by decide
theorem isBlankLine_LF : isBlankLine [LF] = true := by decide
theorem LF_notin_header : LF ∉ csfHeaderLine := by decide
theorem LF_notin_hashTag : LF ∉ hashTag := by decide
theorem lineContent_header : lineContent (csfHeaderLine ++ [LF]) = some csfHeaderLine := by decide

/-- header lines written for `names`, then the blank line, then `body`: the header reader
returns the names and leaves exactly the lines of `body` -/
theorem readHashHeaders_written (ids : List Nat) (names : List Bytes) (body : Bytes)
    (hn : ids.mapM hashName = some names) :
    readHashHeaders (splitInclusive ((names.map fun n => hashTag ++ n ++ [LF]).flatten ++ LF :: body)) =
      some (names, splitInclusive body) ∧ validateHeaders names = some ids := by
  induction ids generalizing names with
  | nil =>
    simp at hn; subst hn
    simp [splitInclusive_cons, readHashHeaders, hashHeaderLine_LF, isBlankLine_LF, validateHeaders]
  | cons id ids ih =>
    rw [List.mapM_cons] at hn
    cases h1 : hashName id with
    | none => simp [h1] at hn
    | some n =>
      cases h2 : ids.mapM hashName with
      | none => simp [h1, h2] at hn
      | some ns =>
        simp [h1, h2] at hn
        subst hn
        obtain ⟨hl, hnl, hof⟩ := hashName_spec id n h1
        obtain ⟨ih1, ih2⟩ := ih ns h2
        have hX : LF ∉ hashTag ++ n := by
          simp only [List.mem_append, not_or]; exact ⟨LF_notin_hashTag, hnl⟩
        constructor
        · simp only [List.map_cons, List.flatten_cons]
          have e : hashTag ++ n ++ [LF] ++ (ns.map fun n => hashTag ++ n ++ [LF]).flatten ++ LF :: body =
              (hashTag ++ n) ++ LF :: ((ns.map fun n => hashTag ++ n ++ [LF]).flatten ++ LF :: body) := by
            simp [List.append_assoc]
          rw [e, splitInclusive_line _ _ hX]
          simp only [readHashHeaders, hl, ih1]
          simp
        · simp only [validateHeaders] at ih2 ⊢
          rw [List.mapM_cons]
          simp [hof, ih2]

/-! ## separator after a final CR; signed input -/

/-- the separator `to_armored_writer` writes after the text -/
def sepFixed (csf : Bytes) : Bytes := if endsCR csf then [CR, LF] else [LF]

/-- what `new`/`new_many` hand to the text-mode hasher, as a specification -/
def signInputFixed (t : Bytes) : Bytes := canon (unescapeTrim (dashEscape t))

theorem no_pat_append_CR (E : Bytes) (h : ¬ bodyEndPat <:+: E) : ¬ bodyEndPat <:+: E ++ [CR] := by
  rintro ⟨p, q, hq⟩
  rcases List.eq_nil_or_concat q with rfl | ⟨q', x, rfl⟩
  · simp [bodyEndPat, fiveDashes] at hq
    have := congrArg List.getLast? hq
    simp at this
    exact absurd this (by decide)
  · have : p ++ bodyEndPat ++ q' ++ [x] = E ++ [CR] := by simpa [List.append_assoc] using hq
    have h' := List.append_inj' this rfl
    exact h ⟨p, q', h'.1⟩

theorem not_dd_prefix_append_CR (E : Bytes) (h : ¬ [DASH, DASH] <+: E) (hne : E ≠ []) :
    ¬ [DASH, DASH] <+: E ++ [CR] := by
  have hdc : DASH ≠ CR := by decide
  match E with
  | [] => exact absurd rfl hne
  | [x] => rintro ⟨q, hq⟩; simp at hq; exact hdc hq.2.1
  | x :: y :: r =>
    rintro ⟨q, hq⟩
    simp at hq
    exact h ⟨r, by rw [← hq.1, ← hq.2.1]; rfl⟩

theorem endsCR_append_CR (E : Bytes) : endsCR (E ++ [CR]) = true := by
  rw [endsCR_append_ne_nil _ _ (by simp)]; rfl

theorem readCleartextBody_sepFixed (E c more : Bytes)
    (hp : ¬ bodyEndPat <:+: E) (hd : ¬ [DASH, DASH] <+: E) (hc : LF ∉ c) :
    readCleartextBody (E ++ sepFixed E ++ (fiveDashes ++ c ++ LF :: more)) =
      some (E, fiveDashes ++ c ++ LF :: more) := by
  unfold sepFixed
  by_cases h : endsCR E = true
  · have hne : E ≠ [] := by intro e; subst e; simp at h
    have e : E ++ (if endsCR E = true then [CR, LF] else [LF]) ++ (fiveDashes ++ c ++ LF :: more) =
        (E ++ [CR]) ++ LF :: (fiveDashes ++ c ++ LF :: more) := by simp [h]
    rw [e, readCleartextBody_spec (E ++ [CR]) c more (no_pat_append_CR E hp)
      (not_dd_prefix_append_CR E hd hne) hc, endsCR_append_CR]
    simp
  · have h' : endsCR E = false := by simpa using h
    have e : E ++ (if endsCR E = true then [CR, LF] else [LF]) ++ (fiveDashes ++ c ++ LF :: more) =
        E ++ LF :: (fiveDashes ++ c ++ LF :: more) := by simp [h']
    rw [e, readCleartextBody_spec E c more hp hd hc, h']
    rfl



theorem findLast_some (pat s : Bytes) (i : Nat) (h : findLast pat s = some i) :
    pat <+: s.drop i ∧ i ≤ s.length := by
  induction s generalizing i with
  | nil =>
    by_cases hp : pat.isPrefixOf [] = true
    · simp [findLast, hp] at h; subst h
      exact ⟨List.isPrefixOf_iff_prefix.mp hp, Nat.le_refl _⟩
    · simp [findLast, hp] at h
  | cons b r ih =>
    cases hr : findLast pat r with
    | some j =>
      simp [findLast, hr] at h; subst h
      obtain ⟨h1, h2⟩ := ih j hr
      exact ⟨by simpa using h1, by simp; omega⟩
    | none =>
      by_cases hp : pat.isPrefixOf (b :: r) = true
      · simp [findLast, hr, hp] at h; subst h
        exact ⟨List.isPrefixOf_iff_prefix.mp hp, by simp⟩
      · simp [findLast, hr, hp] at h

theorem take_succ_append (A : Bytes) (x : Byte) (R : Bytes) :
    (A ++ x :: R).take (A.length + 1) = A ++ [x] ∧ (A ++ x :: R).drop (A.length + 1) = R := by
  have e : A ++ x :: R = (A ++ [x]) ++ R := by simp
  have l : A.length + 1 = (A ++ [x]).length := by simp
  rw [e, l]
  exact ⟨List.take_left' rfl, List.drop_left' rfl⟩

/-- the two possible "trailing line breaks" removed by `read_cleartext_body` -/
def IsSep (s : Bytes) : Prop := s = [LF] ∨ s = [CR, LF]

theorem stripLineBreak_sep (x : Bytes) :
    ∃ sep, IsSep sep ∧ stripLineBreak (x ++ [LF]) ++ sep = x ++ [LF] := by
  rw [stripLineBreak_append_LF]
  by_cases h : endsCR x = true
  · refine ⟨[CR, LF], Or.inr rfl, ?_⟩
    simp only [h, if_true]
    have := dropLast_append_CR x h
    calc x.dropLast ++ [CR, LF] = (x.dropLast ++ [CR]) ++ [LF] := by simp
      _ = x ++ [LF] := by rw [this]
  · refine ⟨[LF], Or.inl rfl, ?_⟩
    simp [h]

/-- soundness of the body reader on ANY input: what it returns is a split of the input — text,
one line break, then the rest, which starts at a line that begins with `-----` -/
theorem readBodyLoop_sound (ls : List Bytes) (out txt pre : Bytes) (ls' : List Bytes)
    (h : readBodyLoop out ls = some (txt, pre, ls')) :
    fiveDashes <+: pre ∧
    ((txt = [] ∧ out ++ ls.flatten = pre ++ ls'.flatten) ∨
     ∃ sep, IsSep sep ∧ out ++ ls.flatten = txt ++ sep ++ pre ++ ls'.flatten) := by
  induction ls generalizing out with
  | nil => simp [readBodyLoop] at h
  | cons l ls ih =>
    by_cases hp : fiveDashes.isPrefixOf (out ++ l) = true
    · simp [readBodyLoop, hp] at h
      obtain ⟨rfl, rfl, rfl⟩ := h
      exact ⟨List.isPrefixOf_iff_prefix.mp hp, Or.inl ⟨rfl, by simp⟩⟩
    · cases hf : findLast bodyEndPat (out ++ l) with
      | none =>
        simp [readBodyLoop, hp, hf] at h
        have := ih (out ++ l) h
        simpa [List.append_assoc] using this
      | some pos =>
        simp [readBodyLoop, hp, hf] at h
        obtain ⟨h1, h2, h3⟩ := h
        obtain ⟨⟨q, hq⟩, hle⟩ := findLast_some _ _ _ hf
        have hsplit : out ++ l = (out ++ l).take pos ++ LF :: (fiveDashes ++ q) := by
          have : bodyEndPat ++ q = LF :: (fiveDashes ++ q) := rfl
          rw [← this, hq, List.take_append_drop]
        have hlen : ((out ++ l).take pos).length = pos := by
          rw [List.length_take]; omega
        generalize (out ++ l).take pos = A at hsplit hlen
        obtain ⟨ht, hd⟩ := take_succ_append A LF (fiveDashes ++ q)
        rw [hlen, ← hsplit] at ht hd
        rw [ht] at h1
        rw [hd] at h2
        subst h1 h2 h3
        obtain ⟨sep, hs, he⟩ := stripLineBreak_sep A
        refine ⟨⟨q, rfl⟩, Or.inr ⟨sep, hs, ?_⟩⟩
        rw [he, List.flatten_cons, ← List.append_assoc out l, hsplit]
        simp [List.append_assoc]


/-- `from_string (to_armored_string m)` up to the signature block, on the model -/
theorem readDoc_writeDoc (ids : List Nat) (names : List Bytes) (t c more : Bytes)
    (hn : ids.mapM hashName = some names) (hc : LF ∉ c) :
    readDoc (writeDoc names (dashEscape t) (fiveDashes ++ c ++ LF :: more)) =
      some (ids, dashEscape t, fiveDashes ++ c ++ LF :: more) := by
  unfold readDoc writeDoc
  have e : csfHeaderLine ++ [LF] ++ (names.map fun n => hashTag ++ n ++ [LF]).flatten ++ [LF] ++
        dashEscape t ++ (if endsCR (dashEscape t) then [CR, LF] else [LF]) ++
        (fiveDashes ++ c ++ LF :: more) =
      csfHeaderLine ++ LF :: ((names.map fun n => hashTag ++ n ++ [LF]).flatten ++
        LF :: (dashEscape t ++ sepFixed (dashEscape t) ++ (fiveDashes ++ c ++ LF :: more))) := by
    simp [List.append_assoc, sepFixed]
  rw [e, splitInclusive_line _ _ LF_notin_header]
  simp only [lineContent_header, if_true]
  obtain ⟨h1, h2⟩ := readHashHeaders_written ids names
    (dashEscape t ++ sepFixed (dashEscape t) ++ (fiveDashes ++ c ++ LF :: more)) hn
  rw [h1]
  simp only [h2]
  have hb := readCleartextBody_sepFixed (dashEscape t) c more (dashEscape_no_pat t)
    (dashEscape_no_dashdash t) hc
  unfold readCleartextBody at hb
  rw [hb]
  rfl

end Rpgp
