import RpgpProofs.E2ETop
import RpgpProps.C18
/-! E2E, part 7: recovering the session key with ONE presented secret.  Thin adapter from the wire
values (`Wire.Pkesk`, `Wire.Skesk`) to the abstract ESKs of the C18 model, then
`C18.each_password_recipient_alone_partial` / `C18.each_key_recipient_decrypts`. -/
namespace Rpgp.E2E
open Rpgp

/-- the ESKs handed to `TheRing` -/
def ringEsks (P : Prims) (e : Encryption) : List (Ring.Esk Wire.PkeskVals Wire.Skesk) :=
  (wireEsks P e).map WireEsk.toRing

/-- public-key law for recipient key `j` of class `isX`: decrypting what was encrypted to the key
returns the session key (`PlainSecretParams::decrypt ∘ EncryptionKey::encrypt`, both ESK types) -/
def PkLaw (P : Prims) (j : Nat) (isX : Bool) : Prop :=
  (∀ alg sk, alg < 256 → alg ≠ Gen.symIdPlaintext → Gen.symKeySize alg = sk.length →
    P.pkDec j (P.pkEnc j (Ring.prepareSessionKey (some alg) sk isX) false) false = some (.v3_4 alg sk)) ∧
  (∀ sk, P.pkDec j (P.pkEnc j (Ring.prepareSessionKey none sk isX) true) true = some (.v6 sk))

/-- thin adapter to C18's plausibility tail: a key whose `decrypt` is "raw public-key decryption, then
`decodePkSessionKey`" (RSA, ECDH, ElGamal arms of `PlainSecretParams::decrypt`) satisfies `PkLaw`
as soon as the raw operation inverts the raw encryption -/
theorem pkLaw_of_raw (P : Prims) (j : Nat) (raw : Wire.PkeskVals → Option Bytes)
    (hdec : ∀ vals v6, P.pkDec j vals v6 = (raw vals).bind (Ring.decodePkSessionKey v6))
    (hraw : ∀ d v6, raw (P.pkEnc j d v6) = some d) : PkLaw P j false := by
  refine ⟨?_, ?_⟩
  · intro alg sk h1 h2 h3
    rw [hdec, hraw]
    exact C18.prepare_decode_v3 alg sk h1 h2 h3
  · intro sk
    rw [hdec, hraw]
    exact C18.prepare_decode_v6 sk

theorem sym_ne_zero (e : Encryption) (wf : EskWF e) : e.container.sym ≠ Gen.symIdPlaintext := by
  obtain ⟨_, hks, hne⟩ := wf.sym
  intro h0
  rw [h0] at hks
  have : Gen.symKeySize Gen.symIdPlaintext = 0 := by decide
  rw [this] at hks
  exact hne (List.eq_nil_of_length_eq_zero hks.symm)

theorem toRingSk_skeskOf (P : Prims) (e : Encryption) (wf : EskWF e) (r : PwRcpt) :
    ∃ ver, toRingSk (skeskOf P e r) = .known ver e.container.sym (skeskOf P e r) ∧ Ring.skSkip false ver = false := by
  have hsym := wf.sym.1
  cases hc : e.container with
  | v1 sym pre =>
    simp only [hc, Container.sym] at hsym
    exact ⟨Gen.skeskVersionA, by simp [skeskOf, hc, toRingSk, Container.sym, toUInt8_toNat_of_lt sym hsym], by decide⟩
  | v2 sym aead cs salt =>
    simp only [hc, Container.sym] at hsym
    exact ⟨Gen.skeskVersionC, by simp [skeskOf, hc, toRingSk, Container.sym, toUInt8_toNat_of_lt sym hsym], by decide⟩

theorem mem_ringEsks_sk (P : Prims) (e : Encryption) (wf : EskWF e) (ver alg : Nat) (ct : Wire.Skesk)
    (h : Ring.Esk.sk (.known ver alg ct) ∈ ringEsks P e) :
    ∃ r ∈ e.passwords, ct = skeskOf P e r ∧ alg = e.container.sym := by
  unfold ringEsks wireEsks at h
  rw [List.map_append, List.mem_append] at h
  rcases h with h | h
  · simp only [List.map_map, List.mem_map, Function.comp] at h
    obtain ⟨r, hr, heq⟩ := h
    obtain ⟨ver', hk, _⟩ := toRingSk_skeskOf P e wf r
    simp only [WireEsk.toRing, hk, Ring.Esk.sk.injEq, Ring.Skesk.known.injEq] at heq
    exact ⟨r, hr, heq.2.2.symm, heq.2.1.symm⟩
  · simp only [List.map_map, List.mem_map, Function.comp] at h
    obtain ⟨r, _, heq⟩ := h
    simp [WireEsk.toRing] at heq

theorem mem_ringEsks_pk (P : Prims) (e : Encryption) (pe : Ring.Pkesk Wire.PkeskVals)
    (h : Ring.Esk.pk pe ∈ ringEsks P e) : ∃ r ∈ e.keys, pe = toRingPk (pkeskPacket P e r) := by
  unfold ringEsks wireEsks at h
  rw [List.map_append, List.mem_append] at h
  rcases h with h | h
  · simp only [List.map_map, List.mem_map, Function.comp] at h
    obtain ⟨r, _, heq⟩ := h
    simp [WireEsk.toRing] at heq
  · simp only [List.map_map, List.mem_map, Function.comp] at h
    obtain ⟨r, hr, heq⟩ := h
    simp only [WireEsk.toRing, Ring.Esk.pk.injEq] at heq
    exact ⟨r, hr, heq.symm⟩

theorem no_plaintext_skesk (P : Prims) (e : Encryption) (wf : EskWF e) :
    ∀ ver ct, Ring.Esk.sk (.known ver Gen.symIdPlaintext ct) ∉ ringEsks P e := by
  intro ver ct h
  obtain ⟨_, _, _, halg⟩ := mem_ringEsks_sk P e wf ver _ ct h
  exact sym_ne_zero e wf halg.symm

theorem payload_pkesk (P : Prims) (e : Encryption) (r : KeyRcpt) :
    (toRingPk (pkeskPacket P e r)).payload = some (pkVals P e r, e.container.isV2) := by
  cases hc : e.container with
  | v1 sym pre => simp [pkeskPacket, hc, toRingPk, Ring.Pkesk.payload, Container.isV2]
  | v2 sym aead cs salt =>
    by_cases ha : r.anonymous <;> simp [pkeskPacket, hc, toRingPk, Ring.Pkesk.payload, Container.isV2, ha]

/-- **each password recipient alone** at message level: `decrypt_with_password(pw_r)` finds the session
key and opens the container, provided this password does not "open" another SKESK of the message to a
different key (the guard of `C18.each_password_recipient_alone_partial`; see D18b) -/
theorem ring_password (P : Prims) (L : CryptoLaws P) (e : Encryption) (wf : EskWF e)
    (openEd : Wire.Seipd → Ring.SessionKey → Option Result) (ed : Wire.Seipd) (res : Result)
    (r : PwRcpt) (hr : r ∈ e.passwords)
    (hbody : ∀ r' ∈ e.passwords, ∃ b, skeskBody P e r' = some b)
    (hguard : ∀ r' ∈ e.passwords, ∀ k', skDec P (skeskOf P e r') r.pw = some k' → k' = sessionKeyOf e)
    (hed : openEd ed (sessionKeyOf e) = some res) :
    Ring.decryptWithPassword (ringPrims P) openEd r.pw (.encrypted (ringEsks P e) ed) = .ok res := by
  obtain ⟨b, hb⟩ := hbody r hr
  obtain ⟨_, _, hopen⟩ := skeskBody_facts P L e r b wf hr hb
  obtain ⟨ver, hk, hskip⟩ := toRingSk_skeskOf P e wf r
  have hmem : Ring.Esk.sk (.known ver e.container.sym (skeskOf P e r)) ∈ ringEsks P e := by
    unfold ringEsks wireEsks
    rw [List.map_append, List.mem_append]
    left
    rw [← hk]
    exact List.mem_map.mpr ⟨.sk (skeskOf P e r), List.mem_map.mpr ⟨r, hr, rfl⟩, rfl⟩
  obtain ⟨rr, hfind⟩ := C18.each_password_recipient_alone_partial (ringPrims P) r.pw (ringEsks P e) true false
    (sessionKeyOf e) (no_plaintext_skesk P e wf) ver e.container.sym (skeskOf P e r) hmem hskip hopen
    (by
      intro ver' alg' ct' hm' k' hk'
      obtain ⟨r', hr', rfl, _⟩ := mem_ringEsks_sk P e wf ver' alg' ct' hm'
      exact hguard r' hr' k' hk')
  simp [Ring.decryptWithPassword, Ring.decryptTheRing, hfind, hed, Except.map]

/-- a recipient key as it sits in the presented `SignedSecretKey`: a component with the recipient's
identity whose secret material is unlocked -/
def HoldsKey (K : Ring.SecKey Nat Unit) (r : KeyRcpt) : Prop :=
  ∃ c ∈ K.comps, c.ident = r.ident ∧ c.secret = .plain r.key

theorem matchIdentity_own (P : Prims) (e : Encryption) (r : KeyRcpt) (hver : r.ident.fp.ver < 256) :
    (toRingPk (pkeskPacket P e r)).matchIdentity r.ident = true := by
  cases hc : e.container with
  | v1 sym pre =>
    by_cases ha : r.anonymous <;> simp [pkeskPacket, hc, toRingPk, Ring.Pkesk.matchIdentity, ha]
  | v2 sym aead cs salt =>
    by_cases ha : r.anonymous
    · simp [pkeskPacket, hc, toRingPk, Ring.Pkesk.matchIdentity, ha]
    · simp only [pkeskPacket, hc, toRingPk, Ring.Pkesk.matchIdentity, ha, Bool.false_eq_true, if_false,
        toUInt8_toNat_of_lt _ hver]
      simp

/-- **each key recipient alone** at message level: `decrypt(&Password::empty(), key)` finds the session
key and opens the container, provided no component of the presented key decrypts a PKESK of the
message to a *different* session key (robustness of the public-key primitive, as in
`C18.each_key_recipient_alone`) -/
theorem ring_key (P : Prims) (e : Encryption) (wf : EskWF e)
    (openEd : Wire.Seipd → Ring.SessionKey → Option Result) (ed : Wire.Seipd) (res : Result)
    (K : Ring.SecKey Nat Unit) (r : KeyRcpt) (hr : r ∈ e.keys) (hK : HoldsKey K r) (hver : r.ident.fp.ver < 256)
    (hlaw : P.pkDec r.key (pkVals P e r) e.container.isV2 = some (sessionKeyOf e))
    (hrob : ∀ c' ∈ K.comps, ∀ p, c'.secret = .plain p → ∀ r' ∈ e.keys, ∀ k,
      P.pkDec p (pkVals P e r') e.container.isV2 = some k → k = sessionKeyOf e)
    (hed : openEd ed (sessionKeyOf e) = some res) :
    Ring.decrypt (ringPrims P) openEd [] K (.encrypted (ringEsks P e) ed) = .ok res := by
  obtain ⟨c, hc, hid, hsec⟩ := hK
  have hmem : Ring.Esk.pk (toRingPk (pkeskPacket P e r)) ∈ ringEsks P e := by
    unfold ringEsks wireEsks
    rw [List.map_append, List.mem_append]
    right
    exact List.mem_map.mpr ⟨.pk (pkeskPacket P e r), List.mem_map.mpr ⟨r, hr, rfl⟩, rfl⟩
  refine C18.each_key_recipient_decrypts (ringPrims P) openEd [] K (ringEsks P e) ed (sessionKeyOf e) res
    (no_plaintext_skesk P e wf) _ hmem _ _ (payload_pkesk P e r) c hc
    (by rw [hid]; exact matchIdentity_own P e r hver)
    (C18.unlocked_opens (ringPrims P) _ c _ _ r.key hsec _ hlaw) ?_ hed
  intro e' he' c' hc' k hy
  obtain ⟨r', hr', rfl⟩ := mem_ringEsks_pk P e e' he'
  obtain ⟨ct, v6, p, hp, _, hreach, hd⟩ := hy
  rw [payload_pkesk] at hp
  simp only [Option.some.injEq, Prod.mk.injEq] at hp
  obtain ⟨rfl, rfl⟩ := hp
  rcases hreach with hpl | ⟨enc, pw, _, _, hu⟩
  · exact hrob c' hc' p hpl r' hr' k hd
  · simp [ringPrims] at hu

end Rpgp.E2E
