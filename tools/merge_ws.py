#!/usr/bin/env python3
"""merge_ws.py <ws> <PROP> <base-commit>: copy the files a builder created/changed in /tmp/w/<ws>/verif
into /verif when they did not exist at <base-commit> or were changed by the builder and not since
changed in /verif; report shared files needing a manual merge."""
import os, subprocess, sys, filecmp, shutil
ws, prop, base = sys.argv[1], sys.argv[2], sys.argv[3]
W = f"/tmp/w/{ws}/verif"
SKIP = ("harness/target", "lean/.lake", "work/", "replays/", "evidence/", "__pycache__", "MANIFEST.json",
        "lean/RpgpModel/Gen/Constants.lean", "harness/Cargo.lock", "setup.sh")
def base_content(rel):
    try:
        return subprocess.check_output(["git", "-C", "/verif", "show", f"{base}:{rel}"], stderr=subprocess.DEVNULL)
    except subprocess.CalledProcessError:
        return None
manual = []
for root, dirs, files in os.walk(W):
    for f in files:
        p = os.path.join(root, f)
        rel = os.path.relpath(p, W)
        if any(rel.startswith(s) or s in rel for s in SKIP) or rel.startswith(".git"):
            continue
        b = base_content(rel)
        cur = os.path.join("/verif", rel)
        new = open(p, "rb").read()
        if b is None:
            if os.path.exists(cur) and open(cur, "rb").read() != new:
                manual.append((rel, "new in both"))
            else:
                os.makedirs(os.path.dirname(cur), exist_ok=True)
                shutil.copy2(p, cur)
                print("copied (new)", rel)
        elif b != new:
            # builder changed a pre-existing file
            if os.path.exists(cur) and open(cur, "rb").read() == b:
                shutil.copy2(p, cur)
                print("copied (changed by builder, untouched here)", rel)
            else:
                manual.append((rel, "changed by builder and here"))
for rel, why in manual:
    print("MANUAL", rel, why)
