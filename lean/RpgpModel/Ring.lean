import RpgpModel.Bytes
import RpgpModel.Gen.Constants
/-!
# Ring — session-key search of `TheRing` (C18)

Transcription of

* `src/composed/message/types.rs`: `TheRing::find_session_key`, `TheRing::try_decrypt`,
  `Message::decrypt_the_ring` and its wrappers `decrypt`, `decrypt_with_keys`,
  `decrypt_with_password`, `decrypt_with_session_key`, `RingResult`/`InnerRingResult`;
* `src/packet/public_key_encrypted_session_key.rs`: `match_identity`,
  `prepare_session_key_for_encryption`;
* `src/composed/message/decrypt.rs`: `PlainSessionKey` (derived equality),
  `decrypt_session_key_with_password`;
* `src/packet/sym_key_encrypted_session_key.rs`: `decrypt` (v4 plausibility check);
* `src/types/params/plain_secret.rs`: tail of `PlainSecretParams::decrypt` (algorithm octet, length and
  checksum plausibility of a decrypted session key);
* `src/packet/key/secret.rs`: `SecretKey::unlock` + `DecryptionKey::decrypt`.

Cryptographic primitives are parameters (`structure Prims`): unlocking of encrypted secret
parameters, public-key decryption of a PKESK body *including* the plausibility tail (also modelled
on its own below, `decodePkSessionKey`), password decryption of an SKESK, opening of the encrypted
data packet with a session key.  Core Lean only.
-/
namespace Rpgp.Ring
open Rpgp

/-! ## session keys -/

/-- `PlainSessionKey` (composed/message/decrypt.rs); equality is the derived `PartialEq`: variant,
algorithm and key bytes. -/
inductive SessionKey where
  | v3_4 (symAlg : Nat) (key : Bytes)
  | v5 (key : Bytes)
  | v6 (key : Bytes)
  deriving DecidableEq, Repr

/-- `crypto::checksum::calculate_simple`: sum of the octets, masked to 16 bits -/
def checksum16 (bs : Bytes) : Nat := (bs.foldl (fun a b => a + b.toNat) 0) % (Gen.checksumMask + 1)

/-- `PublicKeyEncryptedSessionKey::prepare_session_key_for_encryption`: optional algorithm octet
(v3 PKESK), the raw key, and — except for X25519/X448 — the two-octet checksum. -/
def prepareSessionKey (alg : Option Nat) (sk : Bytes) (isX : Bool) : Bytes :=
  (match alg with | some a => [a.toUInt8] | none => []) ++ sk ++ (if isX then [] else be16 (checksum16 sk))

/-- tail of `PlainSecretParams::decrypt` for the RSA / ECDH / ElGamal arms: `typ = V3_4`
(`v6 = false`): first octet is the algorithm (not Plaintext), length = key_size + 3, checksum;
`typ = V6`: at least 2 octets, checksum.  (The V3_4 arm indexes `decrypted_key[0]` unguarded:
an empty plaintext is a panic in the code — defect D4a of DESIGN §8, C04 — and is `none` here.) -/
def decodePkSessionKey (v6 : Bool) (d : Bytes) : Option SessionKey :=
  if v6 then
    if d.length < Gen.pkV6MinLen then none
    else
      let key := d.take (d.length - Gen.pkV6ChecksumLen)
      let ck := d.drop (d.length - Gen.pkV6ChecksumLen)
      if ck = be16 (checksum16 key) then some (.v6 key) else none
  else
    match d with
    | [] => none
    | a :: _ =>
      let alg := a.toNat
      if alg = Gen.symIdPlaintext then none
      else
        let ks := Gen.symKeySize alg
        if d.length ≠ ks + Gen.pkV3Overhead then none
        else
          let key := (d.drop 1).take ks
          let ck := (d.drop (ks + 1)).take (Gen.pkV3ChecksumEndOffset - 1)
          if ck = be16 (checksum16 key) then some (.v3_4 alg key) else none

/-- X25519 arm of `PlainSecretParams::decrypt` (after AES key unwrap): the algorithm octet travels in
the clear in the PKESK; `(V3_4, Some alg)` and `(V6, None)` are the only accepted combinations. -/
def decodeX25519SessionKey (v6 : Bool) (symAlg : Option Nat) (key : Bytes) : Option SessionKey :=
  match v6, symAlg with
  | false, some a => some (.v3_4 a key)
  | true, none => some (.v6 key)
  | _, _ => none

/-- X448 arm: the ESK type is not consulted, only the presence of the algorithm octet. -/
def decodeX448SessionKey (symAlg : Option Nat) (key : Bytes) : SessionKey :=
  match symAlg with
  | some a => .v3_4 a key
  | none => .v6 key

/-- `SymKeyEncryptedSessionKey::decrypt`, V4 arm, after CFB decryption: "v4 SKESK decryption doesn't
guarantee integrity. Check plausibility": known algorithm (key size ≠ 0) whose key size equals the
number of remaining octets.  (`decrypted_key[0]` on an empty key is unreachable through
`decrypt_session_key_with_password`, which handles the empty case before.) -/
def decodeSkeskV4 (d : Bytes) : Option SessionKey :=
  match d with
  | [] => none
  | a :: key =>
    let ks := Gen.symKeySize a.toNat
    if ks = 0 then none
    else if ks ≠ key.length then none
    else some (.v3_4 a.toNat key)

/-! ## identities -/

/-- `Fingerprint`: key version + bytes (derived equality compares both) -/
structure Fingerprint where
  ver : Nat
  bytes : Bytes
  deriving DecidableEq, Repr

/-- what `match_identity` reads of a key component (`KeyDetails`) -/
structure Ident where
  keyId : Bytes
  fp : Fingerprint
  deriving DecidableEq, Repr

/-- `KeyId::WILDCARD` -/
def wildcardKeyId : Bytes := List.replicate Gen.wildcardKeyIdLen Gen.wildcardKeyIdByte.toUInt8

/-- `PublicKeyEncryptedSessionKey` as far as the search reads it; `ct` stands for `values` -/
inductive Pkesk (CT : Type) where
  | v3 (id : Bytes) (ct : CT)
  | v6 (fp : Option Fingerprint) (ct : CT)
  | other (version : Nat)

/-- `PublicKeyEncryptedSessionKey::match_identity` -/
def Pkesk.matchIdentity {CT : Type} : Pkesk CT → Ident → Bool
  | .v3 id _, k => id == wildcardKeyId || id == k.keyId
  | .v6 (some f) _, k => f == k.fp
  | .v6 none _, _ => true
  | .other _, _ => false

/-- `esk.version()` → `EskType` (`false` = V3_4, `true` = V6) together with `esk.values()`;
`none` for `PkeskVersion::Other` (the loop `continue`s) -/
def Pkesk.payload {CT : Type} : Pkesk CT → Option (CT × Bool)
  | .v3 _ ct => some (ct, false)
  | .v6 _ ct => some (ct, true)
  | .other _ => none

/-- `SymKeyEncryptedSessionKey` as far as the search reads it -/
inductive Skesk (SCT : Type) where
  | known (version : Nat) (symAlg : Nat) (ct : SCT)
  | other (version : Nat)

inductive Esk (CT SCT : Type) where
  | pk (e : Pkesk CT)
  | sk (e : Skesk SCT)

/-! ## keys, ring, primitives -/

/-- `SecretParams` -/
inductive Secret (PLAIN ENC : Type) where
  | plain (p : PLAIN)
  | encrypted (e : ENC)

def Secret.isLocked {PLAIN ENC : Type} : Secret PLAIN ENC → Bool
  | .plain _ => false
  | .encrypted _ => true

/-- one secret (sub)key packet -/
structure Comp (PLAIN ENC : Type) where
  ident : Ident
  secret : Secret PLAIN ENC

/-- `SignedSecretKey`: primary + secret subkeys, in order -/
structure SecKey (PLAIN ENC : Type) where
  primary : Comp PLAIN ENC
  subkeys : List (Comp PLAIN ENC)

def SecKey.comps {PLAIN ENC : Type} (k : SecKey PLAIN ENC) : List (Comp PLAIN ENC) := k.primary :: k.subkeys

/-- `TheRing` (+ the one `DecryptionOptions` flag the search reads) -/
structure Ring (PLAIN ENC PW : Type) where
  secretKeys : List (SecKey PLAIN ENC)
  keyPasswords : List PW
  messagePasswords : List PW
  sessionKeys : List SessionKey
  gnupgAead : Bool := false

structure Prims (PLAIN ENC PW CT SCT : Type) where
  /-- `EncryptedSecretParams::unlock` (`none` = wrong password / corrupt) -/
  unlock : ENC → PW → Option PLAIN
  /-- `PlainSecretParams::decrypt(pub_params, values, typ, recipient)`; the `Bool` is `typ = V6` -/
  pkDec : PLAIN → CT → Bool → Option SessionKey
  /-- `decrypt_session_key_with_password(skesk, pw)` -/
  skDec : SCT → PW → Option SessionKey

/-- `InnerRingResult` -/
inductive InnerRes where
  | unchecked | noMatch | invalidPassword | inconsistentSessionKey | invalid | ok
  deriving DecidableEq, Repr

/-- `RingResult` -/
structure RingResult where
  secretKeys : List InnerRes
  messagePassword : List InnerRes
  sessionKeys : List InnerRes
  deriving DecidableEq, Repr

section search
variable {PLAIN ENC PW CT SCT : Type} (P : Prims PLAIN ENC PW CT SCT)

/-- `Result<Result<PlainSessionKey>>` of `DecryptionKey::decrypt` -/
inductive DecRes where
  | unlockErr | decErr | ok (k : SessionKey)

/-- `SecretKey::unlock(pw, |pub, priv| priv.decrypt(..))` = `DecryptionKey::decrypt(pw, values, typ)` -/
def decryptWith (c : Comp PLAIN ENC) (pw : Option PW) (ct : CT) (v6 : Bool) : DecRes :=
  let work (p : PLAIN) : DecRes := match P.pkDec p ct v6 with | some k => .ok k | none => .decErr
  match c.secret, pw with
  | .plain p, _ => work p
  | .encrypted e, some pw => (match P.unlock e pw with | none => .unlockErr | some p => work p)
  | .encrypted _, none => .unlockErr

/-- locked arm of `try_decrypt`: every key password in order; a password that unlocks decides
(`Ok` / `Invalid`), otherwise `InvalidPassword` (or `Unchecked` without any password) -/
def tryLocked (c : Comp PLAIN ENC) (ct : CT) (v6 : Bool) : List PW → InnerRes → InnerRes × Option SessionKey
  | [], res => (res, none)
  | pw :: rest, _ =>
    match decryptWith P c (some pw) ct v6 with
    | .ok k => (.ok, some k)
    | .decErr => (.invalid, none)
    | .unlockErr => tryLocked c ct v6 rest .invalidPassword

/-- `TheRing::try_decrypt(values, typ, dec, is_locked)` with `is_locked = secret_params().is_encrypted()`
(the unlocked arm calls `decrypt(&Password::empty(), ..)`, which for plain parameters never looks at
the password) -/
def tryDecrypt (kpws : List PW) (c : Comp PLAIN ENC) (ct : CT) (v6 : Bool) : InnerRes × Option SessionKey :=
  if c.secret.isLocked then tryLocked P c ct v6 kpws .unchecked
  else
    match decryptWith P c none ct v6 with
    | .ok k => (.ok, some k)
    | _ => (.invalid, none)

/-- the `for subkey in &key.secret_subkeys` loop: stops once `result.secret_keys[i] == Ok` -/
def subkeyLoop (kpws : List PW) (e : Pkesk CT) (ct : CT) (v6 : Bool) :
    List (Comp PLAIN ENC) → InnerRes → List SessionKey → InnerRes × List SessionKey
  | [], r, f => (r, f)
  | s :: rest, r, f =>
    if r = .ok then (r, f)
    else if e.matchIdentity s.ident then
      let (r', sk) := tryDecrypt P kpws s ct v6
      subkeyLoop kpws e ct v6 rest r' (f ++ sk.toList)
    else subkeyLoop kpws e ct v6 rest r f

/-- body of `for (i, key) in self.secret_keys`: the value finally stored in `result.secret_keys[i]`
for this ESK and the session keys pushed to `pkesk_session_keys` -/
def tryKey (kpws : List PW) (e : Pkesk CT) (k : SecKey PLAIN ENC) : InnerRes × List SessionKey :=
  match e.payload with
  | none => (.noMatch, [])
  | some (ct, v6) =>
    let first : InnerRes × List SessionKey :=
      if e.matchIdentity k.primary.ident then
        let (r, sk) := tryDecrypt P kpws k.primary ct v6
        (r, sk.toList)
      else (.noMatch, [])
    subkeyLoop P kpws e ct v6 k.subkeys first.1 first.2

/-- `for esk in &pkesks { for (i, key) in … }`: every ESK overwrites every entry of
`result.secret_keys` (each `i` is first reset to `NoMatch`), pushes accumulate -/
def pkeskPhase (kpws : List PW) (keys : List (SecKey PLAIN ENC)) :
    List (Pkesk CT) → List InnerRes → List SessionKey → List InnerRes × List SessionKey
  | [], res, found => (res, found)
  | e :: es, _, found =>
    let row := keys.map (tryKey P kpws e)
    pkeskPhase kpws keys es (row.map Prod.fst) (found ++ row.flatMap Prod.snd)

/-- `for (i, pw) in self.message_password` for one SKESK: with `abort_early` the first password that
opens it wins (`break`); without, every password is tried and every session key obtained is pushed
(so that all presented passwords are cross-checked) -/
def skeskTry (abortEarly : Bool) (ct : SCT) : List PW → Nat → List InnerRes → List InnerRes × List SessionKey
  | [], _, res => (res, [])
  | pw :: rest, i, res =>
    match P.skDec ct pw with
    | some k =>
      if abortEarly then (res.set i .ok, [k])
      else
        let r := skeskTry abortEarly ct rest (i + 1) (res.set i .ok)
        (r.1, k :: r.2)
    | none => skeskTry abortEarly ct rest (i + 1) (res.set i .invalid)

/-- `for esk in skesks`: v5 SKESKs are skipped unless `gnupg_aead` -/
def skeskPhase (gnupgAead abortEarly : Bool) (mpws : List PW) :
    List (Nat × SCT) → List InnerRes → List SessionKey → List InnerRes × List SessionKey
  | [], res, found => (res, found)
  | (ver, ct) :: es, res, found =>
    if !gnupgAead && ver == Gen.skeskVersionB then skeskPhase gnupgAead abortEarly mpws es res found
    else
      let r := skeskTry P abortEarly ct mpws 0 res
      skeskPhase gnupgAead abortEarly mpws es r.1 (found ++ r.2)

end search

/-- errors of `find_session_key` -/
inductive FindErr where
  | plaintextSkesk      -- "SKESK must not use plaintext"
  | inconsistent        -- "inconsistent session keys detected"
  deriving DecidableEq, Repr

/-- "Search ESKs, grouping them by type first": unsupported SKESK versions are skipped, an SKESK whose
algorithm is Plaintext aborts the whole search -/
def groupEsks {CT SCT : Type} : List (Esk CT SCT) → Except FindErr (List (Pkesk CT) × List (Nat × SCT))
  | [] => .ok ([], [])
  | .pk e :: rest => (groupEsks rest).map fun (p, s) => (e :: p, s)
  | .sk (.known ver alg ct) :: rest =>
    if alg = Gen.symIdPlaintext then .error .plaintextSkesk
    else (groupEsks rest).map fun (p, s) => (p, (ver, ct) :: s)
  | .sk (.other _) :: rest => groupEsks rest

/-- one of the three "compare all session keys" blocks: representative = first element, consistent
iff all others equal it -/
def groupConsistent : List SessionKey → Bool × Option SessionKey
  | [] => (true, none)
  | k :: rest => (rest.all (fun k' => k' = k), some k)

/-- "compare the representatives of the groups with each other" -/
def crossConsistent : List SessionKey → Bool
  | [] => true
  | f :: rest => !(rest.any (fun k => k ≠ f))

section find
variable {PLAIN ENC PW CT SCT : Type} (P : Prims PLAIN ENC PW CT SCT)

/-- `find_session_key` after the ESKs have been grouped: the two search phases, the three per-group
comparisons, the comparison of the group representatives, and the choice pkesk > skesk > explicit -/
def findCore (ring : Ring PLAIN ENC PW) (abortEarly : Bool) (pkesks : List (Pkesk CT))
    (skesks : List (Nat × SCT)) :
    Except FindErr (Option SessionKey × RingResult) :=
  let p1 := pkeskPhase P ring.keyPasswords ring.secretKeys pkesks
    (List.replicate ring.secretKeys.length InnerRes.unchecked) []
  let p2 := skeskPhase P ring.gnupgAead abortEarly ring.messagePasswords skesks
    (List.replicate ring.messagePasswords.length InnerRes.unchecked) []
  let g1 := groupConsistent p1.2
  let g2 := groupConsistent p2.2
  let g3 := groupConsistent ring.sessionKeys
  if !(g3.1 && g2.1 && g1.1 && crossConsistent (g1.2.toList ++ g2.2.toList ++ g3.2.toList)) then
    .error .inconsistent
  else
    let result : RingResult :=
      ⟨p1.1, p2.1, List.replicate ring.sessionKeys.length InnerRes.unchecked⟩
    match g1.2, g2.2, g3.2 with
    | some k, _, _ => .ok (some k, result)
    | none, some k, _ => .ok (some k, result)
    | none, none, some k => .ok (some k, result)
    | none, none, none => .ok (none, result)

/-- `TheRing::find_session_key(esk, abort_early)` -/
def findSessionKey (ring : Ring PLAIN ENC PW) (esks : List (Esk CT SCT)) (abortEarly : Bool) :
    Except FindErr (Option SessionKey × RingResult) :=
  match abortEarly, ring.sessionKeys with
  | true, sk :: _ =>
    .ok (some sk,
      ⟨List.replicate ring.secretKeys.length InnerRes.unchecked,
       List.replicate ring.messagePasswords.length InnerRes.unchecked,
       (List.replicate ring.sessionKeys.length InnerRes.unchecked).set 0 .ok⟩)
  | _, _ =>
    match groupEsks esks with
    | .error e => .error e
    | .ok (pkesks, skesks) => findCore P ring abortEarly pkesks skesks

/-- a parsed message: `Message::Encrypted { esk, edata }` or anything else -/
inductive Msg (CT SCT ED : Type) where
  | notEncrypted
  | encrypted (esks : List (Esk CT SCT)) (edata : ED)

inductive RingErr where
  | notEncrypted        -- "even the ring can not decrypt plaintext"
  | find (e : FindErr)
  | missingKey          -- `Error::MissingKey`
  | edata               -- `edata.decrypt_with_options` / reading the decrypted stream failed
  deriving DecidableEq, Repr

/-- `Message::decrypt_the_ring(ring, abort_early)` followed by reading the result to the end;
`openEd` stands for `Edata::decrypt_with_options` + the decrypting reader (C03's subject) -/
def decryptTheRing {ED PT : Type} (openEd : ED → SessionKey → Option PT)
    (ring : Ring PLAIN ENC PW) (msg : Msg CT SCT ED) (abortEarly : Bool) : Except RingErr (PT × RingResult) :=
  match msg with
  | .notEncrypted => .error .notEncrypted
  | .encrypted esks ed =>
    match findSessionKey P ring esks abortEarly with
    | .error e => .error (.find e)
    | .ok (none, _) => .error .missingKey
    | .ok (some k, rr) =>
      match openEd ed k with
      | none => .error .edata
      | some pt => .ok (pt, rr)

variable {ED PT : Type} (openEd : ED → SessionKey → Option PT)

/-- `Message::decrypt_with_keys(key_passwords, secret_keys)` -/
def decryptWithKeys (kpws : List PW) (keys : List (SecKey PLAIN ENC)) (msg : Msg CT SCT ED) : Except RingErr PT :=
  (decryptTheRing P openEd
    { secretKeys := keys, keyPasswords := kpws, messagePasswords := [], sessionKeys := [] } msg true).map Prod.fst

/-- `Message::decrypt(key_pw, key)` -/
def decrypt (kpw : PW) (key : SecKey PLAIN ENC) (msg : Msg CT SCT ED) : Except RingErr PT :=
  decryptWithKeys P openEd [kpw] [key] msg

/-- `Message::decrypt_with_password(msg_pw)` -/
def decryptWithPassword (pw : PW) (msg : Msg CT SCT ED) : Except RingErr PT :=
  (decryptTheRing P openEd
    ({ secretKeys := [], keyPasswords := [], messagePasswords := [pw], sessionKeys := [] } : Ring PLAIN ENC PW)
    msg true).map Prod.fst

/-- `Message::decrypt_with_session_key(session_key)` -/
def decryptWithSessionKey (sk : SessionKey) (msg : Msg CT SCT ED) : Except RingErr PT :=
  (decryptTheRing P openEd
    ({ secretKeys := [], keyPasswords := [], messagePasswords := [], sessionKeys := [sk] } : Ring PLAIN ENC PW)
    msg true).map Prod.fst

end find

end Rpgp.Ring
