import RpgpModel.S2k
/-!
# SymEnc — SEIPDv1, SEIPDv2, SKESK v4/v6, secret-key protection (usage 254 / 253)

* `Seipd1.layout`, `Seipd1.encrypt`   `crypto/sym.rs  SymmetricKeyAlgorithm::encrypt_protected`
* `Seipd1.stream`                     `crypto/sym/encryptor.rs  StreamEncryptorInner` (Prefix → Data → Mdc)
* `Seipd1.openWith`, `Seipd1.open`    `crypto/sym/decryptor.rs  StreamDecryptorInner` read to the end
                                      (what is accepted, given the CFB-decrypted stream)
* `Seipd2.info/setup/nonceAt/encrypt` `crypto/aead.rs  aead_setup_rfc9580`, `aead/encryptor.rs  StreamEncryptor`
* `Skesk.body4/body6`                 `packet/sym_key_encrypted_session_key.rs  encrypt_v4 / encrypt_v6 / to_writer`
* `SecKey.cfbData/aeadData`           `types/params/plain_secret.rs  PlainSecretParams::encrypt`, `s2k_usage_aead`
-/
set_option linter.unusedVariables false
namespace Rpgp.Sym
open Rpgp

/-- `Tag::encode` : `0b1100_0000 | tag` (tags are < 64, so the OR is an addition) -/
def tagEncode (tag : Nat) : Byte := (Gen.tagEncodeBits + tag).toUInt8

namespace Seipd1

/-- prefix of `bs` random octets followed by the repeat of its last two
(`ciphertext[bs] = ciphertext[bs - 2]; ciphertext[bs + 1] = ciphertext[bs - 1]`) -/
def prefixed (pre : Bytes) : Bytes :=
  pre ++ [pre.getD (pre.length - Gen.epRepeatBack) 0, pre.getD (pre.length - Gen.epRepeatBack + 1) 0]

/-- everything the MDC hash covers: prefix, repeat octets, plaintext, MDC header `D3 14` -/
def hashed (pre pt : Bytes) : Bytes :=
  prefixed pre ++ pt ++ [Gen.epMdcTag.toUInt8, Gen.epMdcLenOctet.toUInt8]

/-- the stream handed to CFB by `encrypt_protected`: `hashed ‖ SHA1(hashed)[..20]` -/
def layout (P : Prims) (pre pt : Bytes) : Bytes :=
  hashed pre pt ++ (P.hash sha1Id (hashed pre pt)).take 20

/-- `SymmetricKeyAlgorithm::encrypt_protected` with the random prefix `pre` (`|pre| = block size`);
the IV is all zero -/
def encrypt (P : Prims) (alg : Nat) (key pre pt : Bytes) : Bytes :=
  P.cfbEnc alg key (List.replicate (Gen.symBlockSize alg) 0) (layout P pre pt)

/-- plan of `encrypt` -/
def plan (alg : Nat) (key pre : Bytes) (pt : PtRef) : PExpr :=
  let h : PExpr := .cat (.lit (prefixed pre))
    (.cat (pt.slice 0 pt.length) (.lit [Gen.epMdcTag.toUInt8, Gen.epMdcLenOctet.toUInt8]))
  .cfb alg (.lit key) (.zeros (Gen.symBlockSize alg)) (.cat h (.take 20 (.hash sha1Id h)))

/-- a stateful CFB encryptor (`BufEncryptor`) fed segment by segment: the output for a segment is
the corresponding part of the encryption of everything fed so far -/
def cfbFeed (E : Bytes → Bytes) : Bytes → List Bytes → Bytes
  | _, [] => []
  | sofar, seg :: rest => (E (sofar ++ seg)).drop sofar.length ++ cfbFeed E (sofar ++ seg) rest

/-- split into buffers of `n` bytes (`fill_buffer` into the 8 KiB buffer until the source is dry) -/
def buffers (n : Nat) (pt : Bytes) : List Bytes :=
  if h : n = 0 ∨ pt = [] then [] else pt.take n :: buffers n (pt.drop n)
termination_by pt.length
decreasing_by
  have : pt ≠ [] := fun e => h (Or.inr e)
  have : 0 < pt.length := List.length_pos_iff.mpr this
  simp only [List.length_drop]; omega

/-- `StreamEncryptorInner` read to the end: the encryptor is fed the prefix (with repeat), the
plaintext in buffers of `bufSize`, then the 22-octet MDC; the hasher sees prefix, buffers, `D3 14` -/
def stream (P : Prims) (alg : Nat) (key pre pt : Bytes) (bufSize : Nat) : Bytes :=
  let E := P.cfbEnc alg key (List.replicate (Gen.symBlockSize alg) 0)
  let segs := prefixed pre :: buffers bufSize pt
  let hashedBytes := segs.flatten ++ [Gen.seMdcTag.toUInt8, Gen.seMdcLenOctet.toUInt8]
  let mdc := [Gen.seMdcTag.toUInt8, Gen.seMdcLenOctet.toUInt8] ++ (P.hash sha1Id hashedBytes).take 20
  cfbFeed E [] (segs ++ [mdc])

inductive OpenErr where
  /-- fewer than `bs + 2` octets: "missing quick check" -/
  | eof
  /-- fewer than 22 octets after the prefix, or MDC tag / length / hash mismatch -/
  | mdc
deriving DecidableEq, Repr

/-- the part of the decrypted stream `d` the decryptor hashes: everything but the last 20 octets
(prefix, data, `msg_mdc[..2]`) -/
def mdcPreimage (d : Bytes) : Bytes := d.take (d.length - 20)

/-- `StreamDecryptorInner` (protected) read to the end, as a function of the CFB-decrypted stream
`d` and of the digest `h` the hasher returns for `mdcPreimage d`.  The repeat octets of the prefix
are *not* compared (no quick check, RFC 9580 §13.4). -/
def openWith (h : Bytes) (bs : Nat) (d : Bytes) : Except OpenErr Bytes :=
  if d.length < bs + Gen.sdPrefixExtra then .error .eof
  else
    let rest := d.drop (bs + Gen.sdPrefixExtra)
    if rest.length < Gen.sdMdcLen then .error .mdc
    else
      let pt := rest.take (rest.length - Gen.sdMdcLen)
      let mdc := rest.drop (rest.length - Gen.sdMdcLen)
      if mdc.getD 0 0 = Gen.sdMdcTag.toUInt8 ∧ mdc.getD 1 0 = Gen.sdMdcLenOctet.toUInt8 ∧ mdc.drop 2 = h
      then .ok pt else .error .mdc

def «open» (P : Prims) (bs : Nat) (d : Bytes) : Except OpenErr Bytes :=
  openWith ((P.hash sha1Id (mdcPreimage d)).take 20) bs d

end Seipd1

namespace Seipd2

/-- HKDF `info` of `aead_setup_rfc9580`: packet type octet, version 2, cipher, AEAD mode, chunk size octet -/
def info (sym aead cs : Nat) : Bytes :=
  [tagEncode Gen.tagSeipd, Gen.seipd2InfoVersion.toUInt8, sym.toUInt8, aead.toUInt8, cs.toUInt8]

/-- `ChunkSize::as_byte_size` -/
def chunkBytes (cs : Nat) : Nat := 1 <<< (cs + Gen.chunkSizeShiftBias)

/-- `aead_setup_rfc9580`: `(info, message_key, nonce)` from the 42-octet HKDF output `okm` -/
def split (sym aead : Nat) (okm : Bytes) : Bytes × Bytes :=
  let ks := Gen.c12SymKeySize sym
  let rawIv := Gen.aeadNonceSize aead - Gen.seipd2NonceCounterLen
  (okm.take ks, ((okm.drop ks).take rawIv) ++ List.replicate Gen.seipd2NonceCounterLen 0)

def okm (P : Prims) (sym aead cs : Nat) (salt ikm : Bytes) : Bytes :=
  P.hkdf sha256Id salt ikm (info sym aead cs) Gen.seipd2OkmLen

/-- nonce after `chunk_index` increments: `nonce[l..].copy_from_slice(&chunk_index.to_be_bytes())`,
`l = nonce.len() - 8` -/
def nonceAt (nonce0 : Bytes) (i : Nat) : Bytes :=
  nonce0.take (nonce0.length - Gen.aeadEncCounterLen) ++ be64 i

/-- `StreamEncryptor` read to the end over an in-memory source: chunks of `chunkBytes cs`, each
sealed with `ad = info` and the running nonce; when the source is dry the final tag is the seal
of the empty string with `ad = info ‖ be64(total)` and the *next* nonce -/
def chunks (P : Prims) (sym aead : Nat) (key nonce0 inf : Bytes) (csz total : Nat) : Nat → Bytes → Bytes
  | i, pt =>
    if h : csz = 0 ∨ pt = [] then
      P.aead sym aead key (nonceAt nonce0 i) (inf ++ be64 total) []
    else
      P.aead sym aead key (nonceAt nonce0 i) inf (pt.take csz) ++
        chunks P sym aead key nonce0 inf csz total (i + 1) (pt.drop csz)
termination_by _ pt => pt.length
decreasing_by
  have : pt ≠ [] := fun e => h (Or.inr e)
  have : 0 < pt.length := List.length_pos_iff.mpr this
  simp only [List.length_drop]; omega

def encrypt (P : Prims) (sym aead cs : Nat) (salt key pt : Bytes) : Bytes :=
  let o := okm P sym aead cs salt key
  let (mk, n0) := split sym aead o
  chunks P sym aead mk n0 (info sym aead cs) (chunkBytes cs) pt.length 0 pt

/-- chunk ranges `(offset, length)` of a plaintext of `n` octets in chunks of `csz` -/
def ranges (csz : Nat) : Nat → Nat → List (Nat × Nat)
  | off, n =>
    if h : csz = 0 ∨ n = 0 then [] else (off, min csz n) :: ranges csz (off + min csz n) (n - min csz n)
termination_by _ n => n
decreasing_by omega

/-- plan of `encrypt`, from the *length* of the plaintext only -/
def plan (sym aead cs : Nat) (salt key : Bytes) (pt : PtRef) : PExpr :=
  let inf := info sym aead cs
  let o : PExpr := .hkdf sha256Id (.lit salt) (.lit key) (.lit inf) Gen.seipd2OkmLen
  let ks := Gen.c12SymKeySize sym
  let rawIv := Gen.aeadNonceSize aead - Gen.seipd2NonceCounterLen
  let mk : PExpr := .take ks o
  let ivp : PExpr := .take rawIv (.drop ks o)
  let rs := ranges (chunkBytes cs) 0 pt.length
  let body := rs.zipIdx.map fun (r, i) =>
    PExpr.aead sym aead mk (.cat ivp (.lit (be64 i))) (.lit inf) (pt.slice r.1 r.2)
  let fin := PExpr.aead sym aead mk (.cat ivp (.lit (be64 rs.length))) (.lit (inf ++ be64 pt.length)) (.lit [])
  PExpr.catL (body ++ [fin])

end Seipd2

namespace Skesk

/-- the `ensure!`s at the head of `encrypt_v4` / `encrypt_v6`: the S2K must use a salt and must not
use MD5 / SHA-1 / RIPEMD-160 (sender side only; `decrypt` has no such check for v4) -/
def encryptAllowed (s : S2k.Spec) : Bool := s.usesSalt && !s.weakHash

/-- `encrypt_v4` + `to_writer` (V4): `04 sym s2k-specifier CFB_{s2k(pw)}(zero iv, sym ‖ session key)` -/
def body4 (P : Prims) (sym : Nat) (s : S2k.Spec) (pw sk : Bytes) : Option Bytes := do
  if !encryptAllowed s then none
  let key ← S2k.derive P s pw (Gen.c12SymKeySize sym)
  pure ([Gen.skesk4WrVersion.toUInt8, sym.toUInt8] ++ S2k.specBytes s ++
    P.cfbEnc sym key (List.replicate (Gen.symBlockSize sym) 0) (sym.toUInt8 :: sk))

/-- HKDF `info` of SKESK v6: packet type octet, version 6, cipher, AEAD mode -/
def info6 (sym aead : Nat) : Bytes :=
  [tagEncode Gen.tagSkesk, Gen.skesk6EncInfoVersion.toUInt8, sym.toUInt8, aead.toUInt8]

/-- the AEAD key of SKESK v6: the code expands 42 octets and the AEAD uses `key[..key_size]` -/
def kek6 (P : Prims) (sym aead : Nat) (ikm : Bytes) : Bytes :=
  (P.hkdf sha256Id [] ikm (info6 sym aead) Gen.skesk6EncOkmLen).take (Gen.c12SymKeySize sym)

/-- `encrypt_v6` + `to_writer` (V6) with the random `iv` -/
def body6 (P : Prims) (sym aead : Nat) (s : S2k.Spec) (pw sk iv : Bytes) : Option Bytes := do
  if !encryptAllowed s then none
  let ikm ← S2k.derive P s pw (Gen.c12SymKeySize sym)
  let esk := P.aead sym aead (kek6 P sym aead ikm) iv (info6 sym aead) sk
  let spec := S2k.specBytes s
  pure ([Gen.skesk6WrVersionOctet.toUInt8, (Gen.skesk6CountFixed + spec.length + iv.length).toUInt8,
      sym.toUInt8, aead.toUInt8, spec.length.toUInt8] ++ spec ++ iv ++ esk)

/-- `enc = true`: plan of `body4` (sender side, with its refusals); `enc = false`: the same bytes
without the sender-side refusals (what `decrypt` is expected to open) -/
def plan4 (enc : Bool) (sym : Nat) (s : S2k.Spec) (pw sk : Bytes) : Option PExpr := do
  if enc && !encryptAllowed s then none
  let key ← S2k.plan s pw (Gen.c12SymKeySize sym)
  pure (.cat (.lit ([Gen.skesk4WrVersion.toUInt8, sym.toUInt8] ++ S2k.specBytes s))
    (.cfb sym key (.zeros (Gen.symBlockSize sym)) (.lit (sym.toUInt8 :: sk))))

/-- `decrypt` (V4) behind the CFB decryption: `sym_alg = decrypted[0]`, `key = decrypted[1..]`,
accepted iff the cipher is known (`key_size ≠ 0`) and the key has its size.  (An empty
`encrypted_key` never reaches this code through `decrypt_session_key_with_password`; called
directly the Rust indexes `[0]` — DESIGN §8 D4c — and the model says `none`.) -/
def open4 (dec : Bytes) : Option (Nat × Bytes) :=
  match dec with
  | [] => none
  | a :: key =>
    if Gen.c12SymKeySize a.toNat = 0 then none
    else if Gen.c12SymKeySize a.toNat ≠ key.length then none
    else some (a.toNat, key)

def plan6 (enc : Bool) (sym aead : Nat) (s : S2k.Spec) (pw sk iv : Bytes) : Option PExpr := do
  if enc && !encryptAllowed s then none
  let ikm ← S2k.plan s pw (Gen.c12SymKeySize sym)
  let spec := S2k.specBytes s
  let kek : PExpr := .take (Gen.c12SymKeySize sym) (.hkdf sha256Id (.lit []) ikm (.lit (info6 sym aead)) Gen.skesk6EncOkmLen)
  pure (.cat (.lit ([Gen.skesk6WrVersionOctet.toUInt8, (Gen.skesk6CountFixed + spec.length + iv.length).toUInt8,
      sym.toUInt8, aead.toUInt8, spec.length.toUInt8] ++ spec ++ iv))
    (.aead sym aead kek (.lit iv) (.lit (info6 sym aead)) (.lit sk)))

end Skesk

namespace SecKey

/-- the `ensure!`s of `PlainSecretParams::encrypt` for `S2kParams::Cfb`: no MD5 / SHA-1 / RIPEMD-160,
no Argon2, and for version 6 keys only iterated+salted or salted S2K (what `unlock` is willing to open) -/
def cfbLockAllowed (ver : Nat) (s : S2k.Spec) : Bool :=
  !s.weakHash && !s.isArgon2 &&
    (ver != 6 || (match s with | .iterated .. => true | .salted .. => true | _ => false))

/-- the `ensure!`s of `PlainSecretParams::encrypt` for `S2kParams::Aead`: no weak hash, and only
Argon2 or iterated+salted S2K (what `unlock` is willing to open) -/
def aeadLockAllowed (s : S2k.Spec) : Bool :=
  !s.weakHash && (match s with | .argon2 .. => true | .iterated .. => true | _ => false)

/-- usage 254: `CFB_{s2k(pw)}(iv, raw ‖ SHA1(raw))` (`PlainSecretParams::encrypt`, `S2kParams::Cfb`) -/
def cfbData (P : Prims) (ver sym : Nat) (s : S2k.Spec) (pw iv raw : Bytes) : Option Bytes := do
  if !cfbLockAllowed ver s then none
  let key ← S2k.derive P s pw (Gen.c12SymKeySize sym)
  pure (P.cfbEnc sym key iv (raw ++ (P.hash sha1Id raw).take 20))

/-- HKDF `info` of `s2k_usage_aead`: packet type octet, key version, cipher, AEAD mode -/
def aeadInfo (tag ver sym aead : Nat) : Bytes :=
  [(Gen.secAeadTypeBits + tag).toUInt8, ver.toUInt8, sym.toUInt8, aead.toUInt8]

/-- associated data: packet type octet followed by the public-key packet body -/
def aeadAd (tag : Nat) (pubBody : Bytes) : Bytes := (Gen.secAeadTypeBits + tag).toUInt8 :: pubBody

/-- usage 253 (`S2kParams::Aead`): the code expands 32 octets, the AEAD uses `key[..key_size]` -/
def aeadData (P : Prims) (sym aead : Nat) (s : S2k.Spec) (pw nonce : Bytes) (tag ver : Nat)
    (pubBody raw : Bytes) : Option Bytes := do
  if !aeadLockAllowed s then none
  let derived ← S2k.derive P s pw (Gen.c12SymKeySize sym)
  let kek := (P.hkdf sha256Id [] derived (aeadInfo tag ver sym aead) Gen.secAeadOkmLen).take (Gen.c12SymKeySize sym)
  pure (P.aead sym aead kek nonce (aeadAd tag pubBody) raw)

/-- `enc = true`: sender side (the refusals of `PlainSecretParams::encrypt`, see `cfbLockAllowed`); `enc = false`: what `EncryptedSecretParams::unlock` is expected to open (it refuses
Argon2 with CFB too) -/
def cfbPlan (enc : Bool) (ver sym : Nat) (s : S2k.Spec) (pw iv raw : Bytes) : Option PExpr := do
  if (enc && !cfbLockAllowed ver s) || s.isArgon2 then none
  let key ← S2k.plan s pw (Gen.c12SymKeySize sym)
  pure (.cfb sym key (.lit iv) (.cat (.lit raw) (.take 20 (.hash sha1Id (.lit raw)))))

def aeadPlan (enc : Bool) (sym aead : Nat) (s : S2k.Spec) (pw nonce : Bytes) (tag ver : Nat) (pubBody raw : Bytes) :
    Option PExpr := do
  if enc && !aeadLockAllowed s then none
  let derived ← S2k.plan s pw (Gen.c12SymKeySize sym)
  let kek : PExpr := .take (Gen.c12SymKeySize sym)
    (.hkdf sha256Id (.lit []) derived (.lit (aeadInfo tag ver sym aead)) Gen.secAeadOkmLen)
  pure (.aead sym aead kek (.lit nonce) (.lit (aeadAd tag pubBody)) (.lit raw))

end SecKey
end Rpgp.Sym
