#!/bin/bash
# seeded_intake.sh <src-id under /tmp/mut> <PROP> <first index> [other PROPs to try as well]
# copies deliver/{1,2} to seeded/<PROP>-<k>, <PROP>-<k+1> and runs the checks against each patch on the bench
SRC=$1; P=$2; K=$3; shift 3
for n in 1 2; do
  D=/tmp/mut/$SRC/deliver/$n
  [ -f $D/patch.diff ] || { echo "missing $D"; continue; }
  DST=/verif/seeded/$P-$((K+n-1)); mkdir -p $DST
  cp $D/patch.diff $D/demo.rs $D/notes.md $DST/ 2>/dev/null
  echo "=== $SRC/$n -> $P-$((K+n-1)) vs $P $*"
  /verif/tools/try_seeded.sh $D/patch.diff $P "$@" 2>&1 | grep -v "^KNOWN" | cut -c1-200 | grep -E "^\[C|VIOL|PATCH|translator" | awk '/VIOL/{c[$2]++; if(c[$2]>1) next} {print}'
done
