import RpgpModel.Bytes
import RpgpModel.Canon
import RpgpModel.Gen.Constants
/-!
# SignVerify — what every signing interface feeds to the digest, and what every verifying
interface feeds to it, as functions of the payload (property C06)

The sign side and the verify side are kept **separate** wherever the code has two
implementations; nothing here is defined "by symmetry".

digest framing (shared by all interfaces, `packet/signature/config.rs`)
* `hashedFields`       `SignatureConfig::hash_signature_data` (v4 | v6)
* `trailer`            `SignatureConfig::trailer`
* `preimage`           salt ‖ data as hashed ‖ hashed fields ‖ trailer

sign side
* `hasherFeed`         `util.rs NormalizingHasher::hash_buf` in binary / text mode, chunk by chunk
* `signConfig`         `SignatureConfig::sign` = `into_hasher` + `io::copy(data, hasher)` + `SignatureHasher::sign`
* `signDetached`       `composed/signature.rs DetachedSignature::sign_{binary,text}_data`
* `signBuilder`        `message/builder.rs SignatureHashers::read` (every signer's hasher sees each source read)
* `signCleartextNew`   `cleartext.rs CleartextSignedMessage::{new,sign}`: `NormalizedReader` over the text, then `config.sign`
* `signCleartextMany`  `cleartext.rs CleartextSignedMessage::new_many`: closure receives `normalize_lines(text)`
* `signCert` / `signSubkeyBinding` / `signPrimaryKeyBinding` / `signKey`
                       `SignatureConfig::sign_{certification_third_party,subkey_binding,primary_key_binding,key}`

verify side
* `verifyDetached`     `signature/types.rs Signature::verify` (`NormalizedReader` for text, raw copy otherwise)
* `verifyInline`       `reader/signed_many.rs SignatureManyReader` (`NormalizingHasher` over `BUFFER_SIZE` reads)
* `signedText`, `verifyCleartext`   `cleartext.rs signed_text` / `verify`
* `verifyCert` / `verifySubkeyBinding` / `verifyPrimaryKeyBinding` / `verifyKey`
                       `Signature::verify_{third_party_certification,subkey_binding,primary_key_binding,key_third_party}`

cleartext framework (`composed/cleartext.rs`)
* `splitIncl`, `dashEscape`, `dashUnescapeTrim`, `readCleartextBody`, `armorRoundTripCsf`

All names live in `Rpgp.SV` so that other layers may define their own cleartext vocabulary.
-/
namespace Rpgp.SV
open Rpgp

/-! ## digest framing -/

/-- the part of `SignatureConfig` the digest sees -/
structure SigCfg where
  /-- signature version: 4 or 6 -/
  ver : Nat
  typ : Nat
  pk : Nat
  hash : Nat
  /-- v6 salt (`[]` for v4: nothing is hashed) -/
  salt : Bytes
  /-- the serialized hashed-subpacket area -/
  area : Bytes
deriving DecidableEq, Repr

/-- `self.typ == SignatureType::Text` (`into_hasher`, `Signature::verify`, `new_hasher`) -/
def isText (typ : Nat) : Bool := typ == Gen.sigTypeText

def SigCfg.textMode (c : SigCfg) : Bool := isText c.typ

/-- `SignatureConfig::hash_signature_data`, v4 | v6 arm: version, type, pk alg, hash alg,
hashed-area length (u16 for v4, u32 for v6), hashed area. -/
def hashedFields (c : SigCfg) : Bytes :=
  [c.ver.toUInt8, c.typ.toUInt8, c.pk.toUInt8, c.hash.toUInt8] ++
    (if c.ver = 4 then be16 c.area.length else be32 c.area.length) ++ c.area

/-- `SignatureConfig::trailer(len)`: `[version, 0xFF, len as u32 BE]` -/
def trailer (c : SigCfg) (len : Nat) : Bytes :=
  [c.ver.toUInt8, Gen.sigTrailerMarker.toUInt8] ++ be32 len

/-- `let len = config.hash_signature_data(&mut hasher)?; hasher.update(&config.trailer(len)?)` -/
def sigTail (c : SigCfg) : Bytes := hashedFields c ++ trailer c (hashedFields c).length

/-- everything the digest sees, given the bytes hashed for the data -/
def preimage (c : SigCfg) (hashedData : Bytes) : Bytes := c.salt ++ hashedData ++ sigTail c

/-! ## sign side: data signatures -/

/-- `NormalizingHasher::hash_buf` in binary mode: `if buffer.is_empty() { return }; hasher.update(buffer)` -/
def hashBufBinary (seen buf : Bytes) : Bytes := if buf.isEmpty then seen else seen ++ buf

/-- `NormalizingHasher` (either mode) fed `chunks`, one `hash_buf` call each, then `done` -/
def hasherFeed (text : Bool) (chunks : List Bytes) : Bytes :=
  if text then hashedText chunks else chunks.foldl hashBufBinary []

/-- guard of `SignatureHasher::sign` / `sign_*`: signature version = signer key version, both 4 or 6 -/
def signAligned (keyVer sigVer : Nat) : Bool :=
  (sigVer == 4 && keyVer == 4) || (sigVer == 6 && keyVer == 6)

/-- guard of `SignatureHasher::sign`: only Binary and Text data signatures -/
def dataSigType (typ : Nat) : Bool := typ == Gen.sigTypeBinary || typ == Gen.sigTypeText

/-- `SignatureConfig::sign(key, pw, data)`: `into_hasher` (salt first, `NormalizingHasher` in text
mode iff `typ == Text`), `io::copy(data, hasher)` — one `hash_buf` per chunk the copy loop obtains —
then `SignatureHasher::sign` (guards, hashed fields, trailer).  `src` is the sequence of non-empty
reads the copy loop makes.  `none` = the guards refuse. -/
def signConfig (keyVer : Nat) (c : SigCfg) (src : List Bytes) : Option Bytes :=
  if signAligned keyVer c.ver && dataSigType c.typ then
    some (preimage c (hasherFeed c.textMode src))
  else none

/-- `DetachedSignature::sign_data`: `SignatureConfig::v4 | v6` by key version with the requested
type, subpackets from `SubpacketConfig`, then `config.sign(key, pw, data)`. -/
def signDetached (text : Bool) (keyVer : Nat) (c : SigCfg) (src : List Bytes) : Option Bytes :=
  if keyVer = 4 ∨ keyVer = 6 then
    signConfig keyVer { c with ver := keyVer, typ := if text then Gen.sigTypeText else Gen.sigTypeBinary } src
  else none

/-- `SignGenerator` / `SignatureHashers::read`: every read of the source is handed to the hasher of
every signer (`hasher.update(buf[..read])`), then each `SignatureHasher::sign`. One pre-image per
signer, in the order of the signers. -/
def signBuilder (signers : List (Nat × SigCfg)) (src : List Bytes) : List (Option Bytes) :=
  signers.map fun (keyVer, c) => signConfig keyVer c src

/-! ## verify side: data signatures -/

/-- `Signature::check_signature_key_version_alignment` -/
def verifyAligned (keyVer sigVer : Nat) : Bool :=
  (if keyVer == 6 then sigVer == 6 else true) && (if sigVer == 6 then keyVer == 6 else true)

/-- `Signature::verify(key, data)`: salt, then for `Text` the data through
`NormalizedReader::new(data, Crlf)` (window `W`) copied raw into the digest, otherwise the data
copied raw; then hashed fields and trailer.  `src` = the reads the data source delivers. -/
def verifyDetached (W : Nat) (keyVer : Nat) (c : SigCfg) (src : List Bytes) : Option Bytes :=
  if verifyAligned keyVer c.ver && dataSigType c.typ then
    some (preimage c (if c.textMode then normalizedReadSrc W src else src.flatten))
  else none

/-- the one-pass-signature packet as far as hashing is concerned -/
structure Ops where
  /-- 3 (pairs with a v4 signature) or 6 -/
  ver : Nat
  typ : Nat
  hash : Nat
  pk : Nat
  salt : Bytes
deriving DecidableEq, Repr

/-- `builder.rs prepare`: the OPS the builder emits for a signature configuration -/
def opsOf (c : SigCfg) : Ops :=
  { ver := if c.ver = 6 then 6 else 3, typ := c.typ, hash := c.hash, pk := c.pk,
    salt := if c.ver = 6 then c.salt else [] }

/-- `OnePassSignature::matches` -/
def opsMatches (o : Ops) (c : SigCfg) : Bool :=
  o.typ == c.typ && o.hash == c.hash && o.pk == c.pk &&
    ((o.ver == 3 && c.ver == 4) || (o.ver == 6 && c.ver == 6 && o.salt == c.salt))

/-- consecutive blocks of `n` bytes (`fill_buffer_bytes(source, buffer, BUFFER_SIZE)` until a
short read) -/
def chunksOf (n : Nat) (d : Bytes) : List Bytes :=
  if h : n = 0 ∨ d = [] then [] else d.take n :: chunksOf n (d.drop n)
termination_by d.length
decreasing_by
  have : d.length ≠ 0 := by intro h0; exact h (Or.inr (List.eq_nil_of_length_eq_zero h0))
  simp only [List.length_drop]; omega

/-- `SignatureManyReader` for a one-pass signature: the hasher is created from the OPS packet
(salt, text mode), is fed the literal body in `B`-byte reads, and is finished with the hashed
fields and trailer of the *signature* packet that follows; `none` when OPS and signature do not
match (the hash slot is `None`, verification fails). -/
def verifyInlineOps (B : Nat) (o : Ops) (c : SigCfg) (body : Bytes) : Option Bytes :=
  if opsMatches o c then
    some (o.salt ++ hasherFeed (isText o.typ) (chunksOf B body) ++ sigTail c)
  else none

/-- `SignatureManyReader` for a prefixed (non-one-pass) signature packet: hasher from the
signature's own configuration. -/
def verifyInlineSig (B : Nat) (c : SigCfg) (body : Bytes) : Option Bytes :=
  some (c.salt ++ hasherFeed c.textMode (chunksOf B body) ++ sigTail c)

/-! ## cleartext signature framework -/

/-- `str::split_inclusive('\n')` -/
def splitIncl : Bytes → List Bytes
  | [] => []
  | b :: r =>
    if b = LF then [LF] :: splitIncl r
    else
      match splitIncl r with
      | [] => [[b]]
      | l :: ls => (b :: l) :: ls

/-- one line of `dash_escape`: `if line.starts_with('-') { out += "- " }; out.push_str(line)` -/
def escapeLine (line : Bytes) : Bytes :=
  match line with
  | [] => []
  | b :: r => if b = DASH then DASH :: SP :: b :: r else b :: r

/-- `cleartext.rs dash_escape` -/
def dashEscape (text : Bytes) : Bytes := ((splitIncl text).map escapeLine).flatten

/-- split a line into content and line ending (`"\r\n"`, `"\n"` or nothing) -/
def splitEnd : Bytes → Bytes × Bytes
  | [] => ([], [])
  | [b] => if b = LF then ([], [LF]) else ([b], [])
  | a :: b :: r =>
    if r = [] ∧ a = CR ∧ b = LF then ([], [CR, LF])
    else let (c, e) := splitEnd (b :: r); (a :: c, e)

/-- `content.strip_prefix("- ").unwrap_or(content)` -/
def stripDashSpace : Bytes → Bytes
  | a :: b :: r => if a = DASH ∧ b = SP then r else a :: b :: r
  | l => l

/-- `str::trim_end_matches([' ', '\t'])` -/
def trimEndBlank : Bytes → Bytes
  | [] => []
  | b :: r =>
    let t := trimEndBlank r
    if t = [] ∧ (b = SP ∨ b = TAB) then [] else b :: t

/-- one line of `dash_unescape_and_trim` -/
def unescapeTrimLine (line : Bytes) : Bytes :=
  let (content, e) := splitEnd line
  trimEndBlank (stripDashSpace content) ++ e

/-- `cleartext.rs dash_unescape_and_trim` -/
def dashUnescapeTrim (csf : Bytes) : Bytes := ((splitIncl csf).map unescapeTrimLine).flatten

/-- `CleartextSignedMessage::signed_text`: `normalize_lines(dash_unescape_and_trim(csf), Crlf)` -/
def signedText (csf : Bytes) : Bytes := replaceNewlines CRLF (dashUnescapeTrim csf)

/-- `CleartextSignedMessage::{new, sign}(text, config, key)`:
`trimmed = dash_unescape_and_trim(dash_escape(text))`, then
`NormalizedReader::new(trimmed.as_bytes(), Crlf)` is handed to `config.sign` as the data source; the
copy loop delivers its output in some chunking `delivered` (with `delivered.flatten` = the reader's
output, see `signCleartextNew`), each chunk going through the `NormalizingHasher` of the config. -/
def signCleartextNewChunks (keyVer : Nat) (c : SigCfg) (delivered : List Bytes) : Option Bytes :=
  signConfig keyVer c delivered

/-- … with the chunking the copy loop of the standard library produces abstracted to blocks of `k`
bytes of the reader's output (`k` = copy buffer size; the result is independent of it) -/
def signCleartextNew (W k : Nat) (keyVer : Nat) (c : SigCfg) (text : Bytes) : Option Bytes :=
  signCleartextNewChunks keyVer c (chunksOf k (normalizedRead W (dashUnescapeTrim (dashEscape text))))

/-- `CleartextSignedMessage::new_many(text, signer)`: the closure receives
`normalize_lines(dash_unescape_and_trim(dash_escape(text)), Crlf)`; the signer the harness (and the
crate's own tests) use is `config.sign(key, pw, normalized.as_bytes())`. -/
def signCleartextMany (k : Nat) (keyVer : Nat) (c : SigCfg) (text : Bytes) : Option Bytes :=
  signConfig keyVer c (chunksOf k (replaceNewlines CRLF (dashUnescapeTrim (dashEscape text))))

/-- `CleartextSignedMessage::verify`: `signature.verify(key, self.signed_text().as_bytes())` -/
def verifyCleartext (W : Nat) (keyVer : Nat) (c : SigCfg) (csf : Bytes) : Option Bytes :=
  verifyDetached W keyVer c (if signedText csf = [] then [] else [signedText csf])

/-! ### the armored form and reading it back -/

def dashes5 : Bytes := [DASH, DASH, DASH, DASH, DASH]

/-- byte-wise `starts_with` -/
def startsWith : Bytes → Bytes → Bool
  | _, [] => true
  | [], _ :: _ => false
  | a :: s, b :: p => a == b && startsWith s p

/-- offsets at which `pat` occurs in `s`, scanning left to right from offset `i` -/
def occurrences (pat : Bytes) : Bytes → Nat → List Nat
  | [], i => if startsWith [] pat then [i] else []
  | b :: r, i => (if startsWith (b :: r) pat then [i] else []) ++ occurrences pat r (i + 1)

/-- `str::rfind(pat)`: offset of the last occurrence -/
def rfind (pat s : Bytes) : Option Nat := (occurrences pat s 0).getLast?

/-- byte-wise `ends_with("\r\n")` -/
def endsCRLF : Bytes → Bool
  | [] => false
  | [_] => false
  | [a, b] => a == CR && b == LF
  | _ :: r => endsCRLF r

/-- the loop of `read_cleartext_body` over the successive `read_line` results `lines`
(`out` = what has been accumulated).  Result: (cleartext body, prefix handed on to the signature
dearmorer); `none` = "unexpected early end". -/
def readBodyLoop (out : Bytes) : List Bytes → Option (Bytes × Bytes)
  | [] => none
  | l :: ls =>
    let out' := out ++ l
    if startsWith out' dashes5 then some ([], out')
    else
      match rfind (LF :: dashes5) out' with
      | some pos =>
        let rest := out'.drop (pos + 1)
        let o := out'.take (pos + 1)
        -- remove the trailing line break: CR LF if present, else the bare LF
        let o := if endsCRLF o then o.take (o.length - 2) else o.take (o.length - 1)
        some (o, rest)
      | none => readBodyLoop out' ls

/-- `cleartext.rs read_cleartext_body` on the bytes that follow the armor headers' blank line -/
def readCleartextBody (inp : Bytes) : Option (Bytes × Bytes) := readBodyLoop [] (splitIncl inp)

/-- the line break `to_armored_writer` puts after the body: CR LF when the text ends in a lone CR
(so that the reader, which strips "\r\n" as a unit, leaves that CR alone), else LF -/
def bodyTerminator (csf : Bytes) : Bytes := if endsCR csf then [CR, LF] else [LF]

/-- the part of `to_armored_writer` after the `Hash:` headers and their blank line:
`csf_encoded_text`, the terminating line break, then the armored signature block (`sigBlock`,
begins with `-----BEGIN PGP SIGNATURE-----`) -/
def writeBodyAndSig (csf sigBlock : Bytes) : Bytes := csf ++ bodyTerminator csf ++ sigBlock

/-- `csf_encoded_text` after `to_armored_string → from_string` -/
def armorRoundTripCsf (csf sigBlock : Bytes) : Option Bytes :=
  (readCleartextBody (writeBodyAndSig csf sigBlock)).map (·.1)

/-! ## key and certificate self-signatures -/

/-- `signature/types.rs serialize_for_hashing(key)`: `0x99 len16` (v2–v4) or `0x9B len32` (v6) with
`len = key.write_len()`, then `key.to_writer` (`body`). -/
def keyFrame (keyVer : Nat) (writeLen : Nat) (body : Bytes) : Bytes :=
  (if keyVer = 6 then Gen.keyFrameV6.toUInt8 :: be32 writeLen else Gen.keyFrameV4.toUInt8 :: be16 writeLen) ++ body

/-- a serializable component as the two sides see it: the bytes `to_writer` produces and the
number `write_len()` announces -/
structure Ser where
  bytes : Bytes
  writeLen : Nat
deriving DecidableEq, Repr

def keyFrameOf (keyVer : Nat) (k : Ser) : Bytes := keyFrame keyVer k.writeLen k.bytes

/-- `SignatureConfig::sign_certification_third_party`: salt, signee key frame, then for v4/v6
`prefix ‖ u32(packet_buf.len())` where `packet_buf` is what `id.to_writer` produced, the packet
content, hashed fields, trailer.  `attr` selects `Tag::UserAttribute`. -/
def signCert (c : SigCfg) (signeeVer : Nat) (signee : Ser) (attr : Bool) (id : Ser) : Bytes :=
  c.salt ++ keyFrameOf signeeVer signee ++
    ((if attr then Gen.certPrefixAttrSign else Gen.certPrefixUidSign).toUInt8 :: be32 id.bytes.length) ++
    id.bytes ++ sigTail c

/-- `Signature::verify_third_party_certification`: the length in the prefix is `id.write_len()`,
the content is written by `id.to_writer` straight into the digest. -/
def verifyCert (c : SigCfg) (signeeVer : Nat) (signee : Ser) (attr : Bool) (id : Ser) : Bytes :=
  c.salt ++ keyFrameOf signeeVer signee ++
    ((if attr then Gen.certPrefixAttrVerify else Gen.certPrefixUidVerify).toUInt8 :: be32 id.writeLen) ++
    id.bytes ++ sigTail c

/-- `SignatureConfig::sign_subkey_binding`: primary (signer) then subkey (signee) -/
def signSubkeyBinding (c : SigCfg) (primVer : Nat) (prim : Ser) (subVer : Nat) (sub : Ser) : Bytes :=
  c.salt ++ keyFrameOf primVer prim ++ keyFrameOf subVer sub ++ sigTail c

/-- `Signature::verify_subkey_binding(signer = primary, signee = subkey)` -/
def verifySubkeyBinding (c : SigCfg) (primVer : Nat) (prim : Ser) (subVer : Nat) (sub : Ser) : Bytes :=
  c.salt ++ keyFrameOf primVer prim ++ keyFrameOf subVer sub ++ sigTail c

/-- `SignatureConfig::sign_primary_key_binding(signer = subkey, signee = primary)`: primary first -/
def signPrimaryKeyBinding (c : SigCfg) (primVer : Nat) (prim : Ser) (subVer : Nat) (sub : Ser) : Bytes :=
  c.salt ++ keyFrameOf primVer prim ++ keyFrameOf subVer sub ++ sigTail c

/-- `Signature::verify_primary_key_binding(signer = subkey, signee = primary)` -/
def verifyPrimaryKeyBinding (c : SigCfg) (primVer : Nat) (prim : Ser) (subVer : Nat) (sub : Ser) : Bytes :=
  c.salt ++ keyFrameOf primVer prim ++ keyFrameOf subVer sub ++ sigTail c

/-- `SignatureConfig::sign_key` (direct key signature / key revocation) -/
def signKey (c : SigCfg) (keyVer : Nat) (key : Ser) : Bytes :=
  c.salt ++ keyFrameOf keyVer key ++ sigTail c

/-- `Signature::verify_key_third_party` -/
def verifyKey (c : SigCfg) (keyVer : Nat) (key : Ser) : Bytes :=
  c.salt ++ keyFrameOf keyVer key ++ sigTail c

/-! ## the signature object and its check (primitives are parameters) -/

structure SigPrims where
  /-- the digest selected by `hash_alg` -/
  hash : Bytes → Bytes
  /-- raw public-key signature over a digest under the signer's secret key -/
  pkSign : Bytes → Bytes
  /-- raw verification of (digest, signature) under the signer's public key -/
  pkVerify : Bytes → Bytes → Bool

/-- correctness law of the public-key primitive -/
structure SigPrimLaws (P : SigPrims) : Prop where
  verify_sign : ∀ d, P.pkVerify d (P.pkSign d) = true

/-- the Signature packet as the verifier uses it -/
structure SigPacket where
  cfg : SigCfg
  signedHashValue : Bytes
  sig : Bytes
deriving DecidableEq, Repr

/-- `let hash = hasher.finalize(); signed_hash_value = [hash[0], hash[1]]; signature = key.sign(.., hash)`;
`Signature::from_config` -/
def mkSignature (P : SigPrims) (c : SigCfg) (pre : Bytes) : SigPacket :=
  { cfg := c, signedHashValue := (P.hash pre).take 2, sig := P.pkSign (P.hash pre) }

/-- `ensure_eq!(signed_hash_value, &hash[0..2]); key.verify(hash_alg, hash, signature)` -/
def checkSignature (P : SigPrims) (s : SigPacket) (pre : Bytes) : Bool :=
  s.signedHashValue == (P.hash pre).take 2 && P.pkVerify (P.hash pre) s.sig

/-- a complete sign call: pre-image by the interface, then the signature object -/
def signWith (P : SigPrims) (c : SigCfg) (pre : Option Bytes) : Option SigPacket :=
  pre.map (mkSignature P c)

/-- a complete verify call: pre-image by the interface, then the check -/
def verifyWith (P : SigPrims) (s : SigPacket) (pre : Option Bytes) : Bool :=
  match pre with
  | some p => checkSignature P s p
  | none => false

end Rpgp.SV
