#!/bin/bash
# Build the framework from files on disk only (offline).
set -e
cd "$(dirname "$0")"
export CARGO_NET_OFFLINE=true
mkdir -p work evidence replays
python3 tools/extract_constants.py > work/translator.json
(cd lean && lake build)
cp /repo/Cargo.lock harness/Cargo.lock 2>/dev/null || true
(cd harness && cargo build --release --offline)
echo "setup ok"
