# ---- C08: secret-key locking (SecretKey.lean) -----------------------------------------------
S2K = "src/types/s2k.rs"
SEC = "src/types/params/secret.rs"
ENC = "src/types/params/encrypted_secret.rs"
PLN = "src/types/params/plain_secret.rs"
SYM = "src/crypto/sym.rs"
AEAD = "src/crypto/aead.rs"
HASH = "src/crypto/hash.rs"
TPK = "src/types/packet.rs"

# S2kParams variant codes used by the model (SK.Variant.ofCode): 0 Unprotected, 1 LegacyCfb, 2 Aead,
# 3 Cfb, 4 MalleableCfb
_VARIANT = {"Unprotected": 0, "LegacyCfb": 1, "Aead": 2, "Cfb": 3, "MalleableCfb": 4}


def _fn_body(text, start_pat):
    """text from the match of start_pat to the end of that brace-balanced item"""
    m = re.search(start_pat, text, re.S)
    if not m:
        return None
    i = text.find("{", m.start())
    depth, j = 0, i
    while j < len(text):
        if text[j] == "{":
            depth += 1
        elif text[j] == "}":
            depth -= 1
            if depth == 0:
                return text[m.start():j + 1]
        j += 1
    return None


# -- write side: impl From<&S2kParams> for u8
_WR = r"impl From<&S2kParams> for u8 \{.*?"
item("wrUsageUnprotected", S2K, _WR + r"S2kParams::Unprotected => (\d+)", "From<&S2kParams> for u8: Unprotected")
item("wrUsageAead", S2K, _WR + r"S2kParams::Aead \{ \.\. \} => (\d+)", "From<&S2kParams> for u8: Aead")
item("wrUsageCfb", S2K, _WR + r"S2kParams::Cfb \{ \.\. \} => (\d+)", "From<&S2kParams> for u8: Cfb")
item("wrUsageMalleable", S2K, _WR + r"S2kParams::MalleableCfb \{ \.\. \} => (\d+)", "From<&S2kParams> for u8: MalleableCfb")
item("wrUsageLegacyIsSym", S2K,
     lambda t: 1 if re.search(_WR + r"S2kParams::LegacyCfb \{ sym_alg, \.\. \} => \(\*sym_alg\)\.into\(\)", t, re.S) else None,
     "From<&S2kParams> for u8: LegacyCfb is the cipher octet itself (1 = yes)")
# -- read side: impl From<u8> for S2kUsage
_RD = r"impl From<u8> for S2kUsage \{.*?"
item("rdUsageUnprotected", S2K, _RD + r"(\d+) => Self::Unprotected", "From<u8> for S2kUsage: Unprotected")
item("rdUsageLegacyMin", S2K, _RD + r"v @ (\d+)\.\.=(\d+) => Self::LegacyCfb", "From<u8> for S2kUsage: LegacyCfb range lower bound", group=1)
item("rdUsageLegacyMax", S2K, _RD + r"v @ (\d+)\.\.=(\d+) => Self::LegacyCfb", "From<u8> for S2kUsage: LegacyCfb range upper bound", group=2)
item("rdUsageAead", S2K, _RD + r"(\d+) => Self::Aead", "From<u8> for S2kUsage: Aead")
item("rdUsageCfb", S2K, _RD + r"(\d+) => Self::Cfb", "From<u8> for S2kUsage: Cfb")
item("rdUsageMalleable", S2K, _RD + r"(\d+) => Self::MalleableCfb", "From<u8> for S2kUsage: MalleableCfb")


# -- read side: which S2kParams variant each arm of parse_secret_fields constructs
def _arm_builds(usage):
    def f(text):
        body = _fn_body(text, r"fn parse_secret_fields")
        if body is None:
            return None
        m = re.search(r"let enc_params = match s2k_usage \{(.*?)\n    \};", body, re.S)
        if not m:
            return None
        arms = m.group(1)
        a = re.search(r"S2kUsage::" + usage + r"(?:\([^)]*\))? => (.*?)(?=\n        (?://[^\n]*\n        )*S2kUsage::|\Z)", arms, re.S)
        if not a:
            return None
        vs = re.findall(r"S2kParams::(\w+)", a.group(1))
        if len(set(vs)) != 1:
            return None
        return _VARIANT.get(vs[0])
    return f


item("rdArmUnprotectedBuilds", SEC, _arm_builds("Unprotected"), "parse_secret_fields: S2kUsage::Unprotected arm constructs variant (code)")
item("rdArmLegacyBuilds", SEC, _arm_builds("LegacyCfb"), "parse_secret_fields: S2kUsage::LegacyCfb arm constructs variant (code)")
item("rdArmAeadBuilds", SEC, _arm_builds("Aead"), "parse_secret_fields: S2kUsage::Aead arm constructs variant (code)")
item("rdArmCfbBuilds", SEC, _arm_builds("Cfb"), "parse_secret_fields: S2kUsage::Cfb arm constructs variant (code)")
item("rdArmMalleableBuilds", SEC, _arm_builds("MalleableCfb"), "parse_secret_fields: S2kUsage::MalleableCfb arm constructs variant (code)")
# -- SecretParams::from_slice: usages a v6 key may carry
_V6 = r"key_ver == KeyVersion::V6 && !\[(\d+), (\d+), (\d+)\]\.contains"
item("v6UsageAllowedA", SEC, _V6, "SecretParams::from_slice v6 allowed usage #1", group=1)
item("v6UsageAllowedB", SEC, _V6, "SecretParams::from_slice v6 allowed usage #2", group=2)
item("v6UsageAllowedC", SEC, _V6, "SecretParams::from_slice v6 allowed usage #3", group=3)

# -- StringToKey: type ids (writer `id()` / reader `try_from_reader`), field sizes, `len()`
_ID = r"pub fn id\(&self\) -> u8 \{.*?"
item("s2kIdSimple", S2K, _ID + r"Self::Simple \{ \.\. \} => (\d+)", "StringToKey::id Simple")
item("s2kIdSalted", S2K, _ID + r"Self::Salted \{ \.\. \} => (\d+)", "StringToKey::id Salted")
item("s2kIdReserved", S2K, _ID + r"Self::Reserved \{ \.\. \} => (\d+)", "StringToKey::id Reserved")
item("s2kIdIterated", S2K, _ID + r"Self::IteratedAndSalted \{ \.\. \} => (\d+)", "StringToKey::id IteratedAndSalted")
item("s2kIdArgon2", S2K, _ID + r"Self::Argon2 \{ \.\. \} => (\d+)", "StringToKey::id Argon2")
_TR = r"pub fn try_from_reader<B: BufRead>\(mut i: B\) -> Result<Self> \{\s*let typ = i\.read_u8\(\)\?;.*?"
item("s2kRdSimple", S2K, _TR + r"\n            (\d+) => \{\s*let hash_alg = i\.read_u8\(\)\.map\(HashAlgorithm::from\)\?;\s*Ok\(StringToKey::Simple", "StringToKey::try_from_reader Simple type octet")
item("s2kRdSalted", S2K, _TR + r"\n            (\d+) => \{\s*let hash_alg = [^;]*;\s*let salt = i\.read_arr::<\d+>\(\)\?;\s*Ok\(StringToKey::Salted", "StringToKey::try_from_reader Salted type octet")
item("s2kRdSaltedSalt", S2K, _TR + r"let salt = i\.read_arr::<(\d+)>\(\)\?;\s*Ok\(StringToKey::Salted", "StringToKey::try_from_reader Salted salt size")
item("s2kRdReserved", S2K, _TR + r"\n            (\d+) => \{\s*let unknown = i\.rest\(\)\?\.freeze\(\);\s*Ok\(StringToKey::Reserved", "StringToKey::try_from_reader Reserved type octet")
item("s2kRdIterated", S2K, _TR + r"\n            (\d+) => \{\s*let hash_alg = [^;]*;\s*let salt = i\.read_arr::<\d+>\(\)\?;\s*let count", "StringToKey::try_from_reader IteratedAndSalted type octet")
item("s2kRdIteratedSalt", S2K, _TR + r"let salt = i\.read_arr::<(\d+)>\(\)\?;\s*let count", "StringToKey::try_from_reader IteratedAndSalted salt size")
item("s2kRdArgon2", S2K, _TR + r"\n            (\d+) => \{\s*let salt = i\.read_arr::<\d+>\(\)\?;\s*let t = ", "StringToKey::try_from_reader Argon2 type octet")
item("s2kRdArgon2Salt", S2K, _TR + r"let salt = i\.read_arr::<(\d+)>\(\)\?;\s*let t = ", "StringToKey::try_from_reader Argon2 salt size")
item("s2kRdPrivateMin", S2K, _TR + r"\n            (\d+)\.\.=(\d+) => \{\s*let unknown = i\.rest\(\)\?\.freeze\(\);\s*Ok\(StringToKey::Private", "StringToKey::try_from_reader Private range lower", group=1)
item("s2kRdPrivateMax", S2K, _TR + r"\n            (\d+)\.\.=(\d+) => \{\s*let unknown = i\.rest\(\)\?\.freeze\(\);\s*Ok\(StringToKey::Private", "StringToKey::try_from_reader Private range upper", group=2)
_LN = r"pub\(crate\) fn len\(&self\) -> Result<u8> \{.*?"
item("s2kLenSimple", S2K, _LN + r"Self::Simple \{ \.\. \} => (\d+)", "StringToKey::len Simple")
item("s2kLenSalted", S2K, _LN + r"Self::Salted \{ \.\. \} => (\d+)", "StringToKey::len Salted")
item("s2kLenIterated", S2K, _LN + r"Self::IteratedAndSalted \{ \.\. \} => (\d+)", "StringToKey::len IteratedAndSalted")
item("s2kLenArgon2", S2K, _LN + r"Self::Argon2 \{ \.\. \} => (\d+)", "StringToKey::len Argon2")
item("s2kSaltFieldSalted", S2K, r"Salted \{\s*hash_alg: HashAlgorithm,\s*(?:#\[[^\]]*\]\s*)*salt: \[u8; (\d+)\],\s*\},", "StringToKey::Salted salt field size")
item("s2kSaltFieldArgon2", S2K, r"Argon2 \{\s*(?:#\[[^\]]*\]\s*)*salt: \[u8; (\d+)\]", "StringToKey::Argon2 salt field size")

# -- hash ids that known_weak_hash_algo names
item("hashIdMd5", HASH, r"\bMd5 = (\d+),", "HashAlgorithm::Md5")
item("hashIdSha1", HASH, r"\bSha1 = (\d+),", "HashAlgorithm::Sha1")
item("hashIdRipemd160", HASH, r"\bRipemd160 = (\d+),", "HashAlgorithm::Ripemd160")
item("weakHashSetIsMd5Sha1Ripemd", S2K,
     lambda t: 1 if re.search(r"fn known_weak_hash_algo.*?hash_alg == &HashAlgorithm::Md5\s*\|\| hash_alg == &HashAlgorithm::Sha1\s*\|\| hash_alg == &HashAlgorithm::Ripemd160\s*\}", t, re.S) else None,
     "known_weak_hash_algo tests exactly Md5 | Sha1 | Ripemd160 (1 = yes)")

# -- symmetric ciphers: octet, block size, key size
_SYMS = ["Plaintext", "IDEA", "TripleDES", "CAST5", "Blowfish", "AES128", "AES192", "AES256", "Twofish",
         "Camellia128", "Camellia192", "Camellia256"]
for _n in _SYMS:
    item("symId" + _n, SYM, r"pub enum SymmetricKeyAlgorithm \{.*?\b" + _n + r" = (\d+),", "SymmetricKeyAlgorithm::" + _n + " octet")
    item("symBlock" + _n, SYM, r"pub fn block_size\(self\) -> usize \{.*?SymmetricKeyAlgorithm::" + _n + r" => (\d+),", "block_size " + _n)
    item("symKey" + _n, SYM, r"pub const fn key_size\(self\) -> usize \{.*?SymmetricKeyAlgorithm::" + _n + r" => (\d+),", "key_size " + _n)
item("symBlockOther", SYM, r"pub fn block_size\(self\) -> usize \{.*?Private10 \| SymmetricKeyAlgorithm::Other\(_\) => (\d+),", "block_size Private10/Other")
item("symKeyOther", SYM, r"pub const fn key_size\(self\) -> usize \{.*?Private10 \| SymmetricKeyAlgorithm::Other\(_\) => (\d+),", "key_size Private10/Other")

# -- AEAD modes
for _n in ["Eax", "Ocb", "Gcm"]:
    item("aeadId" + _n, AEAD, r"pub enum AeadAlgorithm \{.*?\b" + _n + r" = (\d+),", "AeadAlgorithm::" + _n + " octet")
    item("aeadNonce" + _n, AEAD, r"pub fn nonce_size\(&self\) -> usize \{.*?Self::" + _n + r" => (\d+),", "nonce_size " + _n)
    item("aeadTag" + _n, AEAD, r"pub fn tag_size\(&self\) -> Option<usize> \{.*?Self::" + _n + r" => Some\((\d+)\),", "tag_size " + _n)
item("aeadNonceOther", AEAD, r"pub fn nonce_size\(&self\) -> usize \{.*?_ => (\d+),", "nonce_size of any other mode")

# -- s2k_usage_aead / unlock literals
item("aeadTypeIdMask", PLN, r"let type_id = u8::from\(secret_tag\) \| (0x[0-9a-fA-F]+|\d+);", "s2k_usage_aead: packet type id mask (new-format tag octet)")
item("aeadOkmLen", PLN, r"fn s2k_usage_aead.*?let mut okm = \[0u8; (\d+)\];", "s2k_usage_aead: HKDF output length")
item("unlockSha1Len", ENC, r"S2kParams::Cfb \{ sym_alg, s2k, iv \} => \{.*?if plaintext\.len\(\) < (\d+) \{", "unlock Cfb: minimum plaintext length")
item("unlockSha1Split", ENC, r"split_at\(self\.data\.len\(\) - (\d+)\)", "unlock Cfb: SHA-1 split offset from the end")
item("unlockLegacyMin", ENC, r"S2kParams::LegacyCfb \{ sym_alg, iv \} => \{.*?if plaintext\.len\(\) < (\d+) \{", "unlock LegacyCfb: minimum plaintext length")
item("unlockMalleableMin", ENC, r"S2kParams::MalleableCfb \{ sym_alg, s2k, iv \} => \{.*?if plaintext\.len\(\) < (\d+) \{", "unlock MalleableCfb: minimum plaintext length")
item("plainChecksumLen", PLN,
     lambda t: (lambda m: int(m.group(1) or m.group(2)) if m else None)(
         re.search(r"pub fn try_from_reader<B: BufRead>\(.*?(?:let checksum = i\.read_arr::<(\d+)>\(\)\?;|data\.split_at\(data\.len\(\) - (\d+)\))", t, re.S)),
     "PlainSecretParams::try_from_reader checksum size")
item("plainChecksumVersionsV3V4", PLN,
     lambda t: 1 if re.search(r"pub fn try_from_reader<B: BufRead>\([^{]*\{(?:\s*let params = [^;]*;)?\s*if version == KeyVersion::V3 \|\| version == KeyVersion::V4 \{(?:(?!\n    \}).)*?checksum", t, re.S) else None,
     "PlainSecretParams::try_from_reader: checksum read exactly for V3 | V4 (1 = yes)")
flag("fixD8eChecksumOverStoredOctets", PLN, r"pub fn try_from_reader<B: BufRead>\(.*?checksum::calculate_simple\(material\)",
     "D8e repaired: the two-octet checksum of v3/v4 secret material is computed over the octets as stored (not over a re-encoding of the parsed values)")
item("tagSecretKey", TPK, r"\bSecretKey = (\d+),", "Tag::SecretKey")
item("tagSecretSubkey", TPK, r"\bSecretSubkey = (\d+),", "Tag::SecretSubkey")
item("keyVersionV4", TPK, r"pub enum KeyVersion \{.*?\bV4 = (\d+),", "KeyVersion::V4")
item("keyVersionV6", TPK, r"pub enum KeyVersion \{.*?\bV6 = (\d+),", "KeyVersion::V6")
item("keyVersionV3", TPK, r"pub enum KeyVersion \{.*?\bV3 = (\d+),", "KeyVersion::V3")


def _chain(names, prefix, other):
    out = []
    for n in names:
        out.append(f"  if o = symId{n} then {prefix}{n} else")
    out.append(f"  {other}")
    return "\n".join(out)


derived("/-- `SymmetricKeyAlgorithm::block_size`, by cipher octet -/\ndef c08SymBlockSize (o : Nat) : Nat :=\n"
        + _chain(_SYMS, "symBlock", "symBlockOther"))
derived("/-- `SymmetricKeyAlgorithm::key_size`, by cipher octet -/\ndef c08SymKeySize (o : Nat) : Nat :=\n"
        + _chain(_SYMS, "symKey", "symKeyOther"))
derived("""
/-- `AeadAlgorithm::nonce_size`, by mode octet -/
def c08AeadNonceSize (o : Nat) : Nat :=
  if o = aeadIdEax then aeadNonceEax else
  if o = aeadIdOcb then aeadNonceOcb else
  if o = aeadIdGcm then aeadNonceGcm else aeadNonceOther

/-- `AeadAlgorithm::tag_size`, by mode octet -/
def c08AeadTagSize (o : Nat) : Option Nat :=
  if o = aeadIdEax then some aeadTagEax else
  if o = aeadIdOcb then some aeadTagOcb else
  if o = aeadIdGcm then some aeadTagGcm else none
""")
