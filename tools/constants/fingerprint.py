# ---- packet/key/public.rs : PubKeyInner::imprint / legacy_key_id -------------------------------
PK = "src/packet/key/public.rs"
item("fpV4Prefix", PK, r"KeyVersion::V4 => \{\s*hasher\.update\(\[(0x[0-9A-Fa-f]+)\]\);", "imprint V4: first hashed octet")
item("fpV4VersionOctet", PK, r"let mut packet = vec!\[(\d+), 0, 0, 0, 0\];", "imprint V4: version octet of the rebuilt packet")
item("fpV4LenBits", PK, r"hasher\.update\(\(packet\.len\(\) as u(\d+)\)\.to_be_bytes\(\)\);", "imprint V4: width of the `as` cast of the length field (bits)")
item("fpV6Prefix", PK, r"// a\.1\) 0x9B \(1 octet\)\s*hasher\.update\(\[(0x[0-9A-Fa-f]+)\]\);", "imprint V6: first hashed octet")
item("fpV6FixedLen", PK, r"let total_len: u32 = ([0-9 +]+?) \+ len;", "imprint V6: octets of (b)-(e) counted in the length field")
item("fpV6VersionOctet", PK, r"// b\) version number = 6 \(1 octet\);\s*hasher\.update\(\[(0x[0-9A-Fa-f]+)\]\);", "imprint V6: version octet")
item("keyIdV3Width", PK, r"if n\.len\(\) >= (\d+) \{\s*let offset = n\.len\(\) - \d+;", "legacy_key_id V2/V3: octets taken from the end of n (test)")
item("keyIdV3Sub", PK, r"if n\.len\(\) >= \d+ \{\s*let offset = n\.len\(\) - (\d+);", "legacy_key_id V2/V3: octets taken from the end of n (offset)")
item("keyIdV3Pad", PK, r"let offset = (\d+) - n\.len\(\);", "legacy_key_id V2/V3: width to which a short n is left-padded")
item("keyIdV4Width", PK, r"// Lower 64 bits\s*let f = self\.fingerprint\(\);\s*let offset = f\.len\(\) - (\d+);", "legacy_key_id V4: octets taken from the end of the fingerprint")
item("keyIdV6Take", PK, r"// High 64 bits\s*let f = self\.fingerprint\(\);\s*let raw: \[u8; 8\] = f\.as_bytes\(\)\[0\.\.(\d+)\]", "legacy_key_id V6: octets taken from the start of the fingerprint")
# ---- types/fingerprint.rs / types/packet.rs : fingerprint lengths ----------------------------
FP = "src/types/fingerprint.rs"
item("fpArrV3", FP, r"V3\(\[u8; (\d+)\]\)", "Fingerprint::V3 array length")
item("fpArrV4", FP, r"V4\(\[u8; (\d+)\]\)", "Fingerprint::V4 array length")
item("fpArrV6", FP, r"V6\(\[u8; (\d+)\]\)", "Fingerprint::V6 array length")
item("fpLenV3", FP, r"Self::V2\(_\) \| Self::V3\(_\) => (\d+),", "Fingerprint::len for V2/V3")
item("fpLenV4", FP, r"Self::V4\(_\) => (\d+),", "Fingerprint::len for V4")
item("fpLenV6", FP, r"Self::V5\(_\) \| Self::V6\(_\) => (\d+),", "Fingerprint::len for V5/V6")
TP2 = "src/types/packet.rs"
item("kvFpLenV3", TP2, r"KeyVersion::V2 \| KeyVersion::V3 => Some\((\d+)\)", "KeyVersion::fingerprint_len V2/V3")
item("kvFpLenV4", TP2, r"KeyVersion::V4 => Some\((\d+)\)", "KeyVersion::fingerprint_len V4")
item("kvFpLenV6", TP2, r"KeyVersion::V5 \| KeyVersion::V6 => Some\((\d+)\)", "KeyVersion::fingerprint_len V5/V6")
# ---- types/mpi.rs ----------------------------------------------------------------------------
MP = "src/types/mpi.rs"
item("maxExternMpiBits", MP, r"const MAX_EXTERN_MPI_BITS: u16 = (\d+);", "mpi.rs MAX_EXTERN_MPI_BITS")
item("mpiRoundAdd", MP, r"let len_bytes = \(len_bits \+ (\d+)\) >> (\d+);", "Mpi::try_from_reader bits->bytes rounding: added", group=1)
item("mpiRoundShift", MP, r"let len_bytes = \(len_bits \+ (\d+)\) >> (\d+);", "Mpi::try_from_reader bits->bytes rounding: shift", group=2)
item("mpiBitsPerByte", MP, r"\(val\.len\(\) \* (\d+)\) - val\[0\]\.leading_zeros\(\)", "bit_size: bits per octet")
# ---- packet/signature/types.rs : serialize_for_hashing (key framing in signature pre-images) ---
ST = "src/packet/signature/types.rs"
item("sigKeyPrefixV4", ST, r"fn serialize_for_hashing.*?writer\.write_u8\((0x[0-9A-Fa-f]+)\)\?;\s*writer\.write_u16", "serialize_for_hashing: prefix octet for v2/v3/v4 keys")
item("sigKeyPrefixV6", ST, r"fn serialize_for_hashing.*?writer\.write_u8\((0x[0-9A-Fa-f]+)\)\?;\s*writer\.write_u32", "serialize_for_hashing: prefix octet for v6 keys")
# ---- packet/signature/subpacket.rs : issuer subpacket type octets -------------------------------
SP = "src/packet/signature/subpacket.rs"
item("spIssuerKeyIdWr", SP, r"SubpacketType::IssuerKeyId => (\d+),", "SubpacketType -> u8: IssuerKeyId")
item("spIssuerKeyIdRd", SP, r"(\d+) => SubpacketType::IssuerKeyId,", "u8 -> SubpacketType: IssuerKeyId")
item("spIssuerFpWr", SP, r"SubpacketType::IssuerFingerprint => (\d+),", "SubpacketType -> u8: IssuerFingerprint")
item("spIssuerFpRd", SP, r"(\d+) => SubpacketType::IssuerFingerprint,", "u8 -> SubpacketType: IssuerFingerprint")
# ---- packet/public_key_encrypted_session_key.rs ------------------------------------------------
PE = "src/packet/public_key_encrypted_session_key.rs"
item("pkeskV3", PE, r"match version \{\s*(\d+) => \{\s*// the key id this maps to", "PKESK parser: version octet of the key-id form")
item("pkeskV6", PE, r"(\d+) => \{\s*// A one-octet size of the following two fields\. This size may be zero,", "PKESK parser: version octet of the fingerprint form")
item("pkeskKeyIdLen", PE, r"let key_id_raw = i\.read_arr::<(\d+)>\(\)\?;", "PKESK v3 parser: key id octets")
# ---- packet/signature/de.rs ---------------------------------------------------------------------
item("issuerKeyIdLen", "src/packet/signature/de.rs", r"let key_id = i\.read_arr::<(\d+)>\(\)\.map\(KeyId::from\)\?;", "de.rs issuer: key id octets")
# ---- crypto/public_key.rs : algorithm octets the material dispatch (`shape`) is keyed on --------
PA = "src/crypto/public_key.rs"
for _lean, _rust in [("algRsa", "RSA"), ("algRsaEncrypt", "RSAEncrypt"), ("algRsaSign", "RSASign"),
                     ("algElgamalEncrypt", "ElgamalEncrypt"), ("algDsa", "DSA"), ("algEcdh", "ECDH"),
                     ("algEcdsa", "ECDSA"), ("algElgamal", "Elgamal"), ("algEddsaLegacy", "EdDSALegacy"),
                     ("algX25519", "X25519"), ("algX448", "X448"), ("algEd25519", "Ed25519"), ("algEd448", "Ed448")]:
    item(_lean, PA, r"\n\s*" + _rust + r" = (\d+),", "PublicKeyAlgorithm::" + _rust)
# ---- types/params/public/*.rs : sizes of the native key encodings, ECDH KDF octets ---------------
item("ed25519PubLen", "src/types/params/public/ed25519.rs", r"i\.read_arr::<(\d+)>\(\)\?", "Ed25519PublicParams::try_from_reader octets")
item("x25519PubLen", "src/types/params/public/x25519.rs", r"i\.read_arr::<(\d+)>\(\)\?", "X25519PublicParams::try_from_reader octets")
item("x448PubLen", "src/types/params/public/x448.rs", r"i\.read_arr::<(\d+)>\(\)\?", "X448PublicParams::try_from_reader octets")
item("ed448PubLen", "src/types/params/public/ed448.rs", r"i\.read_arr::<(\d+)>\(\)\?", "Ed448PublicParams::try_from_reader octets")
item("ecdhKdfParamLen", "src/types/params/public/ecdh.rs", r"Self::Native => (0x[0-9A-Fa-f]+),", "EcdhKdfType::param_len (Native)")
item("ecdhKdfNative", "src/types/params/public/ecdh.rs", r"EcdhKdfType::Native => (0x[0-9A-Fa-f]+),", "u8::from(EcdhKdfType::Native)")
item("ecdhKdfNativeRd", "src/types/params/public/ecdh.rs", r"(0x[0-9A-Fa-f]+) => EcdhKdfType::Native,", "ECDH parser: KDF type octet accepted as Native")
# ---- types/packet.rs : key version octets ----------------------------------------------------------
item("keyVersionV2", "src/types/packet.rs", r"pub enum KeyVersion \{\s*V2 = (\d+),", "KeyVersion::V2")
item("keyVersionV3", "src/types/packet.rs", r"pub enum KeyVersion \{.*?V3 = (\d+),", "KeyVersion::V3")
item("keyVersionV4", "src/types/packet.rs", r"pub enum KeyVersion \{.*?V4 = (\d+),", "KeyVersion::V4")
item("keyVersionV6", "src/types/packet.rs", r"pub enum KeyVersion \{.*?V6 = (\d+),", "KeyVersion::V6")
