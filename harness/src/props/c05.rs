//! C05 — wire fidelity: parse and serialize are mutually inverse and lengths are truthful.
//!
//! Correspondence ops (model: RpgpModel/Wire.lean, handlers RpgpModel/Ops/C05.lean):
//!   c05_pkt data=<bytes> [av=1]   first packet of the stream through PacketParser::next, then
//!                             Packet::to_writer (= to_writer_with_header), body write_len,
//!                             Packet::write_len (= write_len_with_header)
//!       answer  ok:<tag>:<summary>:<reser|wfail>:<write_len>:<write_len_with_header>:<rest>:<same>
//!               | none | err           (`av=1`: API-built object, key material trusted valid)
//!   c05_mpi data=<bytes>          Mpi::try_from_reader / to_writer / write_len
//!   c05_s2k data=<bytes>          StringToKey::try_from_reader / to_writer / write_len
//!   c05_sigmut data=<sig packet> op=ins|rm idx=<n> [sp=<subpacket>]   unhashed_subpacket_insert/remove
//!   c05_keymut data=<secret key packet> sec=<new secret section> [av=1]  set_password*/remove_password
//!   <bytes> = `+`-joined parts, each hex or p<seed>x<len> (frame::pattern)
//!
//! The encodings are produced field by field by src/wire.rs (an RFC 9580 encoder independent of
//! rpgp and of the model); the model re-serialises with its own encoder, so on canonical inputs the
//! three encoders are compared byte for byte (`same` flag and `reser`).
//!
//! Oracles (property text):
//!   roundtrip_equal_value        "serializes to bytes that parse back to an equal value"
//!   canonical_identical_bytes    "a canonically encoded input re-serializes to the identical bytes"
//!   write_len_truthful           "the length ... through its length query ... equals the number of
//!                                 bytes it then writes" (Serialize::write_len vs to_writer)
//!   header_len_truthful          same for write_len_with_header / the packet header
//!   *_after_mutation             "... also after the object was modified through the public API"
//!   accepted_object_serializes   an accepted / constructed object can be written at all

use pgp::packet::{Packet, PacketParser, PacketTrait};
use pgp::ser::Serialize;
use pgp::types::KeyDetails;

use crate::ctx::{guarded, hx, Ctx};
use crate::frame::{self, cksum, pattern};
use crate::wire;

// ------------------------------------------------------------------------------------------
// byte strings with an optional long patterned middle part (keeps request lines short)

#[derive(Clone)]
pub struct Msg {
    pub pre: Vec<u8>,
    pub pat: Option<(usize, usize)>,
    pub post: Vec<u8>,
}

impl Msg {
    pub fn hexed(b: Vec<u8>) -> Self {
        Msg { pre: b, pat: None, post: vec![] }
    }
    pub fn bytes(&self) -> Vec<u8> {
        let mut v = self.pre.clone();
        if let Some((s, n)) = self.pat {
            v.extend(pattern(s, n));
        }
        v.extend_from_slice(&self.post);
        v
    }
    pub fn len(&self) -> usize {
        self.pre.len() + self.pat.map(|p| p.1).unwrap_or(0) + self.post.len()
    }
    pub fn req(&self) -> String {
        let mut parts = Vec::new();
        if !self.pre.is_empty() {
            parts.push(hex::encode(&self.pre));
        }
        if let Some((s, n)) = self.pat {
            parts.push(format!("p{s}x{n}"));
        }
        if !self.post.is_empty() {
            parts.push(hex::encode(&self.post));
        }
        if parts.is_empty() { "-".to_string() } else { parts.join("+") }
    }
    /// wrap as a packet: header in the given format/length form around this body
    pub fn framed(&self, new_format: bool, tag: u8, form: u8) -> Option<Msg> {
        let n = self.len();
        let mut h = Vec::new();
        if new_format {
            h.push(0xC0 | tag);
            h.extend(frame::new_len(form, n)?);
        } else {
            h.push(0x80 | (tag << 2) | form);
            h.extend(frame::old_len(form, n)?);
        }
        h.extend_from_slice(&self.pre);
        Some(Msg { pre: h, pat: self.pat, post: self.post.clone() })
    }
    /// canonical framing: new format, minimal length
    pub fn packet(&self, tag: u8) -> Msg {
        let n = self.len();
        let form = if n < 192 { 1 } else if n < 8384 { 2 } else { 5 };
        self.framed(true, tag, form).expect("frame")
    }
}

pub fn show_bytes(b: &[u8]) -> String {
    if b.len() <= 40 { hx(b) } else { format!("#{}", cksum(b)) }
}

// ------------------------------------------------------------------------------------------
// the real side

pub struct Real {
    pub ans: String,
    pub pkt: Option<Packet>,
    pub out: Option<Vec<u8>>,
    pub rest: usize,
}

fn sig_kind(s: &pgp::types::SignatureBytes) -> String {
    match s {
        pgp::types::SignatureBytes::Mpis(m) => format!("m{}", m.len()),
        pgp::types::SignatureBytes::Native(b) => format!("n{}", b.len()),
    }
}

/// value summary (same format as `Ops.C05.summary`) and the body `Serialize::write_len`
fn summarize(p: &Packet) -> (String, usize) {
    use pgp::packet::*;
    match p {
        Packet::Signature(s) => {
            let ver: u8 = s.version().into();
            let sum = match (s.config(), s.signature()) {
                (Some(c), Some(sb)) => match ver {
                    2 | 3 => format!("s{ver}.{}", sig_kind(sb)),
                    _ => format!("s{ver}.{}.{}.{}", c.hashed_subpackets.len(), c.unhashed_subpackets.len(), sig_kind(sb)),
                },
                _ => format!("su{ver}"),
            };
            (sum, s.write_len())
        }
        Packet::OnePassSignature(o) => {
            let v = o.version();
            let s = match v { 3 => "o3".to_string(), 6 => "o6".to_string(), v => format!("ou{v}") };
            (s, o.write_len())
        }
        Packet::PublicKeyEncryptedSessionKey(k) => {
            let s = match k {
                PublicKeyEncryptedSessionKey::V3 { pk_algo, .. } => format!("k3.{}", u8::from(*pk_algo)),
                PublicKeyEncryptedSessionKey::V6 { pk_algo, .. } => format!("k6.{}", u8::from(*pk_algo)),
                PublicKeyEncryptedSessionKey::Other { version, .. } => format!("ko{version}"),
            };
            (s, k.write_len())
        }
        Packet::SymKeyEncryptedSessionKey(k) => {
            let s = match k {
                SymKeyEncryptedSessionKey::V4 { .. } => "y4".to_string(),
                SymKeyEncryptedSessionKey::V5 { .. } => "y5".to_string(),
                SymKeyEncryptedSessionKey::V6 { .. } => "y6".to_string(),
                SymKeyEncryptedSessionKey::Other { version, .. } => format!("yo{version}"),
            };
            (s, k.write_len())
        }
        Packet::PublicKey(k) => (format!("p{}.{}", u8::from(k.version()), u8::from(k.algorithm())), k.write_len()),
        Packet::PublicSubkey(k) => (format!("p{}.{}", u8::from(k.version()), u8::from(k.algorithm())), k.write_len()),
        Packet::SecretKey(k) => (sec_summary(k.version().into(), k.algorithm().into(), k.secret_params()), k.write_len()),
        Packet::SecretSubkey(k) => (sec_summary(k.version().into(), k.algorithm().into(), k.secret_params()), k.write_len()),
        Packet::LiteralData(l) => (format!("l{}.{}", l.file_name().len(), l.data().len()), l.write_len()),
        Packet::SymEncryptedProtectedData(e) => (format!("e{}", e.version()), e.write_len()),
        Packet::CompressedData(c) => (format!("c{}", c.compressed_data().len()), c.write_len()),
        Packet::Marker(m) => ("m".to_string(), m.write_len()),
        Packet::Trust(t) => ("t".to_string(), t.write_len()),
        Packet::UserId(u) => (format!("q{}", u.id().len()), u.write_len()),
        Packet::Padding(x) => (format!("q{}", x.write_len()), x.write_len()),
        Packet::SymEncryptedData(x) => (format!("q{}", x.data().len()), x.write_len()),
        Packet::ModDetectionCode(x) => ("d".to_string(), x.write_len()),
        Packet::UserAttribute(x) => ("ua".to_string(), x.write_len()),
        Packet::GnupgAeadData(x) => ("ga".to_string(), x.write_len()),
    }
}

fn sec_summary(ver: u8, alg: u8, sp: &pgp::types::SecretParams) -> String {
    let d = match sp {
        pgp::types::SecretParams::Plain(_) => "p".to_string(),
        pgp::types::SecretParams::Encrypted(e) => format!("{}", e.data().len()),
    };
    format!("x{ver}.{alg}.{}.{d}", sp.string_to_key_id())
}

pub fn serialize(p: &Packet) -> Option<Vec<u8>> {
    let r = guarded(|| {
        let mut out = Vec::new();
        p.to_writer(&mut out).ok().map(|_| out)
    });
    r.ok().flatten()
}

/// first packet of `data` through PacketParser::next
pub fn real_packet(data: &[u8]) -> Real {
    let r = guarded(|| {
        let mut src: &[u8] = data;
        let item = {
            let mut parser = PacketParser::new(&mut src);
            parser.next()
        };
        (item, src.len())
    });
    match r {
        Err(_) => Real { ans: "panic".into(), pkt: None, out: None, rest: 0 },
        Ok((None, _)) => Real { ans: "none".into(), pkt: None, out: None, rest: 0 },
        Ok((Some(Err(_)), _)) => Real { ans: "err".into(), pkt: None, out: None, rest: 0 },
        Ok((Some(Ok(p)), rest)) => {
            let out = serialize(&p);
            let ans = answer_for(&p, out.as_deref(), rest, &data[..data.len() - rest]);
            Real { ans, pkt: Some(p), out, rest }
        }
    }
}

pub fn answer_for(p: &Packet, out: Option<&[u8]>, rest: usize, consumed: &[u8]) -> String {
    let tag: u8 = p.tag().into();
    let (sum, wl) = match guarded(|| summarize(p)) {
        Ok(v) => v,
        Err(_) => ("panic".to_string(), 0),
    };
    let wlh = guarded(|| p.write_len()).unwrap_or(usize::MAX);
    let (s, same) = match out {
        Some(o) => (show_bytes(o), if o == consumed { 1 } else { 0 }),
        None => ("wfail".to_string(), 0),
    };
    format!("ok:{tag}:{sum}:{s}:{wl}:{wlh}:{rest}:{same}")
}

/// header peek for the "is this request inside the model" rule: (tag, body offset)
fn peek(data: &[u8]) -> Option<(u8, usize)> {
    let h = *data.first()?;
    if h & 0xC0 == 0xC0 {
        let o = *data.get(1)?;
        let n = if o < 192 { 1 } else if o < 224 { 2 } else if o == 255 { 5 } else { 1 };
        Some((h & 0x3F, 1 + n))
    } else if h & 0xC0 == 0x80 {
        let n = match h & 3 { 0 => 1, 1 => 2, 2 => 4, _ => 0 };
        Some(((h >> 2) & 0x0F, 1 + n))
    } else {
        None
    }
}

/// requests the model answers `unmodelled` (kept out of the correspondence, still run through
/// the oracles): user attributes, GnuPG AEAD packets, key packets whose algorithm-specific
/// material rpgp validates with third-party crates; conservatively every RSA *secret* key.
pub fn modelled(data: &[u8], trust: bool) -> bool {
    let Some((tag, off)) = peek(data) else { return true };
    if tag == 17 || tag == 20 {
        return false;
    }
    if trust {
        return true;
    }
    if matches!(tag, 5 | 6 | 7 | 14) {
        let body = &data[off.min(data.len())..];
        if let Some(&v) = body.first() {
            if v == 4 || v == 6 {
                if let Some(&alg) = body.get(5) {
                    if matches!(alg, 17 | 18 | 19 | 22 | 26 | 27 | 28) {
                        return false;
                    }
                    if (tag == 5 || tag == 7) && matches!(alg, 1 | 2 | 3) {
                        return false;
                    }
                }
            }
            if (v == 2 || v == 3) && (tag == 5 || tag == 7) {
                return false;
            }
        }
    }
    true
}

thread_local! {
    /// generator-side annotation appended (after ` #`) to the oracle input of the next cases; it
    /// describes how the *input* was built (never anything rpgp computed)
    static NOTE: std::cell::RefCell<String> = const { std::cell::RefCell::new(String::new()) };
}

pub fn set_note(s: &str) {
    NOTE.with(|n| *n.borrow_mut() = s.to_string());
}

/// annotations derivable from the input bytes alone
fn auto_note(data: &[u8]) -> String {
    let mut v: Vec<String> = Vec::new();
    NOTE.with(|n| {
        if !n.borrow().is_empty() {
            v.push(n.borrow().clone());
        }
    });
    if let Some((tag, off)) = peek(data) {
        let body = &data[off.min(data.len())..];
        if data[0] & 0xC0 == 0xC0 && data.len() > 1 && (224..255).contains(&data[1]) {
            v.push("partial_length".into());
        }
        if tag == 1 && !body.is_empty() && body[0] != 3 && body[0] != 6 {
            v.push("pkesk_other_version".into());
        }
        if tag == 12 && !body.is_empty() {
            v.push("trust_body".into());
        }
    }
    if v.is_empty() { String::new() } else { format!(" #{}", v.join(",")) }
}

/// One generated stream: correspondence case + property oracles.
pub fn run_pkt(ctx: &mut Ctx, msg: &Msg, trust: bool, canonical: bool, label: &str) -> Real {
    let data = msg.bytes();
    let req = format!("c05_pkt data={}{}", msg.req(), if trust { " av=1" } else { "" });
    let real = real_packet(&data);
    if modelled(&data, trust) {
        ctx.case(req.clone(), real.ans.clone());
    } else {
        ctx.stat("unmodelled_skipped");
    }
    ctx.stat(&format!("gen:{label}"));
    ctx.stat(&format!("result:{}", real.ans.split(':').next().unwrap_or("")));
    if real.ans == "panic" {
        ctx.oracle("accepted_object_serializes", "PacketParser::next / Packet::to_writer", &req, false, "panic");
    }
    if let Some(p) = &real.pkt {
        let input = format!("{req}{}", auto_note(&data));
        oracles(ctx, p, real.out.as_deref(), &data[..data.len() - real.rest], canonical, &input, "");
    }
    real
}

fn tagname(p: &Packet) -> String {
    format!("{:?}", p.tag())
}

/// the property oracles on one parsed / constructed packet
pub fn oracles(ctx: &mut Ctx, p: &Packet, out: Option<&[u8]>, consumed: &[u8], canonical: bool, input: &str, suffix: &str) {
    let t = tagname(p);
    let Some(out) = out else {
        ctx.oracle(&format!("accepted_object_serializes{suffix}"), &format!("{t}::to_writer_with_header"), input, false, "to_writer failed");
        return;
    };
    ctx.oracle(&format!("accepted_object_serializes{suffix}"), &format!("{t}::to_writer_with_header"), input, true, "");
    // the same object through the generic paths (a reference, a generic function over `PacketTrait`):
    // the same octets and the same announced length
    {
        fn via<T: PacketTrait>(t: T) -> (Option<Vec<u8>>, usize) {
            let mut v = Vec::new();
            let ok = t.to_writer_with_header(&mut v).is_ok();
            (ok.then_some(v), t.write_len_with_header())
        }
        let r = crate::ctx::guarded(|| (via(p), via(&p)));
        let same = matches!(&r, Ok(((Some(a), la), (Some(b), lb))) if a.as_slice() == out && b.as_slice() == out && *la == out.len() && *lb == out.len());
        ctx.oracle(&format!("length_truthful{suffix}"), &format!("{t} through &T / generic PacketTrait::to_writer_with_header"), input, same, &format!("{:?}", r.as_ref().map(|((a, la), (b, lb))| (a.as_ref().map(|x| x.len()), *la, b.as_ref().map(|x| x.len()), *lb))));
    }
    // "serializes to bytes that parse back to an equal value"
    // (the stored packet header keeps how the *input* encoded its length — partial / non-minimal
    // legacy length type / a length that shrinks on normalisation; that is a property of the old
    // encoding, not of the value, so when `==` fails the comparison is repeated with the header's
    // length field disregarded: P' = parse(ser P) must write the same bytes as P and must itself
    // satisfy parse(ser P') == P' strictly)
    let again = real_packet(out);
    let strict = again.rest == 0 && again.pkt.as_ref() == Some(p);
    let eq = strict || {
        // P' = parse(ser P) writes the same bytes as P and is itself a strict fixed point
        match (&again.pkt, &again.out) {
            (Some(q), Some(qout)) if again.rest == 0 && qout.as_slice() == out => {
                let third = real_packet(qout);
                third.rest == 0 && third.pkt.as_ref() == Some(q)
            }
            _ => false,
        }
    };
    if !strict && eq {
        ctx.stat("roundtrip_equal_modulo_header_length");
    }
    ctx.oracle(
        &format!("roundtrip_equal_value{suffix}"),
        &format!("PacketParser -> {t}::to_writer_with_header -> PacketParser"),
        input,
        eq,
        &format!("written {} reparsed {}", show_bytes(out), again.ans),
    );
    // "a canonically encoded input re-serializes to the identical bytes"
    if canonical {
        ctx.oracle(
            &format!("canonical_identical_bytes{suffix}"),
            &format!("PacketParser -> {t}::to_writer_with_header"),
            input,
            out == consumed,
            &format!("written {}", show_bytes(out)),
        );
    }
    // "the length the library announces ... equals the number of bytes it then writes"
    let (_, wl) = summarize(p);
    let mut body = Vec::new();
    let body_ok = guarded(|| body_to_writer(p, &mut body)).unwrap_or(false);
    if body_ok {
        ctx.oracle(
            &format!("write_len_truthful{suffix}"),
            &format!("{t}::write_len vs to_writer"),
            input,
            wl == body.len(),
            &format!("write_len {wl} written {}", body.len()),
        );
    }
    // an object that was modified through the public API keeps its own length bookkeeping: the
    // length its stored packet header announces (public accessor) is the length of the body it writes
    if !suffix.is_empty() && body_ok {
        use pgp::packet::PacketTrait;
        if let pgp::types::PacketLength::Fixed(n) = p.packet_header().packet_length() {
            ctx.oracle(
                &format!("stored_header_truthful{suffix}"),
                &format!("{t}::packet_header().packet_length() vs to_writer"),
                input,
                n as usize == body.len(),
                &format!("stored header announces {n}, body written {}", body.len()),
            );
        }
    }
    let wlh = p.write_len();
    ctx.oracle(
        &format!("header_len_truthful{suffix}"),
        &format!("{t}::write_len_with_header vs to_writer_with_header"),
        input,
        wlh == out.len(),
        &format!("write_len_with_header {wlh} written {}", out.len()),
    );
}

fn body_to_writer(p: &Packet, w: &mut Vec<u8>) -> bool {
    use pgp::packet::Packet::*;
    let r = match p {
        Signature(x) => x.to_writer(w),
        OnePassSignature(x) => x.to_writer(w),
        PublicKeyEncryptedSessionKey(x) => x.to_writer(w),
        SymKeyEncryptedSessionKey(x) => x.to_writer(w),
        PublicKey(x) => x.to_writer(w),
        PublicSubkey(x) => x.to_writer(w),
        SecretKey(x) => x.to_writer(w),
        SecretSubkey(x) => x.to_writer(w),
        LiteralData(x) => x.to_writer(w),
        SymEncryptedProtectedData(x) => x.to_writer(w),
        CompressedData(x) => x.to_writer(w),
        Marker(x) => x.to_writer(w),
        Trust(x) => x.to_writer(w),
        UserId(x) => x.to_writer(w),
        Padding(x) => x.to_writer(w),
        SymEncryptedData(x) => x.to_writer(w),
        ModDetectionCode(x) => x.to_writer(w),
        UserAttribute(x) => x.to_writer(w),
        GnupgAeadData(x) => x.to_writer(w),
    };
    r.is_ok()
}

include!("c05_gen.rs");
