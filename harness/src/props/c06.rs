//! C06 — signature completeness: what any signing API signs, every verify API accepts.
//!
//! Observation technique: a RECORDING `SigningKey` (`RecSigner`) and a recording `VerifyingKey`
//! (`RecVerifier`) wrap the real keys by delegation and log the digest the library hands to the
//! public-key primitive.  The digest is then *identified*: with the real salt and the real
//! hashed-fields/trailer bytes of the signature packet (obtained from the public
//! `SignatureConfig::hash_signature_data` + `trailer` through a recording `DynDigest`), the harness
//! searches a generic candidate set of data transforms X (raw, canonical, trimmed, …; for key
//! signatures the RFC 9580 §5.2.4 framing) for the one with
//! `H(salt ‖ X ‖ fields ‖ trailer) = recorded digest` (H = SHA-256/512 from RustCrypto).  The
//! identified pre-image is the implementation's answer; the Lean model must predict the same bytes
//! from the payload alone.  A verification that is rejected on the two-octet `signed_hash_value`
//! never reaches the key; for those the verify side is probed with copies of the signature whose
//! `signed_hash_value` is adjusted (`probe_verify_digest`), so that the verify-side input is
//! observed on failing inputs as well.
//!
//! Correspondence ops (model: RpgpModel/SignVerify.lean, ops in RpgpModel/Ops/C06.lean):
//!   sv_sign   iface=config|det_bin|det_text|builder|ct_new|ct_many kv=.. ver=.. typ=.. pk=.. hash=..
//!             salt=.. area=.. chunks=..|text=..      pre-image the signing interface hashed
//!   sv_verify iface=detached|inline_ops|inline_sig|cleartext …   pre-image the verifying interface hashed
//!   sv_keysig side=sign|verify kind=key|subkey|primary|cert|attr …  key / certificate signatures
//!   ct_escape / ct_signed_text / ct_roundtrip / ct_read_body     cleartext framework strings
//!
//! Interfaces driven.  Sign: DetachedSignature::sign_{binary,text}_data, SignatureConfig::sign
//! (Binary/Text), MessageBuilder::sign ×1–2 (sign_binary/sign_text, from_bytes/from_reader, to_vec /
//! to_armored_string), CleartextSignedMessage::{sign,new,new_many ×1–2}, SignatureConfig::
//! sign_{certification,certification_third_party,key,subkey_binding,primary_key_binding},
//! SecretKeyParams::generate (certificate self-signatures).  Verify: Signature::verify(reader with a
//! read schedule), DetachedSignature::verify (direct, after to_bytes→from_bytes, after
//! to_armored_string→from_string), Message::verify after from_bytes / from_armor (one-pass and
//! prefixed-signature messages), the embedded signature packet through the detached verifier,
//! CleartextSignedMessage::{verify,verify_many} directly and after to_armored_string→from_string,
//! Signature::verify_{certification,third_party_certification,key,key_third_party,subkey_binding,
//! primary_key_binding} (also on the re-parsed packet), verify_bindings on secret/public
//! certificates before and after the binary / armored round trip.
//!
//! Generators: corpus (defect witnesses and neighbours); ALL strings over {CR, LF, x} up to length 7
//! through every interface and both key versions; all strings over {CR, LF, x, SP, '-'} up to
//! length 5 (thorough 6) through the cleartext interfaces; random texts over
//! {CR, LF, TAB, SP, '-', 'é', NUL, 'a'} of 8..8200 atoms with line-end material planted on the
//! 512 / 1024 / 8192 internal edges, half of them cleaned of trailing blanks / final CR; keys
//! Ed25519 v4, Ed25519 v6, RSA-2048 v4 (few); SHA-256 / SHA-512.
//!
//! Oracles (property text only, independent of the model):
//!   sign_then_verify   "a signature made through any of the library's signing interfaces …
//!                       verifies through every verification interface that applies to it,
//!                       including after the artifact has been serialized, armored and parsed again"
//!   digests_agree      "the sign-side and verify-side computations agree on every input"
//!   armor_roundtrip_keeps_text, payload_unchanged, sign_succeeds   (supporting)

use std::io::Read;
use std::sync::Mutex;

use pgp::composed::{
    ArmorOptions, CleartextSignedMessage, Deserializable, DetachedSignature, KeyType, Message, MessageBuilder,
    SecretKeyParamsBuilder, SignedPublicKey, SignedSecretKey, SubkeyParamsBuilder,
};
use pgp::crypto::hash::HashAlgorithm;
use pgp::crypto::public_key::PublicKeyAlgorithm;
use pgp::packet::{
    LiteralData, PacketTrait, Signature, SignatureConfig, SignatureType, SignatureVersionSpecific, Subpacket,
    SubpacketData, UserId,
};
use pgp::ser::Serialize;
use pgp::types::{
    Fingerprint, KeyDetails, KeyId, KeyVersion, Password, PublicParams, SignatureBytes, SigningKey, Tag, Timestamp,
    VerifyingKey,
};
use pgp::verif_hooks::RecordingDigest;
use rand::{Rng, SeedableRng};
use rand_chacha::ChaCha8Rng;
use sha2::{Digest, Sha256, Sha512};

use crate::ctx::{guarded, hx, hx_list, Ctx};
use crate::frame::cksum;
use crate::gen;
use crate::io::ScheduledReader;
use crate::keys;

// ------------------------------------------------------------------------------------------
// recording keys
// ------------------------------------------------------------------------------------------

#[derive(Debug)]
pub struct RecSigner<'a, K: SigningKey> {
    inner: &'a K,
    hash: HashAlgorithm,
    pub log: Mutex<Vec<Vec<u8>>>,
}

impl<'a, K: SigningKey> RecSigner<'a, K> {
    pub fn new(inner: &'a K, hash: HashAlgorithm) -> Self {
        Self { inner, hash, log: Mutex::new(Vec::new()) }
    }
    pub fn take(&self) -> Vec<Vec<u8>> {
        std::mem::take(&mut *self.log.lock().expect("log"))
    }
}

impl<K: SigningKey> KeyDetails for RecSigner<'_, K> {
    fn version(&self) -> KeyVersion { self.inner.version() }
    fn legacy_key_id(&self) -> KeyId { self.inner.legacy_key_id() }
    fn fingerprint(&self) -> Fingerprint { self.inner.fingerprint() }
    fn algorithm(&self) -> PublicKeyAlgorithm { self.inner.algorithm() }
    fn created_at(&self) -> Timestamp { self.inner.created_at() }
    fn legacy_v3_expiration_days(&self) -> Option<u16> { self.inner.legacy_v3_expiration_days() }
    fn public_params(&self) -> &PublicParams { self.inner.public_params() }
}

impl<K: SigningKey> SigningKey for RecSigner<'_, K> {
    fn sign(&self, key_pw: &Password, hash: HashAlgorithm, data: &[u8]) -> pgp::errors::Result<SignatureBytes> {
        self.log.lock().expect("log").push(data.to_vec());
        self.inner.sign(key_pw, hash, data)
    }
    fn hash_alg(&self) -> HashAlgorithm { self.hash }
}

#[derive(Debug)]
pub struct RecVerifier<'a, K: VerifyingKey> {
    inner: &'a K,
    pub log: Mutex<Vec<Vec<u8>>>,
}

impl<'a, K: VerifyingKey> RecVerifier<'a, K> {
    pub fn new(inner: &'a K) -> Self {
        Self { inner, log: Mutex::new(Vec::new()) }
    }
    pub fn take(&self) -> Vec<Vec<u8>> {
        std::mem::take(&mut *self.log.lock().expect("log"))
    }
}

impl<K: VerifyingKey> KeyDetails for RecVerifier<'_, K> {
    fn version(&self) -> KeyVersion { self.inner.version() }
    fn legacy_key_id(&self) -> KeyId { self.inner.legacy_key_id() }
    fn fingerprint(&self) -> Fingerprint { self.inner.fingerprint() }
    fn algorithm(&self) -> PublicKeyAlgorithm { self.inner.algorithm() }
    fn created_at(&self) -> Timestamp { self.inner.created_at() }
    fn legacy_v3_expiration_days(&self) -> Option<u16> { self.inner.legacy_v3_expiration_days() }
    fn public_params(&self) -> &PublicParams { self.inner.public_params() }
}

impl<K: VerifyingKey> VerifyingKey for RecVerifier<'_, K> {
    fn verify(&self, hash: HashAlgorithm, data: &[u8], sig: &SignatureBytes) -> pgp::errors::Result<()> {
        self.log.lock().expect("log").push(data.to_vec());
        self.inner.verify(hash, data, sig)
    }
}

impl<K: VerifyingKey + Serialize> Serialize for RecVerifier<'_, K> {
    fn to_writer<W: std::io::Write>(&self, w: &mut W) -> pgp::errors::Result<()> { self.inner.to_writer(w) }
    fn write_len(&self) -> usize { self.inner.write_len() }
}

// ------------------------------------------------------------------------------------------
// independent restatements (RFC 9580 §5.2.1 / §7.2), used only to build the candidate set and by
// the generators
// ------------------------------------------------------------------------------------------

/// every LF not preceded by CR becomes CR LF
pub fn canon_ref(d: &[u8]) -> Vec<u8> {
    let mut out = Vec::with_capacity(d.len() + 8);
    for (i, &b) in d.iter().enumerate() {
        if b == b'\n' && (i == 0 || d[i - 1] != b'\r') {
            out.push(b'\r');
        }
        out.push(b);
    }
    out
}

/// "any trailing whitespace -- spaces (0x20) and tabs (0x09) -- at the end of any line is removed"
/// (a line ends at LF or CR LF, the last line at the end of the text)
pub fn trim_lines_ref(d: &[u8]) -> Vec<u8> {
    let mut out = Vec::with_capacity(d.len());
    let mut i = 0;
    while i < d.len() {
        let j = d[i..].iter().position(|&b| b == b'\n').map(|p| i + p);
        let (line_end, next) = match j {
            Some(j) => (if j > i && d[j - 1] == b'\r' { j - 1 } else { j }, j + 1),
            None => (d.len(), d.len()),
        };
        let mut k = line_end;
        while k > i && (d[k - 1] == b' ' || d[k - 1] == b'\t') {
            k -= 1;
        }
        out.extend_from_slice(&d[i..k]);
        out.extend_from_slice(&d[line_end..next]);
        i = next;
    }
    out
}

fn has_trailing_blank(d: &[u8]) -> bool {
    trim_lines_ref(d) != d
}

fn hash_of(alg: HashAlgorithm, d: &[u8]) -> Vec<u8> {
    match alg {
        HashAlgorithm::Sha256 => Sha256::digest(d).to_vec(),
        HashAlgorithm::Sha512 => Sha512::digest(d).to_vec(),
        HashAlgorithm::Sha224 => sha2::Sha224::digest(d).to_vec(),
        HashAlgorithm::Sha384 => sha2::Sha384::digest(d).to_vec(),
        HashAlgorithm::Sha3_256 => sha3::Sha3_256::digest(d).to_vec(),
        HashAlgorithm::Sha3_512 => sha3::Sha3_512::digest(d).to_vec(),
        _ => Vec::new(),
    }
}

/// the part of a signature packet the digest sees, taken from the real packet
#[derive(Clone, Debug)]
struct Framing {
    ver: u8,
    typ: u8,
    pk: u8,
    hash: u8,
    alg: HashAlgorithm,
    salt: Vec<u8>,
    area: Vec<u8>,
    /// bytes `hash_signature_data` feeds + `trailer(len)`, from the real code
    tail: Vec<u8>,
}

fn framing_of(cfg: &SignatureConfig) -> Option<Framing> {
    let rec = RecordingDigest::new();
    let mut h: Box<dyn digest::DynDigest + Send> = Box::new(rec.clone());
    let len = cfg.hash_signature_data(&mut h).ok()?;
    let mut tail = rec.seen();
    tail.extend(cfg.trailer(len).ok()?);
    let mut area = Vec::new();
    for sp in &cfg.hashed_subpackets {
        sp.to_writer(&mut area).ok()?;
    }
    let (ver, salt) = match &cfg.version_specific {
        SignatureVersionSpecific::V4 => (4u8, Vec::new()),
        SignatureVersionSpecific::V6 { salt } => (6u8, salt.clone()),
        _ => return None,
    };
    Some(Framing { ver, typ: cfg.typ.into(), pk: cfg.pub_alg.into(), hash: cfg.hash_alg.into(), alg: cfg.hash_alg, salt, area, tail })
}

impl Framing {
    fn fields(&self) -> String {
        format!("ver={} typ={} pk={} hash={} salt={} area={}", self.ver, self.typ, self.pk, self.hash, hx(&self.salt), hx(&self.area))
    }
    fn pre(&self, data: &[u8]) -> Vec<u8> {
        let mut p = self.salt.clone();
        p.extend_from_slice(data);
        p.extend_from_slice(&self.tail);
        p
    }
}

/// same as `Ops.C06.showPre`
fn show_pre(p: &[u8]) -> String {
    if p.len() <= 96 { format!("ok:{}", hx(p)) } else { format!("ok:ck:{}", cksum(p)) }
}

/// generic candidate set of what may have been hashed for payload `d`
fn data_candidates(d: &[u8]) -> Vec<(&'static str, Vec<u8>)> {
    let mut v: Vec<(&'static str, Vec<u8>)> = Vec::new();
    v.push(("raw", d.to_vec()));
    v.push(("canon", canon_ref(d)));
    v.push(("canon_trim", canon_ref(&trim_lines_ref(d))));
    v.push(("trim", trim_lines_ref(d)));
    if d.last() == Some(&b'\r') {
        let mut x = canon_ref(d);
        x.push(b'\n');
        v.push(("canon_plus_lf", x));
        let cut = &d[..d.len() - 1];
        v.push(("cut_cr_raw", cut.to_vec()));
        v.push(("cut_cr_canon", canon_ref(cut)));
        v.push(("cut_cr_canon_trim", canon_ref(&trim_lines_ref(cut))));
    }
    v
}

/// which candidate did the library hash? (decided by the real hash function)
fn identify(fr: &Framing, digest: &[u8], cands: &[(&'static str, Vec<u8>)]) -> Option<(&'static str, Vec<u8>)> {
    for (name, x) in cands {
        let p = fr.pre(x);
        if hash_of(fr.alg, &p) == digest {
            return Some((name, p));
        }
    }
    None
}

/// A verification that fails on the two-octet `signed_hash_value` comparison never reaches the
/// key, so the recording verifier sees nothing.  To still observe what the verify side hashed, the
/// check is re-run on copies of the signature whose `signed_hash_value` is that of each candidate
/// pre-image: the copy whose prefix matches lets the *real* digest through to the recording key.
fn probe_verify_digest(sig: &Signature, fr: &Framing, cands: &[(&'static str, Vec<u8>)], run: &dyn Fn(&Signature) -> Option<Vec<u8>>) -> Option<Vec<u8>> {
    let cfg = sig.config()?;
    let sb = sig.signature()?;
    for (_, x) in cands {
        let h = hash_of(fr.alg, &fr.pre(x));
        if h.len() < 2 {
            continue;
        }
        let Ok(copy) = Signature::from_config(cfg.clone(), [h[0], h[1]], sb.clone()) else { continue };
        if let Some(d) = run(&copy) {
            return Some(d);
        }
    }
    None
}

/// one-line rendering of a guarded call's outcome (error messages without backtraces)
fn brief<T, E: std::fmt::Display>(r: &Result<Result<T, E>, String>) -> String {
    match r {
        Ok(Ok(_)) => "ok".into(),
        Ok(Err(e)) => format!("Err({})", e.to_string().lines().next().unwrap_or("")),
        Err(p) => format!("panic({p})"),
    }
}

fn commas(d: &[u8]) -> String {
    if d.is_empty() { "-".into() } else { d.iter().map(|b| format!("{b:02x}")).collect::<Vec<_>>().join(",") }
}

// ------------------------------------------------------------------------------------------
// keys
// ------------------------------------------------------------------------------------------

struct TestKey {
    name: &'static str,
    kv: u8,
    ssk: SignedSecretKey,
    spk: SignedPublicKey,
}

impl TestKey {
    fn new(name: &'static str, ssk: SignedSecretKey) -> Self {
        let kv = if ssk.version() == KeyVersion::V6 { 6 } else { 4 };
        let spk = ssk.to_public_key();
        Self { name, kv, ssk, spk }
    }
    fn sk(&self) -> &pgp::packet::SecretKey { &self.ssk.primary_key }
    fn pk(&self) -> &pgp::packet::PublicKey { &self.spk.primary_key }
}

/// primary with a signing-capable subkey (for primary-key-binding signatures)
fn key_with_signing_subkey<R: Rng + rand::CryptoRng>(mut rng: R, version: KeyVersion) -> SignedSecretKey {
    let params = SecretKeyParamsBuilder::default()
        .version(version)
        .key_type(KeyType::Ed25519)
        .can_certify(true)
        .can_sign(true)
        .primary_user_id("Verif sub <sub@example.org>".into())
        .passphrase(None)
        .subkey(
            SubkeyParamsBuilder::default()
                .version(version)
                .key_type(KeyType::Ed25519)
                .can_sign(true)
                .passphrase(None)
                .build()
                .expect("subkey params"),
        )
        .build()
        .expect("key params");
    params.generate(&mut rng).expect("generate key")
}

// ------------------------------------------------------------------------------------------
// one observation = (what the interface hashed, did it succeed)
// ------------------------------------------------------------------------------------------

struct Env<'a> {
    ctx: &'a mut Ctx,
}

impl Env<'_> {
    /// emit one correspondence case for an observed digest
    fn digest_case(&mut self, side: &str, iface: &str, kv: u8, fr: &Framing, extra: &str, digest: Option<&Vec<u8>>, cands: &[(&'static str, Vec<u8>)]) {
        let req = format!("{side} iface={iface} kv={kv} {} {extra}", fr.fields());
        let ans = match digest {
            None => "none".to_string(),
            Some(d) => match identify(fr, d, cands) {
                Some((name, p)) => {
                    self.ctx.stat(&format!("hashed:{side}:{iface}:{name}"));
                    show_pre(&p)
                }
                None => {
                    self.ctx.stat(&format!("hashed:{side}:{iface}:UNIDENTIFIED"));
                    "err:unidentified".to_string()
                }
            },
        };
        self.ctx.case(req, ans);
    }
}

fn hash_name(h: HashAlgorithm) -> &'static str {
    match h {
        HashAlgorithm::Sha256 => "sha256",
        HashAlgorithm::Sha512 => "sha512",
        HashAlgorithm::Sha224 => "sha224",
        HashAlgorithm::Sha384 => "sha384",
        HashAlgorithm::Sha3_256 => "sha3-256",
        HashAlgorithm::Sha3_512 => "sha3-512",
        _ => "other",
    }
}

fn low_level_config(rng: &mut ChaCha8Rng, key: &impl SigningKey, typ: SignatureType, hash: HashAlgorithm, with_issuer: bool) -> Result<SignatureConfig, String> {
    let mut cfg = match key.version() {
        KeyVersion::V4 => SignatureConfig::v4(typ, key.algorithm(), hash),
        KeyVersion::V6 => SignatureConfig::v6(&mut *rng, typ, key.algorithm(), hash).map_err(|e| e.to_string())?,
        v => return Err(format!("key version {v:?}")),
    };
    // the creation time is the caller's to choose: now, a fixed time of a reproducible build that lies
    // before the key was made (1980, 2001), the second after the epoch, the epoch itself
    static TIMES: std::sync::atomic::AtomicUsize = std::sync::atomic::AtomicUsize::new(0);
    let tk = TIMES.fetch_add(1, std::sync::atomic::Ordering::Relaxed);
    let when = match tk % 7 {
        1 => Timestamp::from_secs(315_532_800),
        3 => Timestamp::from_secs(1_000_000_000),
        4 => Timestamp::from_secs(1),
        5 => Timestamp::from_secs(key.created_at().as_secs().saturating_sub(1)),
        6 => Timestamp::from_secs(0),
        _ => Timestamp::now(),
    };
    let mut hashed = vec![Subpacket::regular(SubpacketData::SignatureCreationTime(when)).map_err(|e| e.to_string())?];
    if with_issuer {
        hashed.push(Subpacket::regular(SubpacketData::IssuerFingerprint(key.fingerprint())).map_err(|e| e.to_string())?);
    }
    // every few configurations carry further subpackets of the kinds the low-level interface lets a
    // caller put in: each has its own writer / parser pair the signature must survive (regular
    // expression with and without its NUL, notations of every size — a v6 area may exceed 65535
    // octets —, URIs, user ids, preference lists, trust, flags)
    static RICH: std::sync::atomic::AtomicUsize = std::sync::atomic::AtomicUsize::new(0);
    let k = RICH.fetch_add(1, std::sync::atomic::Ordering::Relaxed);
    let sp = |d: SubpacketData| Subpacket::regular(d).map_err(|e| e.to_string());
    let notation = |n: usize, readable: bool| SubpacketData::Notation(pgp::packet::Notation { readable, name: "verif@example.org".into(), value: vec![b'v'; n].into() });
    let v6 = key.version() == KeyVersion::V6;
    let mut unhashed: Vec<Subpacket> = Vec::new();
    match k % 9 {
        1 => {
            hashed.push(sp(SubpacketData::TrustSignature(1, 120))?);
            hashed.push(sp(SubpacketData::RegularExpression(b"<[^>]+[@.]example\\.org>$\0".to_vec().into()))?);
        }
        2 => {
            // (designated revokers: a v4 fingerprint, and the fingerprint of a v6 key for a v6 signer)
            hashed.push(sp(SubpacketData::RevocationKey(pgp::types::RevocationKey::new(pgp::types::RevocationKeyClass::Default, key.algorithm(), &[0x17; 20])))?);
            if v6 {
                hashed.push(sp(SubpacketData::RevocationKey(pgp::types::RevocationKey::new(pgp::types::RevocationKeyClass::Sensitive, key.algorithm(), &[0x26; 32])))?);
            }
            hashed.push(sp(SubpacketData::RegularExpression(b"no terminator".to_vec().into()))?);
            hashed.push(sp(SubpacketData::ExportableCertification(false))?);
        }
        3 => {
            hashed.push(sp(notation(300, true))?);
            hashed.push(sp(SubpacketData::PolicyURI("https://example.org/policy".into()))?);
            hashed.push(sp(SubpacketData::PreferredKeyServer("hkps://keys.example.org".into()))?);
        }
        // (a notation value has a two-octet length of its own: several of them make a large area)
        4 if v6 && (k / 9) % 4 == 0 => {
            for _ in 0..3 {
                hashed.push(sp(notation(30_000, false))?);
            }
        }
        5 if v6 && (k / 9) % 4 == 1 => {
            for _ in 0..3 {
                unhashed.push(sp(notation(25_000, true))?);
            }
        }
        6 => {
            hashed.push(sp(SubpacketData::SignersUserID("Signer <signer@example.org>".into()))?);
            hashed.push(sp(SubpacketData::KeyServerPreferences(smallvec::smallvec![0x80]))?);
            hashed.push(sp(SubpacketData::Revocable(false))?);
            hashed.push(sp(SubpacketData::IsPrimary(true))?);
            unhashed.push(sp(notation(5, false))?);
        }
        7 if (k / 9) % 4 == 2 => {
            hashed.push(sp(notation(65_400, true))?);
        }
        8 => {
            // subpackets may repeat (RFC 9580 5.2.3.10: the hints it gives are hints): a second copy of
            // kinds that usually occur once; recipients of either key version
            hashed.push(sp(SubpacketData::SignatureCreationTime(Timestamp::now()))?);
            let mut kf = pgp::packet::KeyFlags::default();
            kf.set_sign(true);
            hashed.push(sp(SubpacketData::KeyFlags(kf.clone()))?);
            hashed.push(sp(SubpacketData::KeyFlags(kf))?);
            hashed.push(sp(SubpacketData::ExportableCertification(true))?);
            hashed.push(sp(SubpacketData::ExportableCertification(true))?);
            hashed.push(sp(SubpacketData::IsPrimary(true))?);
            hashed.push(sp(SubpacketData::IsPrimary(false))?);
            hashed.push(sp(SubpacketData::TrustSignature(0, 0))?);
            hashed.push(sp(SubpacketData::TrustSignature(1, 60))?);
        }
        0 => {
            // intended recipients: keys of the signer's version and of the other one
            if let Ok(fp) = pgp::types::Fingerprint::new(KeyVersion::V4, &[0xA4; 20]) {
                hashed.push(sp(SubpacketData::IntendedRecipientFingerprint(fp))?);
            }
            if let Ok(fp) = pgp::types::Fingerprint::new(KeyVersion::V6, &[0xA6; 32]) {
                hashed.push(sp(SubpacketData::IntendedRecipientFingerprint(fp))?);
            }
        }
        _ => {}
    }
    cfg.hashed_subpackets = hashed;
    cfg.unhashed_subpackets = unhashed;
    Ok(cfg)
}

/// all verification interfaces that apply to a detached data signature over `payload`
#[allow(clippy::too_many_arguments)]
fn verify_detached_all(env: &mut Env, sign_site: &str, key: &TestKey, sig: &Signature, payload: &[u8], sign_digest: Option<&Vec<u8>>, inp: &str, rng: &mut ChaCha8Rng, light: bool) {
    let Some(cfg) = sig.config() else { return };
    let Some(fr) = framing_of(cfg) else { return };
    let cands = data_candidates(payload);
    let rv = RecVerifier::new(key.pk());

    // V1: Signature::verify over a reader with an arbitrary read schedule
    let chunks = if payload.len() <= 6 && !light { gen::random_chunking(rng, payload, 2) } else { gen::random_chunking(rng, payload, 700) };
    let r = guarded(|| sig.verify(&rv, ScheduledReader::from_chunks(&chunks)));
    let ok = matches!(r, Ok(Ok(())));
    let mut vd = rv.take().pop();
    if vd.is_none() {
        // rejected before the key was consulted: observe the verify-side input by probing
        vd = probe_verify_digest(sig, &fr, &cands, &|copy| {
            let _ = guarded(|| copy.verify(&rv, ScheduledReader::from_chunks(&chunks)));
            rv.take().pop()
        });
        env.ctx.stat("probe:detached_verify_digest");
    }
    env.ctx.oracle("sign_then_verify", &format!("{sign_site} -> Signature::verify(reader)"), inp, ok, &brief(&r));
    env.digest_case("sv_verify", "detached", key.kv, &fr, &format!("chunks={}", hx_list(&chunks)), vd.as_ref(), &cands);
    if let (Some(a), Some(b)) = (sign_digest, vd.as_ref()) {
        env.ctx.oracle("digests_agree", &format!("{sign_site} -> Signature::verify(reader)"), inp, a == b, &format!("sign {} verify {}", hx(a), hx(b)));
    }
    if light {
        return;
    }
    // V2: DetachedSignature::verify over the slice; after binary and after armored round trip
    let det = DetachedSignature::new(sig.clone());
    let r = guarded(|| det.verify(&rv, payload));
    let vd2 = rv.take().pop();
    env.ctx.oracle("sign_then_verify", &format!("{sign_site} -> DetachedSignature::verify"), inp, matches!(r, Ok(Ok(()))), &brief(&r));
    if let (Some(a), Some(b)) = (sign_digest, vd2.as_ref()) {
        env.ctx.oracle("digests_agree", &format!("{sign_site} -> DetachedSignature::verify"), inp, a == b, &format!("sign {} verify {}", hx(a), hx(b)));
    }
    let r = guarded(|| -> Result<(), String> {
        let bytes = det.to_bytes().map_err(|e| format!("to_bytes: {e}"))?;
        let back = DetachedSignature::from_bytes(&bytes[..]).map_err(|e| format!("from_bytes: {e}"))?;
        back.verify(&rv, payload).map_err(|e| format!("verify: {e}"))
    });
    let _ = rv.take();
    env.ctx.oracle("sign_then_verify", &format!("{sign_site} -> to_bytes -> from_bytes -> DetachedSignature::verify"), inp, matches!(r, Ok(Ok(()))), &brief(&r));
    let r = guarded(|| -> Result<(), String> {
        let s = det.to_armored_string(ArmorOptions::default()).map_err(|e| format!("to_armored_string: {e}"))?;
        let (back, _) = DetachedSignature::from_string(&s).map_err(|e| format!("from_string: {e}"))?;
        back.verify(&rv, payload).map_err(|e| format!("verify: {e}"))
    });
    let _ = rv.take();
    env.ctx.oracle("sign_then_verify", &format!("{sign_site} -> to_armored_string -> from_string -> DetachedSignature::verify"), inp, matches!(r, Ok(Ok(()))), &brief(&r));

    // V3: the same signature as a prefixed signature packet of a message (Signature, Literal)
    let r = guarded(|| -> Result<(Result<(), String>, Option<Vec<u8>>), String> {
        let mut msg = Vec::new();
        sig.to_writer_with_header(&mut msg).map_err(|e| format!("sig ser: {e}"))?;
        let lit = LiteralData::from_bytes("", payload.to_vec().into()).map_err(|e| format!("literal: {e}"))?;
        lit.to_writer_with_header(&mut msg).map_err(|e| format!("lit ser: {e}"))?;
        let mut m = Message::from_bytes(&msg[..]).map_err(|e| format!("from_bytes: {e}"))?;
        let mut out = Vec::new();
        m.read_to_end(&mut out).map_err(|e| format!("read: {e}"))?;
        if out != payload {
            return Err("payload changed".into());
        }
        let verdict = m.verify(&rv as &dyn VerifyingKey).map(|_| ()).map_err(|e| e.to_string());
        let _ = rv.take();
        let digest = match &m {
            Message::Signed { reader, .. } => reader.hash(0).map(|h| h.to_vec()),
            _ => None,
        };
        Ok((verdict, digest))
    });
    let v3site = format!("{sign_site} -> (Signature, Literal) message -> Message::verify");
    match r {
        Ok(Ok((verdict, vd3))) => {
            env.ctx.oracle("sign_then_verify", &v3site, inp, verdict.is_ok(), &verdict.as_ref().map(|_| "ok".to_string()).unwrap_or_else(|e| e.clone()));
            env.digest_case("sv_verify", "inline_sig", key.kv, &fr, &format!("body={}", hx(payload)), vd3.as_ref(), &cands);
            if let (Some(a), Some(b)) = (sign_digest, vd3.as_ref()) {
                env.ctx.oracle("digests_agree", &v3site, inp, a == b, &format!("sign {} verify {}", hx(a), hx(b)));
            }
        }
        other => {
            let _ = rv.take();
            env.ctx.oracle("sign_then_verify", &v3site, inp, false, &brief(&other));
        }
    }
}

/// detached + low-level signing interfaces
fn run_detached(env: &mut Env, key: &TestKey, hash: HashAlgorithm, payload: &[u8], rng: &mut ChaCha8Rng, light: bool) {
    let inp = format!("key={} kv={} hash={} data={}", key.name, key.kv, hash_name(hash), commas(payload));
    let cands = data_candidates(payload);
    for text in [false, true] {
        let iface = if text { "det_text" } else { "det_bin" };
        let site = if text { "DetachedSignature::sign_text_data" } else { "DetachedSignature::sign_binary_data" };
        let rs = RecSigner::new(key.sk(), hash);
        let chunks = gen::random_chunking(rng, payload, if payload.len() <= 8 { 3 } else { 600 });
        let seed: u64 = rng.gen();
        let r = guarded(|| {
            let srng = ChaCha8Rng::seed_from_u64(seed);
            let src = ScheduledReader::from_chunks(&chunks);
            if text {
                DetachedSignature::sign_text_data(srng, &rs, &Password::empty(), hash, src)
            } else {
                DetachedSignature::sign_binary_data(srng, &rs, &Password::empty(), hash, src)
            }
        });
        let sd = rs.take().pop();
        match r {
            Ok(Ok(det)) => {
                env.ctx.stat(&format!("sign:{iface}:ok"));
                if let Some(fr) = det.signature.config().and_then(framing_of) {
                    env.digest_case("sv_sign", iface, key.kv, &fr, &format!("chunks={}", hx_list(&chunks)), sd.as_ref(), &cands);
                }
                verify_detached_all(env, site, key, &det.signature, payload, sd.as_ref(), &inp, rng, light);
            }
            other => {
                env.ctx.oracle("sign_succeeds", site, &inp, false, &brief(&other));
            }
        }
    }
    // low level: SignatureConfig::sign
    for text in [false, true] {
        if light && !text {
            continue;
        }
        let typ = if text { SignatureType::Text } else { SignatureType::Binary };
        let site = if text { "SignatureConfig::sign(Text)" } else { "SignatureConfig::sign(Binary)" };
        let rs = RecSigner::new(key.sk(), hash);
        let chunks = gen::random_chunking(rng, payload, if payload.len() <= 8 { 2 } else { 900 });
        let with_issuer = rng.gen_bool(0.7);
        let cfg = match low_level_config(rng, &rs, typ, hash, with_issuer) { Ok(c) => c, Err(e) => { env.ctx.oracle("sign_succeeds", site, &inp, false, &e); continue; } };
        let r = guarded(|| cfg.sign(&rs, &Password::empty(), ScheduledReader::from_chunks(&chunks)));
        let sd = rs.take().pop();
        match r {
            Ok(Ok(sig)) => {
                env.ctx.stat("sign:config:ok");
                if let Some(fr) = sig.config().and_then(framing_of) {
                    env.digest_case("sv_sign", "config", key.kv, &fr, &format!("chunks={}", hx_list(&chunks)), sd.as_ref(), &cands);
                }
                verify_detached_all(env, site, key, &sig, payload, sd.as_ref(), &inp, rng, light);
            }
            other => env.ctx.oracle("sign_succeeds", site, &inp, false, &brief(&other)),
        }
    }
}

/// message builder with 1–2 signers, binary or text, plain or armored
#[allow(clippy::too_many_arguments)]
fn run_builder(env: &mut Env, signers: &[(&TestKey, HashAlgorithm)], text: bool, armor: bool, from_reader: bool, payload: &[u8], rng: &mut ChaCha8Rng) {
    let names: Vec<String> = signers.iter().map(|(k, h)| format!("{}/{}", k.name, hash_name(*h))).collect();
    let inp = format!("signers={} text={} armor={} reader={} data={}", names.join("+"), text, armor, from_reader, commas(payload));
    let site = format!("MessageBuilder::sign x{} ({})", signers.len(), if text { "sign_text" } else { "sign_binary" });
    let cands = data_candidates(payload);
    let recs: Vec<RecSigner<pgp::packet::SecretKey>> = signers.iter().map(|(k, h)| RecSigner::new(k.sk(), *h)).collect();
    let chunks = gen::random_chunking(rng, payload, if payload.len() <= 8 { 3 } else { 1500 });
    let seed: u64 = rng.gen();
    let built = guarded(|| -> Result<Vec<u8>, String> {
        let mut brng = ChaCha8Rng::seed_from_u64(seed);
        macro_rules! go {
            ($b:expr) => {{
                let mut b = $b;
                if text { b.sign_text(); }
                for (si, (rs, (_, h))) in recs.iter().zip(signers).enumerate() {
                    if (seed as usize + si) % 3 == 0 {
                        // caller-provided subpackets WITHOUT any issuer subpacket (legal: the issuer
                        // subpackets are hints): such a signature is a candidate for every key
                        let created = pgp::packet::Subpacket::regular(pgp::packet::SubpacketData::SignatureCreationTime(pgp::types::Timestamp::now()));
                        match created {
                            Ok(c) => {
                                // ... and, every other time, without a creation time either (the builder
                                // signs whatever hashed area the caller provides), or with one that lies
                                // before the key was made
                                let hashed = match (seed as usize / 3 + si) % 3 {
                                    0 => vec![c],
                                    1 => vec![],
                                    _ => pgp::packet::Subpacket::regular(pgp::packet::SubpacketData::SignatureCreationTime(pgp::types::Timestamp::from_secs(1_000_000_000))).map(|x| vec![x]).unwrap_or_default(),
                                };
                                b.sign_with_subpackets(rs as &dyn SigningKey, Password::empty(), *h,
                                    pgp::composed::SubpacketConfig::UserDefined { hashed, unhashed: vec![] });
                            }
                            Err(_) => {
                                b.sign(rs as &dyn SigningKey, Password::empty(), *h);
                            }
                        }
                    } else {
                        b.sign(rs as &dyn SigningKey, Password::empty(), *h);
                    }
                }
                if armor {
                    b.to_armored_string(&mut brng, ArmorOptions::default()).map(|s| s.into_bytes()).map_err(|e| e.to_string())
                } else {
                    b.to_vec(&mut brng).map_err(|e| e.to_string())
                }
            }};
        }
        if from_reader {
            go!(MessageBuilder::from_reader("", ScheduledReader::from_chunks(&chunks)))
        } else {
            go!(MessageBuilder::from_bytes("", payload.to_vec()))
        }
    });
    let msg = match built {
        Ok(Ok(m)) => m,
        other => {
            env.ctx.oracle("sign_succeeds", &site, &inp, false, &brief(&other));
            return;
        }
    };
    env.ctx.stat(&format!("sign:builder:x{}:{}", signers.len(), if armor { "armored" } else { "binary" }));
    let sign_digests: Vec<Option<Vec<u8>>> = recs.iter().map(|r| r.take().pop()).collect();

    // read back, verify each signer inline; the digest the reader computed for slot i is taken from
    // the reader itself (`SignatureManyReader::hash`), so it is observed even if verification fails
    struct Slot {
        sig: Option<Signature>,
        digest: Option<Vec<u8>>,
        verdict: Result<(), String>,
        key_saw: Option<Vec<u8>>,
    }
    let rvs: Vec<RecVerifier<pgp::packet::PublicKey>> = signers.iter().map(|(k, _)| RecVerifier::new(k.pk())).collect();
    let mut nested: Vec<(String, bool, String)> = Vec::new();
    let r = guarded(|| -> Result<(Vec<u8>, Vec<Slot>), String> {
        let mut m = if armor {
            Message::from_armor(&msg[..]).map_err(|e| format!("from_armor: {e}"))?.0
        } else {
            Message::from_bytes(&msg[..]).map_err(|e| format!("from_bytes: {e}"))?
        };
        let mut out = Vec::new();
        m.read_to_end(&mut out).map_err(|e| format!("read: {e}"))?;
        let mut res = Vec::new();
        for (i, rv) in rvs.iter().enumerate() {
            let verdict = m.verify_nested_explicit(i, rv as &dyn VerifyingKey).map(|_| ()).map_err(|e| e.to_string());
            let key_saw = rv.take().pop();
            let (sig, digest) = match &m {
                Message::Signed { reader, .. } => (reader.signature(i).cloned(), reader.hash(i).map(|h| h.to_vec())),
                _ => (None, None),
            };
            res.push(Slot { sig, digest, verdict, key_saw });
        }
        // `verify_nested` with the keys in other orders and with each key alone: the result for a key
        // does not depend on where the caller lists it
        let pubs: Vec<&pgp::packet::PublicKey> = signers.iter().map(|(k, _)| k.pk()).collect();
        let n = pubs.len();
        let mut orders: Vec<Vec<usize>> = vec![(0..n).rev().collect(), (0..n).map(|i| (i + 1) % n.max(1)).collect()];
        for i in 0..n {
            orders.push(vec![i]);
        }
        for order in orders {
            if order.is_empty() {
                continue;
            }
            let keys: Vec<&dyn VerifyingKey> = order.iter().map(|&i| pubs[i] as &dyn VerifyingKey).collect();
            let r = m.verify_nested(&keys).map_err(|e| e.to_string());
            let all_valid = matches!(&r, Ok(v) if v.len() == keys.len() && v.iter().all(|x| matches!(x, pgp::composed::VerificationResult::Valid(_))));
            nested.push((format!("{order:?}"), all_valid, match &r { Ok(v) => format!("{:?}", v.iter().map(|x| matches!(x, pgp::composed::VerificationResult::Valid(_))).collect::<Vec<_>>()), Err(e) => e.clone() }));
        }
        Ok((out, res))
    });
    let vsite = format!("{site} -> {} -> Message::verify", if armor { "to_armored_string -> from_armor" } else { "to_vec -> from_bytes" });
    match r {
        Ok(Ok((out, res))) => {
            env.ctx.oracle("payload_unchanged", &vsite, &inp, out == payload, "literal body differs");
            for (order, ok, detail) in &nested {
                env.ctx.oracle("sign_then_verify", &format!("{site} -> Message::verify_nested(keys in order {order})"), &inp, *ok, detail);
            }
            for (i, slot) in res.iter().enumerate() {
                let (key, _) = signers[i];
                let inp_i = format!("{inp} signer={i}");
                env.ctx.oracle("sign_then_verify", &vsite, &inp_i, slot.verdict.is_ok(), &slot.verdict.as_ref().map(|_| "ok".to_string()).unwrap_or_else(|e| e.clone()));
                // what the key was handed is what the reader computed
                if let (Some(a), Some(b)) = (slot.key_saw.as_ref(), slot.digest.as_ref()) {
                    env.ctx.oracle("digests_agree", &format!("{vsite} (reader hash slot = digest given to the key)"), &inp_i, a == b, &format!("key {} slot {}", hx(a), hx(b)));
                }
                let Some(sig) = slot.sig.as_ref() else {
                    env.ctx.oracle("sign_then_verify", &vsite, &inp_i, false, "no signature in slot");
                    continue;
                };
                if let Some(fr) = sig.config().and_then(framing_of) {
                    let src_chunks = if from_reader { chunks.clone() } else if payload.is_empty() { vec![] } else { vec![payload.to_vec()] };
                    env.digest_case("sv_sign", "builder", key.kv, &fr, &format!("chunks={}", hx_list(&src_chunks)), sign_digests[i].as_ref(), &cands);
                    env.digest_case("sv_verify", "inline_ops", key.kv, &fr, &format!("body={}", hx(payload)), slot.digest.as_ref(), &cands);
                }
                if let (Some(a), Some(b)) = (sign_digests[i].as_ref(), slot.digest.as_ref()) {
                    env.ctx.oracle("digests_agree", &vsite, &inp_i, a == b, &format!("sign {} verify {}", hx(a), hx(b)));
                }
                // cross pairing: the embedded signature packet through the detached verifier
                let r = guarded(|| sig.verify(&rvs[i], ScheduledReader::from_chunks(&chunks)));
                let vd2 = rvs[i].take().pop();
                env.ctx.oracle("sign_then_verify", &format!("{site} -> embedded Signature::verify(payload)"), &inp_i, matches!(r, Ok(Ok(()))), &brief(&r));
                if let (Some(a), Some(b)) = (sign_digests[i].as_ref(), vd2.as_ref()) {
                    env.ctx.oracle("digests_agree", &format!("{site} -> embedded Signature::verify(payload)"), &inp_i, a == b, &format!("sign {} verify {}", hx(a), hx(b)));
                }
            }
        }
        other => env.ctx.oracle("sign_then_verify", &vsite, &inp, false, &brief(&other)),
    }
}

fn sig_block_of(armored: &str) -> Option<&str> {
    armored.rfind("-----BEGIN PGP SIGNATURE-----").map(|p| &armored[p..])
}

/// cleartext framework: sign / new / new_many -> verify, directly and after the armored round trip
fn run_cleartext(env: &mut Env, signers: &[(&TestKey, HashAlgorithm)], mode: u8, text: &str, rng: &mut ChaCha8Rng) {
    let tb = text.as_bytes();
    let names: Vec<String> = signers.iter().map(|(k, h)| format!("{}/{}", k.name, hash_name(*h))).collect();
    let inp = format!("signers={} text={}", names.join("+"), commas(tb));
    let cands = data_candidates(tb);
    let recs: Vec<RecSigner<pgp::packet::SecretKey>> = signers.iter().map(|(k, h)| RecSigner::new(k.sk(), *h)).collect();
    let seed: u64 = rng.gen();
    let (site, iface): (&str, &str) = match mode {
        0 => ("CleartextSignedMessage::sign", "ct_new"),
        1 => ("CleartextSignedMessage::new", "ct_new"),
        _ => ("CleartextSignedMessage::new_many", "ct_many"),
    };
    let built = guarded(|| -> Result<CleartextSignedMessage, String> {
        let mut srng = ChaCha8Rng::seed_from_u64(seed);
        match mode {
            0 => CleartextSignedMessage::sign(&mut srng, text, &recs[0], &Password::empty()).map_err(|e| e.to_string()),
            1 => {
                // explicit configuration; Binary type half of the time (the API allows it)
                let typ = if seed % 4 == 0 { SignatureType::Binary } else { SignatureType::Text };
                // (a configuration without any issuer subpacket is legal: such a signature is a candidate for every key)
                let cfg = low_level_config(&mut srng, &recs[0], typ, signers[0].1, seed % 3 != 1)?;
                CleartextSignedMessage::new(text, cfg, &recs[0], &Password::empty()).map_err(|e| e.to_string())
            }
            _ => CleartextSignedMessage::new_many(text, |t| {
                let mut sigs = Vec::new();
                for (rs, (_, h)) in recs.iter().zip(signers) {
                    let cfg = low_level_config(&mut srng, rs, SignatureType::Text, *h, seed % 5 != 2).map_err(|_| pgp::errors::Error::from(std::io::Error::other("config")))?;
                    sigs.push(cfg.sign(rs, &Password::empty(), t.as_bytes())?);
                }
                Ok(sigs)
            })
            .map_err(|e| e.to_string()),
        }
    });
    let msg = match built {
        Ok(Ok(m)) => m,
        other => {
            env.ctx.oracle("sign_succeeds", site, &inp, false, &brief(&other));
            return;
        }
    };
    env.ctx.stat(&format!("sign:{iface}:mode{mode}:x{}", signers.len()));
    let sign_digests: Vec<Option<Vec<u8>>> = recs.iter().map(|r| r.take().pop()).collect();
    let csf = msg.text().as_bytes().to_vec();
    env.ctx.case(format!("ct_escape text={}", hx(tb)), format!("ok:{}", hx(&csf)));
    env.ctx.case(format!("ct_signed_text csf={}", hx(&csf)), format!("ok:{}", hx(msg.signed_text().as_bytes())));
    for (i, (key, _)) in signers.iter().enumerate() {
        if let Some(fr) = msg.signatures().get(i).and_then(|s| s.config()).and_then(framing_of) {
            // `k` (copy-loop granularity) is not observable; the model's answer does not depend on it
            env.digest_case("sv_sign", iface, key.kv, &fr, &format!("k={} text={}", 1 + (seed % 7), hx(tb)), sign_digests[i].as_ref(), &cands);
        }
    }

    let check = |env: &mut Env, m: &CleartextSignedMessage, vsite: &str| {
        let csf_now = m.text().as_bytes().to_vec();
        {
            // verify_many: signature i against signer i's key
            let rvs: Vec<RecVerifier<pgp::packet::PublicKey>> = signers.iter().map(|(k, _)| RecVerifier::new(k.pk())).collect();
            let r = guarded(|| m.verify_many(|i, sig, text| match rvs.get(i) {
                Some(rv) => sig.verify(rv, text),
                None => Err(pgp::errors::Error::from(std::io::Error::other("no key"))),
            }).map_err(|e| e.to_string()));
            env.ctx.oracle("sign_then_verify", &format!("{vsite} (verify_many)"), &inp, matches!(r, Ok(Ok(()))), &brief(&r));
        }
        for (i, (key, _)) in signers.iter().enumerate() {
            let rv = RecVerifier::new(key.pk());
            let r = guarded(|| m.verify(&rv).map(|_| ()).map_err(|e| e.to_string()));
            let logged = rv.take();
            let ok = matches!(r, Ok(Ok(_)));
            env.ctx.oracle("sign_then_verify", vsite, &format!("{inp} signer={i}"), ok, &brief(&r));
            let Some(sig_i) = m.signatures().get(i) else { continue };
            let Some(fr) = sig_i.config().and_then(framing_of) else { continue };
            // `verify` tries the signatures in order; the digest that belongs to signature i is the
            // one identified under signature i's own framing
            let mut vd = logged.into_iter().find(|d| identify(&fr, d, &cands).is_some());
            if vd.is_none() {
                // rejected before the key was consulted: probe `signature.verify(key, signed_text)`
                // (the body of CleartextSignedMessage::verify) with adjusted signed_hash_value copies
                let nt = m.signed_text();
                vd = probe_verify_digest(sig_i, &fr, &cands, &|copy| {
                    let _ = guarded(|| copy.verify(&rv, nt.as_bytes()));
                    rv.take().pop()
                });
                env.ctx.stat("probe:cleartext_verify_digest");
            }
            env.digest_case("sv_verify", "cleartext", key.kv, &fr, &format!("csf={}", hx(&csf_now)), vd.as_ref(), &cands);
            if let (Some(a), Some(b)) = (sign_digests[i].as_ref(), vd.as_ref()) {
                env.ctx.oracle("digests_agree", vsite, &format!("{inp} signer={i}"), a == b, &format!("sign {} verify {}", hx(a), hx(b)));
            }
        }
    };
    check(env, &msg, &format!("{site} -> CleartextSignedMessage::verify"));

    // armored round trip
    let rt = guarded(|| -> Result<(String, CleartextSignedMessage), String> {
        let s = msg.to_armored_string(ArmorOptions::default()).map_err(|e| format!("to_armored_string: {e}"))?;
        let (back, _) = CleartextSignedMessage::from_string(&s).map_err(|e| format!("from_string: {e}"))?;
        Ok((s, back))
    });
    let vsite = format!("{site} -> to_armored_string -> from_string -> CleartextSignedMessage::verify");
    match rt {
        Ok(Ok((s, back))) => {
            if let Some(block) = sig_block_of(&s) {
                env.ctx.case(format!("ct_roundtrip csf={} sig={}", hx(&csf), hx(block.as_bytes())), format!("ok:{}", hx(back.text().as_bytes())));
            }
            env.ctx.oracle("armor_roundtrip_keeps_text", &vsite, &inp, back.text() == msg.text(), &format!("csf {} -> {}", hx(&csf), hx(back.text().as_bytes())));
            check(env, &back, &vsite);
        }
        other => env.ctx.oracle("sign_then_verify", &vsite, &inp, false, &brief(&other)),
    }
}

/// `read_cleartext_body` on hand-made documents: arbitrary body text (not necessarily properly
/// escaped) in front of a real signature block
fn run_read_body(env: &mut Env, sig_block: &str, body: &str) {
    let doc = format!("-----BEGIN PGP SIGNED MESSAGE-----\nHash: SHA256\n\n{body}{sig_block}");
    let r = guarded(|| CleartextSignedMessage::from_string(&doc).map(|(m, _)| m.text().to_string()));
    let inp: Vec<u8> = format!("{body}{sig_block}").into_bytes();
    // the model answers (body, prefix); the implementation accepts iff the prefix is the signature
    // block's BEGIN line, and then exposes the body
    let first_line = sig_block.split_inclusive('\n').next().unwrap_or("");
    let ans = match r {
        Ok(Ok(t)) => format!("ok:{}|{}", hx(t.as_bytes()), hx(first_line.as_bytes())),
        Ok(Err(_)) => "err".to_string(),
        Err(_) => "panic".to_string(),
    };
    env.ctx.case(format!("ct_read_body inp={}", hx(&inp)), ans);
}

/// a key as the digest framing sees it
struct KeySer {
    ver: u8,
    bytes: Vec<u8>,
    len: usize,
}

fn key_ser<K: KeyDetails + Serialize>(k: &K) -> KeySer {
    let mut bytes = Vec::new();
    let _ = k.to_writer(&mut bytes);
    KeySer { ver: if k.version() == KeyVersion::V6 { 6 } else { 4 }, bytes, len: k.write_len() }
}

/// RFC 9580 §5.2.4 key framing (independent restatement, used as identification candidate)
fn kframe(k: &KeySer) -> Vec<u8> {
    let mut v = Vec::new();
    if k.ver == 6 {
        v.push(0x9b);
        v.extend((k.len as u32).to_be_bytes());
    } else {
        v.push(0x99);
        v.extend((k.len as u16).to_be_bytes());
    }
    v.extend_from_slice(&k.bytes);
    v
}

/// report one sign_* / verify_* pair over key material
#[allow(clippy::too_many_arguments)]
fn keysig_report(
    env: &mut Env,
    site: &str,
    inp: &str,
    kv: u8,
    signed: Result<Result<Signature, String>, String>,
    sd: Option<Vec<u8>>,
    verify: &dyn Fn(&Signature) -> (Result<Result<(), String>, String>, Option<Vec<u8>>),
    rfc_data: Vec<u8>,
    extra: &str,
) {
    match signed {
        Ok(Ok(sig)) => {
            let (vr, vd) = verify(&sig);
            env.ctx.oracle("sign_then_verify", site, inp, matches!(vr, Ok(Ok(()))), &brief(&vr));
            if let (Some(a), Some(b)) = (sd.as_ref(), vd.as_ref()) {
                env.ctx.oracle("digests_agree", site, inp, a == b, &format!("sign {} verify {}", hx(a), hx(b)));
            }
            // after the signature packet went through bytes
            let vr2 = guarded(|| -> Result<(), String> {
                let mut b = Vec::new();
                sig.to_writer_with_header(&mut b).map_err(|e| e.to_string())?;
                let back = DetachedSignature::from_bytes(&b[..]).map_err(|e| format!("from_bytes: {e}"))?;
                match verify(&back.signature).0 {
                    Ok(Ok(())) => Ok(()),
                    other => Err(brief(&other)),
                }
            });
            env.ctx.oracle("sign_then_verify", &format!("{site} (signature packet re-parsed)"), inp, matches!(vr2, Ok(Ok(()))), &brief(&vr2));
            if let Some(fr) = sig.config().and_then(framing_of) {
                let cands = vec![("rfc", rfc_data)];
                env.digest_case("sv_keysig side=sign", "-", kv, &fr, extra, sd.as_ref(), &cands);
                env.digest_case("sv_keysig side=verify", "-", kv, &fr, extra, vd.as_ref(), &cands);
            }
            env.ctx.stat(&format!("keysig:{}", extra.split(' ').next().unwrap_or("")));
        }
        other => env.ctx.oracle("sign_succeeds", site, inp, false, &brief(&other)),
    }
}

/// key / certificate signatures through the low-level sign_* / verify_* pairs
fn run_keysigs(env: &mut Env, key: &TestKey, other: &TestKey, subk: &SignedSecretKey, hash: HashAlgorithm, uid: &str, rng: &mut ChaCha8Rng) {
    let inp = format!("key={} kv={} hash={} uid={}", key.name, key.kv, hash_name(hash), commas(uid.as_bytes()));
    let pw = Password::empty();
    let own = key_ser(key.pk());
    let oth = key_ser(other.pk());
    let kfield = |p: &str, k: &KeySer| format!("{p}v={} {p}b={} {p}l={}", k.ver, hx(&k.bytes), k.len);

    // ---- certifications over a user id: self and third party, three signature types
    let id = match UserId::from_str(Default::default(), uid) {
        Ok(i) => i,
        Err(e) => {
            env.ctx.oracle("sign_succeeds", "UserId::from_str", &inp, false, &e.to_string());
            return;
        }
    };
    let mut idb = Vec::new();
    let _ = id.to_writer(&mut idb);
    let idl = id.write_len();
    for (ti, typ) in [SignatureType::CertPositive, SignatureType::CertGeneric, SignatureType::CertRevocation].into_iter().enumerate() {
        for third in [false, true] {
            if third && ti == 1 {
                continue;
            }
            let signee = if third { &oth } else { &own };
            let rs = RecSigner::new(key.sk(), hash);
            let site = if third {
                "SignatureConfig::sign_certification_third_party -> Signature::verify_third_party_certification"
            } else {
                "SignatureConfig::sign_certification -> Signature::verify_certification"
            };
            let signed = guarded(|| -> Result<Signature, String> {
                let cfg = low_level_config(rng, &rs, typ, hash, true)?;
                if third {
                    cfg.sign_certification_third_party(&rs, &pw, other.pk(), Tag::UserId, &id).map_err(|e| e.to_string())
                } else {
                    cfg.sign_certification(&rs, key.pk(), &pw, Tag::UserId, &id).map_err(|e| e.to_string())
                }
            });
            let sd = rs.take().pop();
            let mut x = kframe(signee);
            x.push(0xB4);
            x.extend((idb.len() as u32).to_be_bytes());
            x.extend_from_slice(&idb);
            let extra = format!("kind=cert {} idb={} idl={idl}", kfield("k1", signee), hx(&idb));
            keysig_report(env, site, &format!("{inp} typ={typ:?}"), key.kv, signed, sd, &|sig| {
                let rv = RecVerifier::new(key.pk());
                let r = guarded(|| {
                    if third {
                        sig.verify_third_party_certification(other.pk(), &rv, Tag::UserId, &id).map_err(|e| e.to_string())
                    } else {
                        sig.verify_certification(&rv, Tag::UserId, &id).map_err(|e| e.to_string())
                    }
                });
                (r, rv.take().pop())
            }, x, &extra);
        }
    }
    // ---- certification over a user attribute
    {
        let img: Vec<u8> = uid.as_bytes().iter().chain(b"\xff\xd8jpeg".iter()).copied().collect();
        if let Ok(attr) = pgp::packet::UserAttribute::new_image(img.into()) {
            let mut ab = Vec::new();
            let _ = attr.to_writer(&mut ab);
            let al = attr.write_len();
            let rs = RecSigner::new(key.sk(), hash);
            let site = "SignatureConfig::sign_certification(UserAttribute) -> Signature::verify_certification";
            let signed = guarded(|| -> Result<Signature, String> {
                let cfg = low_level_config(rng, &rs, SignatureType::CertPositive, hash, true)?;
                cfg.sign_certification(&rs, key.pk(), &pw, Tag::UserAttribute, &attr).map_err(|e| e.to_string())
            });
            let sd = rs.take().pop();
            let mut x = kframe(&own);
            x.push(0xD1);
            x.extend((ab.len() as u32).to_be_bytes());
            x.extend_from_slice(&ab);
            let extra = format!("kind=attr {} idb={} idl={al}", kfield("k1", &own), hx(&ab));
            keysig_report(env, site, &inp, key.kv, signed, sd, &|sig| {
                let rv = RecVerifier::new(key.pk());
                let r = guarded(|| sig.verify_certification(&rv, Tag::UserAttribute, &attr).map_err(|e| e.to_string()));
                (r, rv.take().pop())
            }, x, &extra);
        }
    }
    // ---- direct key signature / key revocation, self and third party
    for typ in [SignatureType::Key, SignatureType::KeyRevocation] {
        for third in [false, true] {
            let signee = if third { &oth } else { &own };
            let rs = RecSigner::new(key.sk(), hash);
            let site = if third { "SignatureConfig::sign_key -> Signature::verify_key_third_party" } else { "SignatureConfig::sign_key -> Signature::verify_key" };
            let signed = guarded(|| -> Result<Signature, String> {
                let cfg = low_level_config(rng, &rs, typ, hash, true)?;
                if third {
                    cfg.sign_key(&rs, &pw, other.pk()).map_err(|e| e.to_string())
                } else {
                    cfg.sign_key(&rs, &pw, key.pk()).map_err(|e| e.to_string())
                }
            });
            let sd = rs.take().pop();
            let extra = format!("kind=key {}", kfield("k1", signee));
            keysig_report(env, site, &format!("{inp} typ={typ:?}"), key.kv, signed, sd, &|sig| {
                let rv = RecVerifier::new(key.pk());
                let r = guarded(|| {
                    if third {
                        sig.verify_key_third_party(other.pk(), &rv).map_err(|e| e.to_string())
                    } else {
                        sig.verify_key(&rv).map_err(|e| e.to_string())
                    }
                });
                (r, rv.take().pop())
            }, kframe(signee), &extra);
        }
    }
    // ---- subkey binding / revocation (primary signs) and primary key binding (signing subkey
    //      signs), on the certificate that has a signing-capable subkey
    {
        let prim = &subk.primary_key;
        let sub = &subk.secret_subkeys[0].key;
        let p = key_ser(prim.public_key());
        let sb = key_ser(sub.public_key());
        let mut x = kframe(&p);
        x.extend(kframe(&sb));
        for typ in [SignatureType::SubkeyBinding, SignatureType::SubkeyRevocation] {
            let rs = RecSigner::new(prim, hash);
            let site = "SignatureConfig::sign_subkey_binding -> Signature::verify_subkey_binding";
            let signed = guarded(|| -> Result<Signature, String> {
                let cfg = low_level_config(rng, &rs, typ, hash, true)?;
                cfg.sign_subkey_binding(&rs, prim.public_key(), &pw, sub.public_key()).map_err(|e| e.to_string())
            });
            let sd = rs.take().pop();
            let extra = format!("kind=subkey {} {}", kfield("k1", &p), kfield("k2", &sb));
            keysig_report(env, site, &format!("{inp} typ={typ:?}"), p.ver, signed, sd, &|sig| {
                let rv = RecVerifier::new(prim.public_key());
                let r = guarded(|| sig.verify_subkey_binding(&rv, sub.public_key()).map_err(|e| e.to_string()));
                (r, rv.take().pop())
            }, x.clone(), &extra);
        }
        {
            let rs = RecSigner::new(sub, hash);
            let site = "SignatureConfig::sign_primary_key_binding -> Signature::verify_primary_key_binding";
            let signed = guarded(|| -> Result<Signature, String> {
                let cfg = low_level_config(rng, &rs, SignatureType::KeyBinding, hash, true)?;
                cfg.sign_primary_key_binding(&rs, sub.public_key(), &pw, prim.public_key()).map_err(|e| e.to_string())
            });
            let sd = rs.take().pop();
            let extra = format!("kind=primary {} {}", kfield("k1", &p), kfield("k2", &sb));
            keysig_report(env, site, &inp, p.ver, signed, sd, &|sig| {
                let rv = RecVerifier::new(sub.public_key());
                let r = guarded(|| sig.verify_primary_key_binding(&rv, prim.public_key()).map_err(|e| e.to_string()));
                (r, rv.take().pop())
            }, x.clone(), &extra);
        }
    }
}

/// composed level: generated certificates verify their own bindings, before and after the
/// (binary and armored) round trip, as secret and as public certificate
fn run_certificates(env: &mut Env, ssk: &SignedSecretKey, name: &str) {
    let inp = format!("generated certificate {name}");
    let site = "SecretKeyParams::generate (key/shared.rs sign) -> verify_bindings";
    let r = guarded(|| ssk.verify_bindings().map_err(|e| e.to_string()));
    env.ctx.oracle("sign_then_verify", site, &inp, matches!(r, Ok(Ok(()))), &brief(&r));
    let spk = ssk.to_public_key();
    let r = guarded(|| spk.verify_bindings().map_err(|e| e.to_string()));
    env.ctx.oracle("sign_then_verify", &format!("{site} (public)"), &inp, matches!(r, Ok(Ok(()))), &brief(&r));
    let r = guarded(|| -> Result<(), String> {
        let s = ssk.to_armored_string(ArmorOptions::default()).map_err(|e| e.to_string())?;
        let (back, _) = SignedSecretKey::from_string(&s).map_err(|e| e.to_string())?;
        back.verify_bindings().map_err(|e| e.to_string())
    });
    env.ctx.oracle("sign_then_verify", &format!("{site} after to_armored_string -> from_string"), &inp, matches!(r, Ok(Ok(()))), &brief(&r));
    let r = guarded(|| -> Result<(), String> {
        let b = spk.to_bytes().map_err(|e| e.to_string())?;
        let back = SignedPublicKey::from_bytes(&b[..]).map_err(|e| e.to_string())?;
        back.verify_bindings().map_err(|e| e.to_string())
    });
    env.ctx.oracle("sign_then_verify", &format!("{site} (public) after to_bytes -> from_bytes"), &inp, matches!(r, Ok(Ok(()))), &brief(&r));
}

// ------------------------------------------------------------------------------------------
// generators
// ------------------------------------------------------------------------------------------

/// atoms of the payload alphabet {CR, LF, TAB, SP, '-', 'é', NUL, 'a'}
const ATOMS: [&[u8]; 8] = [b"\r", b"\n", b"\t", b" ", b"-", "é".as_bytes(), b"\0", b"a"];

fn random_payload(rng: &mut ChaCha8Rng, n_atoms: usize) -> Vec<u8> {
    let mut v = Vec::new();
    // line-structured: bias towards line ends so that CR/LF/blank/dash interactions are frequent
    for _ in 0..n_atoms {
        let a = match rng.gen_range(0..16) {
            0 | 1 => ATOMS[1],
            2 => ATOMS[0],
            3 => b"\r\n" as &[u8],
            4 => ATOMS[2],
            5 | 6 => ATOMS[3],
            7 | 8 => ATOMS[4],
            9 => ATOMS[5],
            10 => ATOMS[6],
            _ => ATOMS[7],
        };
        v.extend_from_slice(a);
    }
    v
}

/// remove what the cleartext framework cannot carry (D6b, D16b classes): blanks before a line end,
/// a final CR — used for half of the cleartext inputs so that the guarded theorem's domain is
/// exercised as well
fn make_clean(d: &[u8]) -> Vec<u8> {
    let mut t = trim_lines_ref(d);
    while t.last() == Some(&b'\r') {
        t.pop();
        t = trim_lines_ref(&t);
    }
    t
}

pub fn run(ctx: &mut Ctx) {
    let mut krng = ChaCha8Rng::seed_from_u64(0xC06);
    let ed4 = TestKey::new("ed25519-v4", keys::ed25519_x25519(&mut krng, KeyVersion::V4));
    let ed6 = TestKey::new("ed25519-v6", keys::ed25519_x25519(&mut krng, KeyVersion::V6));
    let rsa = TestKey::new("rsa2048-v4", keys::rsa2048(&mut krng));
    let sub4 = key_with_signing_subkey(&mut krng, KeyVersion::V4);
    let sub6 = key_with_signing_subkey(&mut krng, KeyVersion::V6);
    let mut rng = ChaCha8Rng::seed_from_u64(ctx.seed ^ 0xC06);
    let thorough = ctx.thorough();
    let mut env = Env { ctx };
    let hashes = [HashAlgorithm::Sha256, HashAlgorithm::Sha512];

    // ---- certificates and key signatures -------------------------------------------------
    for (k, n) in [(&ed4.ssk, "ed25519-v4"), (&ed6.ssk, "ed25519-v6"), (&rsa.ssk, "rsa2048-v4"), (&sub4, "ed25519-v4+signing-subkey"), (&sub6, "ed25519-v6+signing-subkey")] {
        run_certificates(&mut env, k, n);
    }
    let long_uid = "x".repeat(300);
    let uids = ["", "a", "Verif <verif@example.org>", "é-\r\n \t", long_uid.as_str()];
    for (i, uid) in uids.iter().enumerate() {
        for (key, other) in [(&ed4, &rsa), (&ed6, &ed4), (&ed4, &ed6)] {
            let subk = if key.kv == 6 { &sub6 } else { &sub4 };
            run_keysigs(&mut env, key, other, subk, hashes[i % 2], uid, &mut rng);
        }
    }
    run_keysigs(&mut env, &rsa, &ed4, &sub4, HashAlgorithm::Sha256, "rsa <rsa@example.org>", &mut rng);

    // ---- corpus: the witnesses of the known defects and their neighbours, always first ------
    let corpus: [&str; 12] = ["abc \nx", "abc\t\n", "abc\r", "a \n", "a\r", "abc", "abc\n", "abc\r\n", "-abc\n- x\n--\n", " ", "\r", "a\r \n"];
    for (i, t) in corpus.iter().enumerate() {
        let key = if i % 2 == 0 { &ed4 } else { &ed6 };
        run_cleartext(&mut env, &[(key, hashes[i % 2])], (i % 3) as u8, t, &mut rng);
        run_detached(&mut env, key, hashes[i % 2], t.as_bytes(), &mut rng, false);
        env.ctx.stat("gen:corpus");
    }

    // ---- exhaustive over the 3-symbol abstraction {CR, LF, x} ----------------------------
    let l3 = 7usize;
    let full3 = 7;
    let mut idx = 0usize;
    for n in 0..=l3 {
        for s in gen::all_strings(b"\r\nx", n) {
            idx += 1;
            let key = if idx % 2 == 0 { &ed4 } else { &ed6 };
            let hash = hashes[(idx / 2) % 2];
            let text = String::from_utf8(s.clone()).expect("ascii");
            if n <= full3 {
                // every interface, both key versions
                for key in [&ed4, &ed6] {
                    run_detached(&mut env, key, hash, &s, &mut rng, false);
                    run_builder(&mut env, &[(key, hash)], true, idx % 3 == 0, idx % 2 == 0, &s, &mut rng);
                    run_builder(&mut env, &[(key, hash)], false, idx % 5 == 0, idx % 2 == 1, &s, &mut rng);
                    run_cleartext(&mut env, &[(key, hash)], (idx % 3) as u8, &text, &mut rng);
                }
                if n <= 4 || idx % (if thorough { 3 } else { 9 }) == 0 {
                    run_builder(&mut env, &[(&ed4, hash), (&ed6, hashes[idx % 2])], idx % 2 == 0, idx % 4 == 0, true, &s, &mut rng);
                    run_cleartext(&mut env, &[(&ed6, hash), (&ed4, hashes[idx % 2])], 2, &text, &mut rng);
                }
                env.ctx.stat("gen:exhaustive3:all_interfaces");
            } else {
                // rotate the interfaces; light verification set
                match idx % 4 {
                    0 => run_detached(&mut env, key, hash, &s, &mut rng, true),
                    1 => run_builder(&mut env, &[(key, hash)], true, false, idx % 8 < 4, &s, &mut rng),
                    2 => run_cleartext(&mut env, &[(key, hash)], 0, &text, &mut rng),
                    _ => run_cleartext(&mut env, &[(key, hash)], 2, &text, &mut rng),
                }
                env.ctx.stat("gen:exhaustive3:rotating_interface");
            }
        }
    }

    // ---- extended with SP and '-' (5 symbols) at small lengths: the cleartext interfaces ----
    let l5 = if thorough { 6 } else { 5 };
    for n in 1..=l5 {
        for s in gen::all_strings(b"\r\nx -", n) {
            idx += 1;
            if !s.contains(&b' ') && !s.contains(&b'-') {
                continue; // covered above
            }
            let key = if idx % 2 == 0 { &ed4 } else { &ed6 };
            let hash = hashes[(idx / 2) % 2];
            let text = String::from_utf8(s.clone()).expect("ascii");
            run_cleartext(&mut env, &[(key, hash)], (idx % 3) as u8, &text, &mut rng);
            if n <= 3 {
                run_detached(&mut env, key, hash, &s, &mut rng, true);
            }
            env.ctx.stat("gen:exhaustive5:cleartext");
        }
    }

    // ---- every key algorithm x every hash the library signs with: the digest is shorter than,
    //      equal to and longer than the group / field order (DSA q = 256, P-384, P-521, RSA),
    //      through detached, builder and cleartext interfaces ---------------------------------
    {
        let extra: Vec<TestKey> = vec![
            TestKey::new("dsa2048-v4", keys::dsa2048_ecdh(&mut krng)),
            TestKey::new("ecdsa-p256-v4", keys::ecdsa_p256_ecdh(&mut krng)),
            TestKey::new("ecdsa-p384-v4", keys::ecdsa_p384_ecdh(&mut krng)),
            TestKey::new("ecdsa-p521-v4", keys::ecdsa_p521_ecdh(&mut krng)),
            TestKey::new("eddsa-legacy-v4", keys::eddsa_legacy_ecdh(&mut krng)),
            TestKey::new("ecdsa-secp256k1-v4", keys::ecdsa_secp256k1_ecdh(&mut krng)),
            TestKey::new("ed448-v6", keys::ed448_x448(&mut krng)),
        ];
        let all_hashes = [HashAlgorithm::Sha224, HashAlgorithm::Sha256, HashAlgorithm::Sha384, HashAlgorithm::Sha512, HashAlgorithm::Sha3_256, HashAlgorithm::Sha3_512];
        let texts = ["alg sweep\r\nsecond line\n", "x"];
        // (v6 keys: the salt in front of the hashed data has a hash-specific length)
        for key in extra.iter().chain([&rsa, &ed4, &ed6]) {
            for (hi, h) in all_hashes.iter().enumerate() {
                // the library refuses (documented) digests shorter than the curve / EdDSA security level
                let bits = match h { HashAlgorithm::Sha224 => 224, HashAlgorithm::Sha256 | HashAlgorithm::Sha3_256 => 256, HashAlgorithm::Sha384 => 384, _ => 512 };
                let min_bits = match key.name { "ecdsa-p256-v4" | "eddsa-legacy-v4" | "ed25519-v4" | "ed25519-v6" | "ecdsa-secp256k1-v4" => 256, "ecdsa-p384-v4" => 384, "ecdsa-p521-v4" | "ed448-v6" => 512, _ => 0 };
                if bits < min_bits {
                    env.ctx.stat("gen:alg_hash_sweep:refused_config_skipped");
                    continue;
                }
                for (ti, t) in texts.iter().enumerate() {
                    if ti == 1 && !thorough && hi % 2 == 1 {
                        continue;
                    }
                    run_detached(&mut env, key, *h, t.as_bytes(), &mut rng, false);
                    run_builder(&mut env, &[(key, *h)], ti == 0, false, true, t.as_bytes(), &mut rng);
                    run_cleartext(&mut env, &[(key, *h)], (hi % 3) as u8, t, &mut rng);
                    env.ctx.stat(&format!("gen:alg_hash_sweep:{}", key.name));
                }
            }
        }
    }

    // ---- exact lengths on the internal windows (512: NormalizedReader, 1024: its buffer, 8192: inline
    //      reads), ending in a lone CR / CR LF / LF / other, so that a held-back CR meets the end of
    //      the source; through every interface ---------------------------------------------------
    {
        let mut j = 0usize;
        for n in [511usize, 512, 513, 1023, 1024, 1025, 1536, 8191, 8192, 8193] {
            for end in ["\r", "\r\n", "\n", "x"] {
                for fill in ["a", "ab\n", "a\r\n"] {
                    j += 1;
                    let mut t: String = fill.repeat(n / fill.len() + 1);
                    t.truncate(n - end.len());
                    t.push_str(end);
                    let key = if j % 2 == 0 { &ed4 } else { &ed6 };
                    let hash = hashes[(j / 2) % 2];
                    run_detached(&mut env, key, hash, t.as_bytes(), &mut rng, false);
                    run_cleartext(&mut env, &[(key, hash)], (j % 3) as u8, &t, &mut rng);
                    if n < 2000 || thorough || j % 3 == 0 {
                        run_builder(&mut env, &[(key, hash)], true, j % 4 == 1, true, t.as_bytes(), &mut rng);
                    }
                    // several signers in text mode over the same edges (each hasher keeps its own state
                    // across the reader's 8 KiB pieces)
                    if j % 2 == 0 || thorough {
                        let second = if key.kv == 6 { &ed4 } else { &ed6 };
                        run_builder(&mut env, &[(key, hash), (second, hashes[j % 2])], true, false, j % 3 == 0, t.as_bytes(), &mut rng);
                    }
                    env.ctx.stat("gen:window_edges");
                }
            }
        }
    }

    // ---- random above, full alphabet, incl. internal buffer edges (512: NormalizedReader window,
    //      8192: inline verification reads) ------------------------------------------------
    let n_rand = if thorough { 24000 } else { 1800 };
    for i in 0..n_rand {
        let n_atoms = match i % 10 {
            0 => rng.gen_range(505..520),
            1 => rng.gen_range(1020..1030),
            2 if thorough || i % 50 == 2 => rng.gen_range(8185..8200),
            3 => rng.gen_range(64..300),
            _ => rng.gen_range(8..64),
        };
        let mut s = random_payload(&mut rng, n_atoms);
        // plant line-end material exactly on the window edges
        for e in [511usize, 512, 1023, 1024, 8191, 8192] {
            if e + 1 < s.len() && s.is_char_boundary_at(e) && s.is_char_boundary_at(e + 1) && rng.gen_bool(0.5) {
                s[e] = [b'\r', b'\n', b' '][rng.gen_range(0..3)];
            }
        }
        let key = match i % 13 { 0 => &rsa, x if x % 2 == 0 => &ed4, _ => &ed6 };
        let hash = hashes[i % 2];
        let clean = i % 2 == 0;
        let t = if clean { make_clean(&s) } else { s.clone() };
        let text = String::from_utf8(t.clone()).expect("alphabet is utf8");
        env.ctx.stat(if clean { "gen:random:clean_text" } else { "gen:random:any_text" });
        match i % 6 {
            0 => run_detached(&mut env, key, hash, &s, &mut rng, false),
            1 => run_builder(&mut env, &[(key, hash)], true, i % 4 == 1, true, &s, &mut rng),
            2 => {
                let second = if key.kv == 6 { &ed4 } else { &ed6 };
                run_builder(&mut env, &[(key, hash), (second, hashes[(i + 1) % 2])], i % 4 < 2, i % 8 == 2, i % 3 == 0, &s, &mut rng)
            }
            3 => run_cleartext(&mut env, &[(key, hash)], 0, &text, &mut rng),
            4 => run_cleartext(&mut env, &[(key, hash)], 1, &text, &mut rng),
            _ => {
                let second = if key.kv == 6 { &ed4 } else { &ed6 };
                run_cleartext(&mut env, &[(key, hash), (second, hashes[(i + 1) % 2])], 2, &text, &mut rng)
            }
        }
    }

    // ---- read_cleartext_body on hand-made bodies ----------------------------------------
    let block = {
        let m = CleartextSignedMessage::sign(&mut rng, "x", ed4.sk(), &Password::empty()).expect("sign");
        let s = m.to_armored_string(ArmorOptions::default()).expect("armor");
        sig_block_of(&s).expect("block").to_string()
    };
    let body_atoms: [&str; 8] = ["-", "-----", "\n", "\r\n", "\r", "a", " ", "- "];
    let n_body = if thorough { 20000 } else { 2500 };
    for i in 0..n_body {
        let k = rng.gen_range(0..7);
        let mut body = String::new();
        for _ in 0..k {
            body.push_str(body_atoms[rng.gen_range(0..body_atoms.len())]);
        }
        if i % 3 != 0 {
            body.push('\n');
        }
        run_read_body(&mut env, &block, &body);
        env.ctx.stat("gen:read_body");
    }
}

trait CharBoundary {
    fn is_char_boundary_at(&self, i: usize) -> bool;
}

impl CharBoundary for Vec<u8> {
    /// true when byte `i` is a single-byte character of this (valid UTF-8, ≤ 2-byte atoms) text
    fn is_char_boundary_at(&self, i: usize) -> bool {
        i < self.len() && self[i] < 0x80
    }
}
