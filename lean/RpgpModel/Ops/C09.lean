import RpgpModel.Proto
import RpgpModel.Stream
import RpgpModel.Utf8
import RpgpModel.Canon
import RpgpModel.Gen.Constants
namespace Rpgp.Ops.C09
open Rpgp

def handle (op : String) (a : Args) : Option String :=
  match op with
  | "fill_buffer" => do
    let n ← a.nat "n"
    let cs ← a.list "chunks"
    let (got, rest) := fillBuffer (n + 1) cs n
    pure s!"ok:{hexOrDash got}:{hexOrDash rest.flatten}"
  | "cfb_enc_len" => do
    let n ← a.nat "n"
    let bs ← a.nat "bs"
    let blocks := cfbEncBlocks Gen.symEncBufferSize (List.replicate (bs + 2) 0) (List.replicate n 0)
      (List.replicate Gen.mdcLen 0)
    pure s!"ok:{blocks.flatten.length}"
  | "utf8_literal_accepts" => do
    let cs ← a.list "chunks"
    pure (okBool (utf8CheckChunks utf8ValidUpTo [] cs && crlfCheck cs))
  | _ => none

end Rpgp.Ops.C09
