import RpgpModel.Message
import RpgpProofs.Framing
import RpgpProofs.Seipd2
/-! Layer lemmas for the message builder/reader composition (C01). -/
namespace Rpgp

theorem deframe_fixedPkt (tag : Nat) (ht : tag < 64) (body rest : Bytes) (hb : body.length < 4294967296) :
    deframe (fixedPkt tag body ++ rest) =
      .ok ({ newFormat := true, tag := tag, len := .fixed body.length }, body, rest) := by
  have := deframe_fixed true tag (by simpa using ht) body rest hb
  simpa [fixedPkt] using this

theorem fixedPkt_ne_nil (tag : Nat) (body : Bytes) : fixedPkt tag body ≠ [] := by
  simp [fixedPkt, writeHeader]

/-- splitting a run of fixed-length packets followed by more stream -/
theorem splitPackets_fixed_run (tag : Nat) (ht : tag < 64) :
    ∀ (bodies : List Bytes) (rest : Bytes) (fuel : Nat) (tl : List (Nat × Bytes)),
    (∀ b ∈ bodies, b.length < 4294967296) →
    splitPackets fuel rest = some tl →
    splitPackets (fuel + bodies.length) ((bodies.map (fixedPkt tag)).flatten ++ rest)
      = some (bodies.map (fun b => (tag, b)) ++ tl) := by
  intro bodies
  induction bodies with
  | nil => intro rest fuel tl _ h; simpa using h
  | cons b bs ih =>
    intro rest fuel tl hb h
    have hb0 : b.length < 4294967296 := hb b (by simp)
    have ih' := ih rest fuel tl (fun x hx => hb x (by simp [hx])) h
    simp only [List.map_cons, List.flatten_cons, List.length_cons, List.append_assoc]
    rw [show fuel + (bs.length + 1) = (fuel + bs.length) + 1 by omega]
    unfold splitPackets
    have hne : fixedPkt tag b ++ ((bs.map (fixedPkt tag)).flatten ++ rest) ≠ [] := by
      simp [fixedPkt_ne_nil]
    simp only [hne, if_false]
    rw [deframe_fixedPkt tag ht b _ hb0]
    simp only [ih']
    simp

end Rpgp

namespace Rpgp

theorem splitPackets_mono : ∀ (f : Nat) (s : Bytes) (r : List (Nat × Bytes)),
    splitPackets f s = some r → ∀ f', f ≤ f' → splitPackets f' s = some r := by
  intro f
  induction f with
  | zero => intro s r h; simp [splitPackets] at h
  | succ f ih =>
    intro s r h f' hf
    obtain ⟨g, rfl⟩ : ∃ g, f' = g + 1 := ⟨f' - 1, by omega⟩
    unfold splitPackets at h ⊢
    by_cases hs : s = []
    · simpa [hs] using h
    · simp only [hs, if_false] at h ⊢
      cases hd : deframe s with
      | error e => simp [hd] at h
      | ok v =>
        obtain ⟨hh, body, rest⟩ := v
        simp only [hd] at h ⊢
        cases hr : splitPackets f rest with
        | none => simp [hr] at h
        | some ps =>
          simp only [hr] at h
          rw [ih rest ps hr g (by omega)]
          exact h

theorem fixedPkt_length_ge (tag : Nat) (body : Bytes) : 2 ≤ (fixedPkt tag body).length := by
  simp only [fixedPkt, writeHeader, if_true, List.length_append, List.length_cons, encodeNewLenHdr]
  split <;> (try split) <;> simp <;> omega

theorem encodeNewLen_length_pos (n : Nat) : 1 ≤ (encodeNewLen n).length := by
  unfold encodeNewLen; split <;> (try split) <;> simp

theorem literalPkt_length_ge (c : MsgCfg) (payload : Bytes) : 2 ≤ (literalPkt c payload).length := by
  unfold literalPkt
  cases c.lit with
  | fixed => exact fixedPkt_length_ge _ _
  | part k =>
    simp only [emitPartial]
    have := encodeNewLen_length_pos (payload.length + c.litHdr.length)
    split <;> simp only [List.length_cons, List.length_append] <;> omega

theorem deframe_literalPkt (c : MsgCfg) (payload rest : Bytes)
    (hk : ∀ k, c.lit = .part k → 9 ≤ k ∧ k ≤ 30 ∧ c.litHdr.length ≤ 2 ^ k)
    (hlen : c.litHdr.length + payload.length < 4294967296) :
    ∃ h, deframe (literalPkt c payload ++ rest) = .ok (h, c.litHdr ++ payload, rest) ∧ h.tag = 11 := by
  unfold literalPkt
  cases hl : c.lit with
  | fixed =>
    exact ⟨_, deframe_fixedPkt 11 (by decide) _ rest (by simp; omega), rfl⟩
  | part k =>
    obtain ⟨h9, h30, hh⟩ := hk k hl
    exact deframe_emitPartial 11 k c.litHdr payload rest (by decide) h9 h30 hh hlen

end Rpgp

namespace Rpgp

structure SigLaws (P : MsgPrims) : Prop where
  verify_sign : ∀ i d, P.sigOk i d (P.sigBody i d) = true

theorem zip_map_self {α β : Type} (l : List α) (f : α → β) (g : α → β → Bool) (h : ∀ a, g a (f a) = true) :
    ((l.zip (l.map f)).map fun (p : α × β) => g p.1 p.2) = List.replicate l.length true := by
  induction l with
  | nil => rfl
  | cons a l ih => simp [List.replicate_succ, h, ih]

theorem readSigned_signedStream (P : MsgPrims) (L : SigLaws P) (c : MsgCfg) (payload : Bytes)
    (hk : ∀ k, c.lit = .part k → 9 ≤ k ∧ k ≤ 30 ∧ c.litHdr.length ≤ 2 ^ k)
    (hlen : c.litHdr.length + payload.length < 4294967296)
    (hops : ∀ i ∈ c.signers, (P.opsBody i).length < 4294967296)
    (hsig : ∀ i ∈ c.signers, (P.sigBody i (P.preimage i payload)).length < 4294967296) :
    readSigned P c.litHdr.length c.signers (signedStream P c payload) =
      some { payload := payload, verified := List.replicate c.signers.length true } := by
  -- names for the three runs
  generalize hO : c.signers.map P.opsBody = ops
  generalize hS : c.signers.reverse.map (fun i => P.sigBody i (P.preimage i payload)) = sigs
  have hstream : signedStream P c payload =
      (ops.map (fixedPkt 4)).flatten ++ (literalPkt c payload ++ ((sigs.map (fixedPkt 2)).flatten ++ [])) := by
    simp [signedStream, ← hO, ← hS, List.map_map, Function.comp_def, List.append_assoc]
  have hol : ops.length = c.signers.length := by rw [← hO]; simp
  have hsl : sigs.length = c.signers.length := by rw [← hS]; simp
  have hopsb : ∀ b ∈ ops, b.length < 4294967296 := by
    intro b hb; rw [← hO] at hb; simp at hb; obtain ⟨i, hi, rfl⟩ := hb; exact hops i hi
  have hsigb : ∀ b ∈ sigs, b.length < 4294967296 := by
    intro b hb; rw [← hS] at hb; simp at hb; obtain ⟨i, hi, rfl⟩ := hb; exact hsig i hi
  -- split from the back
  have h1 : splitPackets (1 + sigs.length) ((sigs.map (fixedPkt 2)).flatten ++ []) = some (sigs.map (fun b => (2, b)) ++ []) :=
    splitPackets_fixed_run 2 (by decide) sigs [] 1 [] hsigb (by simp [splitPackets])
  obtain ⟨h, hd, htag⟩ := deframe_literalPkt c payload ((sigs.map (fixedPkt 2)).flatten ++ []) hk hlen
  have h2 : splitPackets (1 + sigs.length + 1) (literalPkt c payload ++ ((sigs.map (fixedPkt 2)).flatten ++ []))
      = some ((11, c.litHdr ++ payload) :: (sigs.map (fun b => (2, b)) ++ [])) := by
    unfold splitPackets
    have hne : literalPkt c payload ++ ((sigs.map (fixedPkt 2)).flatten ++ []) ≠ [] := by
      intro he
      have := congrArg List.length he
      have hl2 := literalPkt_length_ge c payload
      simp only [List.length_append, List.length_nil] at this; omega
    simp only [hne, if_false, hd, h1, htag]
  have h3 := splitPackets_fixed_run 4 (by decide) ops _ _ _ hopsb h2
  have hbig : 1 + sigs.length + 1 + ops.length ≤ (signedStream P c payload).length + 1 := by
    rw [hstream]
    have e1 : ∀ (l : List Bytes) (t : Nat), 2 * l.length ≤ ((l.map (fixedPkt t)).flatten).length := by
      intro l t
      induction l with
      | nil => simp
      | cons a l ih => have := fixedPkt_length_ge t a; simp at ih ⊢; omega
    have a1 := e1 ops 4
    have a2 := e1 sigs 2
    have a3 := literalPkt_length_ge c payload
    simp only [List.length_append, List.length_nil]
    omega
  have hsplit := splitPackets_mono _ _ _ h3 _ hbig
  rw [← hstream] at hsplit
  unfold readSigned
  simp only [hsplit]
  have htake : List.take c.signers.length (ops.map (fun b => (4, b)) ++ (11, c.litHdr ++ payload) :: (sigs.map (fun b => (2, b)) ++ []))
      = ops.map (fun b => (4, b)) := by
    rw [List.take_left' (by simp [hol])]
  have hdrop : List.drop c.signers.length (ops.map (fun b => (4, b)) ++ (11, c.litHdr ++ payload) :: (sigs.map (fun b => (2, b)) ++ []))
      = (11, c.litHdr ++ payload) :: (sigs.map (fun b => (2, b)) ++ []) := by
    rw [List.drop_left' (by simp [hol])]
  have hdrop1 : List.drop (c.signers.length + 1) (ops.map (fun b => (4, b)) ++ (11, c.litHdr ++ payload) :: (sigs.map (fun b => (2, b)) ++ []))
      = sigs.map (fun b => (2, b)) := by
    rw [← List.drop_drop, hdrop]; simp
  simp only [htake, hdrop, hdrop1, List.head?_cons]
  have hcond : ¬ ((11 : Nat) ≠ 11 ∨ (ops.map (fun b => ((4 : Nat), b))).any (fun p => p.1 ≠ 4) = true ∨
      (sigs.map (fun b => ((2 : Nat), b))).any (fun p => p.1 ≠ 2) = true ∨
      (sigs.map (fun b => ((2 : Nat), b))).length ≠ c.signers.length ∨
      (ops.map (fun b => ((4 : Nat), b))).length ≠ c.signers.length ∨
      (c.litHdr ++ payload).length < c.litHdr.length) := by
    simp [hol, hsl]
  simp only [hcond, if_false]
  have hrev : ((sigs.map (fun b => ((2 : Nat), b))).map (·.2)).reverse =
      c.signers.map (fun i => P.sigBody i (P.preimage i payload)) := by
    rw [← hS]; simp [List.map_map, Function.comp_def, List.map_reverse]
  have hpay : (c.litHdr ++ payload).drop c.litHdr.length = payload := List.drop_left' rfl
  rw [hrev, hpay]
  have : ∀ l : List Nat, ((l.zip (l.map fun i => P.sigBody i (P.preimage i payload))).map
      fun (x : Nat × Bytes) => P.sigOk x.fst (P.preimage x.fst payload) x.snd)
      = List.replicate l.length true := by
    intro l
    induction l with
    | nil => rfl
    | cons a l ih => simp [List.replicate_succ, L.verify_sign, ih]
  rw [this c.signers]

end Rpgp

namespace Rpgp

structure CompLaws (P : MsgPrims) : Prop where
  decompress_compress : ∀ a x, P.decompress a (P.compress a x) = some x

theorem readCompressed_layer (P : MsgPrims) (L : CompLaws P) (c : MsgCfg) (inner : Bytes)
    (hk : 9 ≤ c.k ∧ c.k ≤ 30)
    (hlen : ∀ a, c.compression = some a → a < 256 ∧ 1 + (P.compress a inner).length < 4294967296) :
    readCompressed P c (compressedLayer P c inner) = some inner := by
  unfold readCompressed compressedLayer
  cases hc : c.compression with
  | none => rfl
  | some a =>
    obtain ⟨ha, hl⟩ := hlen a hc
    have h1 : ([a.toUInt8] : Bytes).length ≤ 2 ^ c.k := by
      have : 1 ≤ 2 ^ c.k := Nat.one_le_two_pow
      simpa using this
    obtain ⟨h, hd, htag⟩ := deframe_emitPartial 8 c.k [a.toUInt8] (P.compress a inner) [] (by decide) hk.1 hk.2 h1
      (by simpa using hl)
    simp only [List.append_nil] at hd
    simp only [hd, htag]
    have : a.toUInt8.toNat = a := toUInt8_toNat_of_lt a ha
    simp [this, L.decompress_compress]

theorem seipd2Decrypt_encrypt (A : Aead) (L : AeadLaws A 16) (info : Bytes) (cs : Nat) (hcs : 0 < cs) (pt : Bytes) :
    seipd2Decrypt A info cs (seipd2Encrypt A info cs pt) = (pt, true) := by
  obtain ⟨bl, h1, h2⟩ := seipd2_roundtrip A 16 L (by decide) info cs hcs pt
  unfold seipd2Decrypt
  have e1 : Gen.aeadTagSize = 16 := rfl
  have e2 : Gen.aeadWindowFactor = 2 := rfl
  simp only [e1, e2, h1, h2]

theorem readEncrypted_layer (P : MsgPrims) (L : AeadLaws P.aead 16) (c : MsgCfg) (inner : Bytes)
    (hk : 9 ≤ c.k ∧ c.k ≤ 30)
    (henc : ∀ co info cs, c.encryption = some (co, info, cs) →
      0 < cs ∧ co.length ≤ 2 ^ c.k ∧ co.length + (seipd2Encrypt P.aead info cs inner).length < 4294967296) :
    readEncrypted P c (encryptedLayer P c inner) = some inner := by
  unfold readEncrypted encryptedLayer
  cases hc : c.encryption with
  | none => rfl
  | some v =>
    obtain ⟨co, info, cs⟩ := v
    obtain ⟨hcs, hco, hl⟩ := henc co info cs hc
    obtain ⟨h, hd, htag⟩ := deframe_emitPartial 18 c.k co (seipd2Encrypt P.aead info cs inner) [] (by decide)
      hk.1 hk.2 hco hl
    simp only [List.append_nil] at hd
    simp only [hd, htag]
    simp [List.take_left' rfl, List.drop_left' rfl, seipd2Decrypt_encrypt P.aead L info cs hcs]

end Rpgp
