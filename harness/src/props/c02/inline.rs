//! C02, inline signatures: one-pass and prefixed signed messages through `Message::verify`,
//! `verify_read`, `verify_nested`, binary and after an armor round trip.
use super::*;

/// raw octets as a `Serialize` object (for `armor::write`)
pub(super) struct Raw(pub Vec<u8>);

impl Serialize for Raw {
    fn to_writer<W: std::io::Write>(&self, w: &mut W) -> pgp::errors::Result<()> {
        w.write_all(&self.0)?;
        Ok(())
    }
    fn write_len(&self) -> usize {
        self.0.len()
    }
}

pub(super) fn armor_of(bytes: &[u8], typ: BlockType) -> Option<Vec<u8>> {
    let mut out = Vec::new();
    armor::write(&Raw(bytes.to_vec()), typ, &mut out, None, true).ok()?;
    Some(out)
}

pub(super) fn assemble(packets: &[(u8, &[u8])]) -> Vec<u8> {
    let mut v = Vec::new();
    for (t, b) in packets {
        v.extend(sigrec::packet5(*t, b));
    }
    v
}

pub(super) fn msg_class(stage: &str, msg: &str) -> String {
    let c = classify(msg);
    // an error that is not one of the guards: where it happened
    if c == "err:pk" {
        if stage == "verify" { "err:pk".to_string() } else { format!("err:{stage}") }
    } else {
        c.to_string()
    }
}

/// the three message-level entry points on one byte string; answers are canonical classes
pub(super) fn run_message(bytes: &[u8], vk: &VK, armored: bool) -> Vec<(&'static str, String)> {
    let mut out = Vec::new();
    let parse = |b: &[u8]| -> Result<Message<'static>, String> {
        // the message owns its source
        let owned: Vec<u8> = b.to_vec();
        if armored {
            Message::from_armor(std::io::Cursor::new(owned)).map(|x| x.0).map_err(|e| e.to_string())
        } else {
            Message::from_bytes(std::io::Cursor::new(owned)).map_err(|e| e.to_string())
        }
    };
    // verify_read
    let r = guarded(|| -> String {
        match parse(bytes) {
            Err(e) => msg_class("parse", &e),
            Ok(mut m) => match m.verify_read(vk) {
                Ok(_) => "ok".to_string(),
                Err(e) => msg_class("read", &e.to_string()),
            },
        }
    });
    out.push((if armored { "Message::from_armor -> verify_read" } else { "Message::from_bytes -> verify_read" }, r.unwrap_or_else(|p| format!("panic:{p}"))));
    if armored {
        return out;
    }
    // read_to_end, then verify
    let r = guarded(|| -> String {
        match parse(bytes) {
            Err(e) => msg_class("parse", &e),
            Ok(mut m) => {
                let mut sink = Vec::new();
                if let Err(e) = m.read_to_end(&mut sink) {
                    return msg_class("read", &e.to_string());
                }
                match m.verify(vk) {
                    Ok(_) => "ok".to_string(),
                    Err(e) => msg_class("verify", &e.to_string()),
                }
            }
        }
    });
    out.push(("Message::from_bytes -> read_to_end -> verify", r.unwrap_or_else(|p| format!("panic:{p}"))));
    // verify_nested
    let r = guarded(|| -> String {
        match parse(bytes) {
            Err(e) => msg_class("parse", &e),
            Ok(mut m) => {
                let mut sink = Vec::new();
                if let Err(e) = m.read_to_end(&mut sink) {
                    return msg_class("read", &e.to_string());
                }
                match m.verify_nested(&[vk as &dyn VerifyingKey]) {
                    Ok(v) => match v.first() {
                        Some(VerificationResult::Valid(_)) => "ok".to_string(),
                        _ => "invalid".to_string(),
                    },
                    Err(e) => msg_class("verify", &e.to_string()),
                }
            }
        }
    });
    out.push(("Message::from_bytes -> read_to_end -> verify_nested", r.unwrap_or_else(|p| format!("panic:{p}"))));
    out
}

/// fold the three answers into the one the model predicts: `verify_read` and `verify` give the
/// guard; `verify_nested` only says valid / invalid
pub(super) fn fold(ctx: &mut Ctx, site: &str, inp: &str, runs: &[(&'static str, String)]) -> String {
    // `read_to_end -> verify` separates the reader's errors from the verification's
    let first = runs[1].1.clone();
    for (i, (s, a)) in runs.iter().enumerate() {
        if i == 1 {
            continue;
        }
        ctx.oracle("entry_points_agree", &format!("{site}: {s} vs {}", runs[1].0), inp, (first == "ok") == (a == "ok"), &format!("{first} vs {a}"));
    }
    first
}

/// the fields of a One-Pass Signature packet body that `matches` compares, read independently
fn ops_header(b: &[u8]) -> Option<(u8, u8, u8, u8, Vec<u8>)> {
    let (v, typ, hash, pk) = (*b.first()?, *b.get(1)?, *b.get(2)?, *b.get(3)?);
    let salt = if v == 6 {
        let sl = *b.get(4)? as usize;
        b.get(5..5 + sl)?.to_vec()
    } else {
        vec![]
    };
    Some((v, typ, hash, pk, salt))
}

/// does the one-pass header say something else than the signature packet it is paired with?
pub(super) fn ops_disagrees(ops: &[u8], sig: &[u8]) -> bool {
    let (Some((v, typ, hash, pk, salt)), Some(f)) = (ops_header(ops), sigrec::parse_sig_body(sig)) else {
        return true;
    };
    let ver_ok = (v == 3 && f.ver == 4) || (v == 6 && f.ver == 6);
    !(ver_ok && typ == f.typ && hash == f.hash && pk == f.pk && (v != 6 || salt == f.salt))
}

pub(super) struct Parts {
    pub ops: Option<Vec<u8>>,
    /// literal packet body up to the data (mode, name, date)
    pub lit_head: Vec<u8>,
    pub data: Vec<u8>,
    pub sig: Vec<u8>,
}

impl Parts {
    pub fn lit(&self) -> Vec<u8> {
        let mut v = self.lit_head.clone();
        v.extend_from_slice(&self.data);
        v
    }
    pub fn bytes(&self) -> Vec<u8> {
        let lit = self.lit();
        match &self.ops {
            Some(o) => assemble(&[(4, o), (11, &lit), (2, &self.sig)]),
            None => assemble(&[(2, &self.sig), (11, &lit)]),
        }
    }
}

fn ops_fields(ops: &[u8]) -> Vec<Field> {
    let f = |name: &str, off: usize, len: usize| Field { name: name.to_string(), off, len };
    let mut v = vec![f("ops.version", 0, 1), f("ops.type", 1, 1), f("ops.hash", 2, 1), f("ops.pk", 3, 1)];
    if ops.first() == Some(&6) {
        let sl = *ops.get(4).unwrap_or(&0) as usize;
        v.push(f("ops.saltlen", 4, 1));
        v.push(f("ops.salt", 5, sl));
        v.push(f("ops.fingerprint", 5 + sl, 32));
        v.push(f("ops.nested", 5 + sl + 32, 1));
    } else {
        v.push(f("ops.keyid", 4, 8));
        v.push(f("ops.nested", 12, 1));
    }
    v
}

pub(super) fn request(p: &Parts, vk: &VK, t: &Tables) -> String {
    let ops = match &p.ops {
        Some(o) => format!(" ops={}", hx(o)),
        None => String::new(),
    };
    format!("snd_verify ep=inline sig={}{} data={} {} {}", hx(&p.sig), ops, hx(&p.data), kdesc("k", &vk.k), t.show(vk.yes))
}

pub(super) fn tables(t0: &Tables, p: &Parts) -> Tables {
    let back = parse_sig(&p.sig).map(|s| body_of(&s)).unwrap_or_default();
    tables_for(t0, &[&p.sig, &back], &Subject::Doc(p.data.clone()))
}

/// one (mutated) message: run, fold, emit case, return the answer
pub(super) fn one(ctx: &mut Ctx, site: &str, inp: &str, p: &Parts, vk: &VK, t0: &Tables, with_armor: bool) -> String {
    let bytes = p.bytes();
    let mut runs = run_message(&bytes, vk, false);
    if with_armor {
        if let Some(a) = armor_of(&bytes, BlockType::Message) {
            runs.extend(run_message(&a, vk, true));
        }
    }
    let mut ans = fold(ctx, site, inp, &runs);
    // a signature packet the parser refuses: the model says `err:parse` wherever it surfaces
    // (a prefixed signature goes through the message parser, which reports its own errors)
    if p.ops.is_some() && parse_sig(&p.sig).is_err() && ans != "ok" {
        ans = "err:parse".to_string();
    }
    ctx.case(request(p, vk, &tables(t0, p)), ans.clone());
    ans
}

pub(super) fn run(ctx: &mut Ctx, fixes: &[Fix]) {
    let mut rng = ChaCha8Rng::seed_from_u64(ctx.rng.gen());
    for fix in fixes {
        for text in [false, true] {
            if fix.weight >= 2 && text {
                continue;
            }
            let hash = fix.hashes[0];
            let data: Vec<u8> = if text { b"inline text\nsecond line\r\nthird\n".to_vec() } else { crate::gen::random_bytes(&mut rng, 40) };
            let label = format!("{} inline {} {}", fix.name, if text { "text" } else { "binary" }, hash_label(hash));
            let seed: u64 = rng.gen();
            let built = guarded(|| -> Result<Vec<u8>, String> {
                let mut b = MessageBuilder::from_bytes("", data.clone());
                if text {
                    b.sign_text();
                }
                b.sign(&fix.prim_sec as &dyn SigningKey, Password::empty(), hash);
                b.to_vec(ChaCha8Rng::seed_from_u64(seed)).map_err(|e| e.to_string())
            });
            let msg = match built {
                Ok(Ok(m)) => m,
                other => {
                    ctx.oracle("original_verifies", "MessageBuilder::sign", &label, false, &format!("{other:?}"));
                    continue;
                }
            };
            let Some(pk) = sigrec::split_packets(&msg) else {
                ctx.oracle("original_verifies", "MessageBuilder::sign", &label, false, "cannot split the builder's output");
                continue;
            };
            if pk.len() != 3 || pk[0].0 != 4 || pk[1].0 != 11 || pk[2].0 != 2 {
                ctx.oracle("original_verifies", "MessageBuilder::sign", &label, false, "unexpected packet sequence");
                continue;
            }
            let lit = &pk[1].1;
            let head = 2 + lit[1] as usize + 4;
            let onepass = Parts { ops: Some(pk[0].1.clone()), lit_head: lit[..head].to_vec(), data: lit[head..].to_vec(), sig: pk[2].1.clone() };
            let sig = match parse_sig(&onepass.sig) {
                Ok(s) => s,
                Err(e) => {
                    ctx.oracle("original_verifies", "PacketParser (builder's signature)", &label, false, &e);
                    continue;
                }
            };
            let mut t0 = Tables::default();
            if let Err(e) = log_original(&mut t0, &sig, &Subject::Doc(onepass.data.clone()), &fix.prim_pub) {
                ctx.oracle("original_verifies", "RFC 9580 5.2.4 digest of the builder's signature", &label, false, &e);
                continue;
            }
            let vk = VK { k: fix.prim_pub.clone(), yes: false };
            let fs = field_map(&sig);
            for one_pass in [true, false] {
                let base = Parts { ops: if one_pass { onepass.ops.clone() } else { None }, lit_head: onepass.lit_head.clone(), data: onepass.data.clone(), sig: onepass.sig.clone() };
                let form = if one_pass { "one-pass" } else { "prefixed" };
                let site = format!("{form} signed message");
                ctx.stat(&format!("inline:{}:{form}:{}", fix.name, if text { "text" } else { "binary" }));
                // the original (and the builder's own bytes for the one-pass form)
                let inp0 = format!("{label} {form} msg={}", hx(&base.bytes()));
                let a = one(ctx, &site, &inp0, &base, &vk, &t0, true);
                ctx.oracle("original_verifies", &site, &inp0, a == "ok", &a);
                if one_pass {
                    let runs = run_message(&msg, &vk, false);
                    ctx.oracle("original_verifies", "MessageBuilder output as written", &label, runs.iter().all(|r| r.1 == "ok"), &format!("{runs:?}"));
                }

                // (a) content
                let mut cms = content_mutations(&mut rng, &base.data);
                if fix.weight >= 1 {
                    cms = cms.into_iter().enumerate().filter(|(i, _)| i % 5 == 0).map(|(_, m)| m).collect();
                }
                for m in cms {
                    let same = if text { sigrec::rfc_canon_text(&m.out) == sigrec::rfc_canon_text(&base.data) } else { m.out == base.data };
                    let p = Parts { data: m.out, ops: base.ops.clone(), lit_head: base.lit_head.clone(), sig: base.sig.clone() };
                    let inp = format!("{label} {form} data:{} msg={}", m.desc, hx(&p.bytes()));
                    let a = one(ctx, &site, &inp, &p, &vk, &t0, false);
                    if same {
                        ctx.oracle("eol_variant_verifies", &site, &inp, a == "ok", &a);
                    } else {
                        ctx.stat(&format!("inline:content:{a}"));
                        ctx.oracle("mutation_rejected", &site, &inp, a != "ok", "changed literal data still verifies");
                    }
                }
                if text {
                    for m in eol_variants(&base.data) {
                        let p = Parts { data: m.out, ops: base.ops.clone(), lit_head: base.lit_head.clone(), sig: base.sig.clone() };
                        let inp = format!("{label} {form} data:{} msg={}", m.desc, hx(&p.bytes()));
                        let a = one(ctx, &site, &inp, &p, &vk, &t0, false);
                        ctx.oracle("eol_variant_verifies", &site, &inp, a == "ok", &a);
                    }
                }

                // (b) the signature packet, field by field
                for m in sig_mutations(&mut rng, &base.sig, &fs, fix.weight.max(1)) {
                    if m.out == base.sig {
                        continue;
                    }
                    let loc = loc_of(&sig, &fs, &m);
                    let p = Parts { sig: m.out, ops: base.ops.clone(), lit_head: base.lit_head.clone(), data: base.data.clone() };
                    let inp = format!("{label} {form} {} [{}] msg={}", m.desc, loc, hx(&p.bytes()));
                    let a = one(ctx, &site, &inp, &p, &vk, &t0, false);
                    ctx.stat(&format!("inline:sigmut:{}:{a}", field_class(&loc)));
                    ctx.oracle("mutation_rejected", &site, &inp, a != "ok" || in_exception_list(&loc), &format!("mutation in {loc} still verifies"));
                    if a == "ok" {
                        ctx.stat(&format!("still_verifies:inline:{loc}"));
                    }
                }

                // (c) the one-pass header
                if let Some(ops) = &base.ops {
                    let ofs = ops_fields(ops);
                    let mut oms = Vec::new();
                    for f in &ofs {
                        range_mutations(&mut rng, ops, f.off, f.len, f.len <= 8 || fix.weight == 0, &mut oms);
                    }
                    for m in oms {
                        if m.out == *ops {
                            continue;
                        }
                        let loc = ofs.iter().find(|f| m.off >= f.off && m.off < f.off + f.len).map(|f| f.name.clone()).unwrap_or_else(|| "ops.outside".into());
                        let p = Parts { ops: Some(m.out), sig: base.sig.clone(), lit_head: base.lit_head.clone(), data: base.data.clone() };
                        let inp = format!("{label} {form} {} [{}] msg={}", m.desc, loc, hx(&p.bytes()));
                        let a = one(ctx, &site, &inp, &p, &vk, &t0, false);
                        ctx.stat(&format!("inline:opsmut:{loc}:{a}"));
                        // "one-pass header must agree with trailing signature": type, hash, pk, salt, version
                        if ops_disagrees(p.ops.as_ref().expect("ops"), &p.sig) {
                            ctx.oracle("ops_mismatch_rejected", &site, &inp, a != "ok", "a disagreeing one-pass header still verifies");
                        }
                        if a == "ok" {
                            ctx.stat(&format!("still_verifies:inline:{loc}"));
                        }
                    }
                }

                // (d) the verifying key
                let mut others: Vec<(&'static str, PubAny)> = vec![("other key of the same algorithm", fix.sub_pub.clone())];
                if let Some(w) = other_version_wrapper(&fix.prim_pub) {
                    others.push(("same material, other key version", w));
                }
                for (what, k) in others {
                    let ovk = VK { k, yes: false };
                    let inp = format!("{label} {form} key=<{what}> msg={}", hx(&base.bytes()));
                    let a = one(ctx, &site, &inp, &base, &ovk, &t0, false);
                    ctx.stat(&format!("inline:keysub:{what}:{a}"));
                    ctx.oracle("mutation_rejected", &site, &inp, a != "ok", "another key verifies");
                }

                // left-16 against a key that accepts everything
                if let Some(f) = fs.iter().find(|f| f.name == "left16") {
                    let yes = VK { k: fix.prim_pub.clone(), yes: true };
                    let m = flip(&base.sig, f.off, 3);
                    let p = Parts { sig: m.out, ops: base.ops.clone(), lit_head: base.lit_head.clone(), data: base.data.clone() };
                    let inp = format!("{label} {form} {} msg={}", m.desc, hx(&p.bytes()));
                    let a = one(ctx, &site, &inp, &p, &yes, &t0, false);
                    ctx.oracle("left16_alone_refuses", &site, &inp, a == "err:left16", &a);
                }

                // truncating / extending the message (no model case: the packet sequence is not a signed message any more)
                let full = base.bytes();
                let cuts: Vec<usize> = (1..=6).map(|k| full.len() - k).chain([full.len() / 2, 3]).collect();
                for c in cuts {
                    let runs = run_message(&full[..c], &vk, false);
                    let inp = format!("{label} {form} message truncated to {c} msg={}", hx(&full[..c]));
                    ctx.oracle("mutation_rejected", &site, &inp, runs.iter().all(|r| r.1 != "ok"), &format!("{runs:?}"));
                    ctx.stat("inline:truncated");
                }
            }
        }
    }
}
