//! The constructions of C12 written from the RFC texts only (RFC 9580 §3.7, §5.3, §5.5.3, §5.13,
//! §5.1.6/7, §11.5; RFC 3394; RFC 5869; RFC 9106) on top of bare primitives.  This is the oracle
//! side: it does not look at the Lean model nor at rpgp's source.

use crate::plan::{aead_seal, argon2id, cfb_encrypt, hash, hkdf, kw_wrap, new_hasher};

pub fn digest_len(alg: u8) -> Option<usize> {
    Some(match alg {
        1 => 16,
        2 | 3 => 20,
        8 | 12 => 32,
        9 => 48,
        10 | 14 => 64,
        11 => 28,
        _ => return None,
    })
}

pub fn block_size(alg: u8) -> usize {
    match alg {
        1..=4 => 8,
        7..=13 => 16,
        _ => 0,
    }
}

pub fn key_size(alg: u8) -> usize {
    match alg {
        1 | 3 | 4 | 7 | 11 => 16,
        2 | 8 | 12 => 24,
        9 | 10 | 13 => 32,
        _ => 0,
    }
}

pub fn nonce_size(aead: u8) -> usize {
    match aead {
        1 => 16,
        2 => 15,
        3 => 12,
        _ => 0,
    }
}

#[derive(Clone, Debug)]
pub enum S2k {
    Simple { hash: u8 },
    Salted { hash: u8, salt: Vec<u8> },
    Iterated { hash: u8, salt: Vec<u8>, count: u8 },
    Argon2 { salt: Vec<u8>, t: u8, p: u8, m: u8 },
}

/// RFC 9580 §3.7.1.3: count = (16 + (c & 15)) << ((c >> 4) + 6)
pub fn s2k_count(c: u8) -> usize {
    (16usize + (c as usize & 15)) << ((c as usize >> 4) + 6)
}

/// RFC 9580 §3.7.1.1–3.7.1.4.  `None`: the RFC gives no value (unknown hash / out-of-range Argon2).
pub fn s2k(spec: &S2k, pw: &[u8], ks: usize) -> Option<Vec<u8>> {
    let (halg, unit, total): (u8, Vec<u8>, usize) = match spec {
        S2k::Argon2 { salt, t, p, m } => {
            // encoded_m from 3+ceil(log2(p)) to 31
            if *p == 0 || *t == 0 {
                return None;
            }
            let lg = (*p as f64).log2().ceil() as u8;
            if *m < 3 + lg || *m > 31 {
                return None;
            }
            return argon2id(pw, salt, *t as u32, *p as u32, 1u32 << *m, ks).ok();
        }
        S2k::Simple { hash } => (*hash, pw.to_vec(), pw.len()),
        S2k::Salted { hash, salt } => {
            let u = [&salt[..], pw].concat();
            let n = u.len();
            (*hash, u, n)
        }
        S2k::Iterated { hash, salt, count } => {
            let u = [&salt[..], pw].concat();
            // "if the octet count is less than the size of the salt plus passphrase, the full salt
            // plus passphrase will be hashed"
            let n = s2k_count(*count).max(u.len());
            (*hash, u, n)
        }
    };
    let d = digest_len(halg)?;
    let mut out = Vec::new();
    let mut ctx_no = 0usize;
    while out.len() < ks {
        let mut h = new_hasher(halg).ok()?;
        // "preloaded with" ctx_no octets of zeros
        h.update(&vec![0u8; ctx_no]);
        let mut left = total;
        while left > 0 && !unit.is_empty() {
            let k = left.min(unit.len());
            h.update(&unit[..k]);
            left -= k;
        }
        out.extend_from_slice(&h.finalize());
        ctx_no += 1;
        if d == 0 {
            return None;
        }
    }
    out.truncate(ks);
    Some(out)
}

pub fn s2k_spec_bytes(spec: &S2k) -> Vec<u8> {
    match spec {
        S2k::Simple { hash } => vec![0, *hash],
        S2k::Salted { hash, salt } => [&[1, *hash][..], salt].concat(),
        S2k::Iterated { hash, salt, count } => [&[3, *hash][..], salt, &[*count]].concat(),
        S2k::Argon2 { salt, t, p, m } => [&[4][..], salt, &[*t, *p, *m]].concat(),
    }
}

/// RFC 9580 §5.13.1
pub fn seipd1(alg: u8, key: &[u8], prefix: &[u8], pt: &[u8]) -> Result<Vec<u8>, String> {
    let bs = block_size(alg);
    if prefix.len() != bs || bs < 2 {
        return Err("prefix".into());
    }
    let mut m = prefix.to_vec();
    m.extend_from_slice(&prefix[bs - 2..]);
    m.extend_from_slice(pt);
    m.extend_from_slice(&[0xD3, 0x14]);
    let mdc = hash(2, &m)?;
    m.extend_from_slice(&mdc);
    cfb_encrypt(alg, key, &vec![0u8; bs], &m)
}

/// RFC 9580 §5.13.2
pub fn seipd2(sym: u8, aead: u8, cs: u8, salt: &[u8], key: &[u8], pt: &[u8]) -> Result<Vec<u8>, String> {
    let info = [0xD2u8, 2, sym, aead, cs];
    let ks = key_size(sym);
    let ns = nonce_size(aead);
    if ns < 8 {
        return Err("aead".into());
    }
    let okm = hkdf(8, salt, key, &info, ks + ns - 8)?;
    let (mk, iv) = okm.split_at(ks);
    let csz = 1usize << (cs as usize + 6);
    let mut out = Vec::new();
    let mut idx: u64 = 0;
    for chunk in pt.chunks(csz) {
        let nonce = [iv, &idx.to_be_bytes()[..]].concat();
        out.extend(aead_seal(sym, aead, mk, &nonce, &info, chunk)?);
        idx += 1;
    }
    let nonce = [iv, &idx.to_be_bytes()[..]].concat();
    let ad = [&info[..], &(pt.len() as u64).to_be_bytes()[..]].concat();
    out.extend(aead_seal(sym, aead, mk, &nonce, &ad, &[])?);
    Ok(out)
}

/// RFC 9580 §5.3.1 (packet body)
pub fn skesk4(sym: u8, spec: &S2k, pw: &[u8], sk: &[u8]) -> Result<Vec<u8>, String> {
    let key = s2k(spec, pw, key_size(sym)).ok_or("s2k")?;
    let esk = cfb_encrypt(sym, &key, &vec![0u8; block_size(sym)], &[&[sym][..], sk].concat())?;
    Ok([&[4u8, sym][..], &s2k_spec_bytes(spec), &esk].concat())
}

/// RFC 9580 §5.3.2 (packet body)
pub fn skesk6(sym: u8, aead: u8, spec: &S2k, pw: &[u8], sk: &[u8], iv: &[u8]) -> Result<Vec<u8>, String> {
    let ikm = s2k(spec, pw, key_size(sym)).ok_or("s2k")?;
    let info = [0xC3u8, 6, sym, aead];
    let kek = hkdf(8, &[], &ikm, &info, key_size(sym))?;
    let esk = aead_seal(sym, aead, &kek, iv, &info, sk)?;
    let sb = s2k_spec_bytes(spec);
    let count = 3 + sb.len() + iv.len();
    Ok([&[6u8, count as u8, sym, aead, sb.len() as u8][..], &sb, iv, &esk].concat())
}

/// RFC 9580 §5.5.3 / §3.7.2.1, usage 254
pub fn seckey_cfb(sym: u8, spec: &S2k, pw: &[u8], iv: &[u8], raw: &[u8]) -> Result<Vec<u8>, String> {
    let key = s2k(spec, pw, key_size(sym)).ok_or("s2k")?;
    cfb_encrypt(sym, &key, iv, &[raw, &hash(2, raw)?[..]].concat())
}

/// RFC 9580 §5.5.3 / §3.7.2.1, usage 253
#[allow(clippy::too_many_arguments)]
pub fn seckey_aead(sym: u8, aead: u8, spec: &S2k, pw: &[u8], nonce: &[u8], tag: u8, ver: u8, pub_body: &[u8], raw: &[u8]) -> Result<Vec<u8>, String> {
    let ikm = s2k(spec, pw, key_size(sym)).ok_or("s2k")?;
    let info = [0xC0 | tag, ver, sym, aead];
    let kek = hkdf(8, &[], &ikm, &info, key_size(sym))?;
    let ad = [&[0xC0 | tag][..], pub_body].concat();
    aead_seal(sym, aead, &kek, nonce, &ad, raw)
}

/// RFC 9580 §11.5 `Param`
pub fn ecdh_param(oid: &[u8], sym: u8, hash_id: u8, fp: &[u8]) -> Vec<u8> {
    [&[oid.len() as u8][..], oid, &[18u8, 3, 1, hash_id, sym], b"Anonymous Sender    ", fp].concat()
}

/// RFC 9580 §11.5: `MB = Hash(00 00 00 01 || ZB || Param)`, key wrap over the PKCS5-padded value
pub fn ecdh_wrap(oid: &[u8], hash_id: u8, sym: u8, fp: &[u8], z: &[u8], plain: &[u8]) -> Result<Vec<u8>, String> {
    let mb = hash(hash_id, &[&[0u8, 0, 0, 1][..], z, &ecdh_param(oid, sym, hash_id, fp)].concat())?;
    let ks = key_size(sym);
    if mb.len() < ks {
        return Err("digest shorter than KEK".into());
    }
    let padn = 8 - plain.len() % 8;
    let padded = [plain, &vec![padn as u8; padn][..]].concat();
    kw_wrap(&mb[..ks], &padded)
}

/// RFC 9580 §5.1.6
pub fn x25519_wrap(eph: &[u8], rcpt: &[u8], z: &[u8], plain: &[u8]) -> Result<Vec<u8>, String> {
    let kek = hkdf(8, &[], &[eph, rcpt, z].concat(), b"OpenPGP X25519", 16)?;
    kw_wrap(&kek, plain)
}

/// RFC 9580 §5.1.7
pub fn x448_wrap(eph: &[u8], rcpt: &[u8], z: &[u8], plain: &[u8]) -> Result<Vec<u8>, String> {
    let kek = hkdf(10, &[], &[eph, rcpt, z].concat(), b"OpenPGP X448", 32)?;
    kw_wrap(&kek, plain)
}

/// RFC 9580 §5.1: sum of the session-key octets modulo 65536
pub fn sum16(b: &[u8]) -> u16 {
    (b.iter().map(|x| *x as u64).sum::<u64>() % 65536) as u16
}
