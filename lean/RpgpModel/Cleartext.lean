import RpgpModel.Bytes
import RpgpModel.Canon
import RpgpModel.Gen.Constants
/-!
# Cleartext — the Cleartext Signature Framework of `src/composed/cleartext.rs`

Transcription, function by function, of

* `dash_escape`                (`dashEscape`)      — per `split_inclusive('\n')` line, `"- "` in
                                                     front of every line that starts with `-`
* `dash_unescape_and_trim`     (`unescapeTrim`)    — per line: split off `\r\n` / `\n`, strip one
                                                     `"- "`, trim trailing SP/TAB, re-append ending
* `read_cleartext_body`        (`readCleartextBody`) — `read_line` loop, empty-body case,
                                                     `rfind("\n-----")`, strip one LF or CRLF
* `CleartextSignedMessage::signed_text`            (`signedText`)
* `to_armored_writer`          (`writeDoc`)        — header line, `Hash:` lines, blank line, text,
                                                     `"\n"`, armored signature block (opaque here)
* `from_armor_buf` up to the signature block (`readDoc`): `armor/reader.rs header_parser` for
  the cleartext type (`armor_header_line`, `armor_headers_hash`/`hash_header_line`, blank line),
  `validate_headers`, then `read_cleartext_body`.
* `new` / `new_many` / `verify` over abstract signature primitives (`SigPrims`).

Rust `str` operations used by that code (`split_inclusive`, `starts_with`, `strip_prefix`,
`trim_end_matches`, `ends_with`, `rfind`, `read_line`) only look for ASCII patterns, so on
valid UTF-8 they act on the bytes; multi-byte characters are just other bytes here.  UTF-8
validation itself (`read_line` / `String::from_utf8` errors) is not modelled.

The string literals of the code are written out as byte lists below; `RpgpProps/C16.lean` proves
that each equals the literal re-extracted from the source on every run (`Gen.csf*`).
-/
namespace Rpgp

/-! ## literals -/

/-- `"-----"` (`read_cleartext_body`: `out.starts_with("-----")`; armor `armor_header_sep`) -/
def fiveDashes : Bytes := [DASH, DASH, DASH, DASH, DASH]
/-- `"\n-----"` (`read_cleartext_body`: `out.rfind("\n-----")`) -/
def bodyEndPat : Bytes := LF :: fiveDashes
/-- `HEADER_LINE = "-----BEGIN PGP SIGNED MESSAGE-----"` -/
def csfHeaderLine : Bytes :=
  [45, 45, 45, 45, 45, 66, 69, 71, 73, 78, 32, 80, 71, 80, 32, 83, 73, 71, 78, 69, 68, 32, 77, 69,
   83, 83, 65, 71, 69, 45, 45, 45, 45, 45]
/-- `"Hash: "` (`to_armored_writer`; `hash_header_line`: `tag("Hash: ")`) -/
def hashTag : Bytes := [72, 97, 115, 104, 58, 32]
def COMMA : Byte := 44

/-! ## lines -/

/-- put `b` in front of the first line -/
def consHead (b : Byte) : List Bytes → List Bytes
  | [] => [[b]]
  | l :: ls => (b :: l) :: ls

/-- `str::split_inclusive('\n')`: every piece but possibly the last ends with LF; no piece is
empty; the pieces concatenate to the input.  (Also the successive results of
`BufRead::read_line`.) -/
def splitInclusive : Bytes → List Bytes
  | [] => []
  | b :: r => if b = LF then [LF] :: splitInclusive r else consHead b (splitInclusive r)

/-! ## `dash_escape` -/

/-- body of the `for line in text.split_inclusive('\n')` loop of `dash_escape`:
`if line.starts_with('-') { out += "- " }; out.push_str(line)` -/
def escLine (l : Bytes) : Bytes :=
  match l with
  | [] => []
  | b :: r => if b = DASH then DASH :: SP :: b :: r else b :: r

/-- `dash_escape(text)` -/
def dashEscape (t : Bytes) : Bytes := ((splitInclusive t).map escLine).flatten

/-! ## `dash_unescape_and_trim` -/

/-- "break each line into content and line ending": `(content, end)` with
`end ∈ {"\r\n", "\n", ""}` (`line_end_len` 2 / 1 / 0, `line.split_at(len - line_end_len)`). -/
def splitEnd : Bytes → Bytes × Bytes
  | [] => ([], [])
  | [a] => if a = LF then ([], [LF]) else ([a], [])
  | [a, b] =>
    if a = CR ∧ b = LF then ([], [CR, LF])
    else if b = LF then ([a], [LF])
    else ([a, b], [])
  | a :: b :: c :: r =>
    let p := splitEnd (b :: c :: r)
    (a :: p.1, p.2)

/-- `content.strip_prefix("- ").unwrap_or(content)` -/
def stripDashSp : Bytes → Bytes
  | a :: b :: r => if a = DASH ∧ b = SP then r else a :: b :: r
  | l => l

def isBlank (b : Byte) : Bool := b == SP || b == TAB

/-- `undashed.trim_end_matches([' ', '\t'])` -/
def trimEnd : Bytes → Bytes
  | [] => []
  | b :: r =>
    match trimEnd r with
    | [] => if isBlank b then [] else [b]
    | x :: xs => b :: x :: xs

/-- one iteration of the loop of `dash_unescape_and_trim` -/
def utLine (l : Bytes) : Bytes :=
  let p := splitEnd l
  trimEnd (stripDashSp p.1) ++ p.2

/-- `dash_unescape_and_trim(text)` -/
def unescapeTrim (t : Bytes) : Bytes := ((splitInclusive t).map utLine).flatten

/-! ## specification-level functions (what the RFC asks for, stated separately)

`unescape`: remove one `"- "` at the start of each line.
`trimLines`: remove trailing SP/TAB of each line's content (the part before `\r\n`, `\n` or the
end of the text).  `RFC 9580 §7.2`: "any trailing whitespace — spaces (0x20) and tabs (0x09) —
at the end of any line is removed when the cleartext signature is generated". -/

def unescape (t : Bytes) : Bytes := ((splitInclusive t).map stripDashSp).flatten

def trimLine (l : Bytes) : Bytes :=
  let p := splitEnd l
  trimEnd p.1 ++ p.2

def trimLines (t : Bytes) : Bytes := ((splitInclusive t).map trimLine).flatten

/-! ## `signed_text` and what is hashed -/

/-- `CleartextSignedMessage::signed_text`:
`normalize_lines(&dash_unescape_and_trim(&self.csf_encoded_text), Crlf)` -/
def signedText (csf : Bytes) : Bytes := replaceNewlines CRLF (unescapeTrim csf)

/-- digest input of `CleartextSignedMessage::new`:
`NormalizedReader::new(dash_unescape_and_trim(&dash_escape(text)), Crlf)` copied (`io::copy`, in
the chunks `chunk` cuts it into) into the text-mode `SignatureHasher`. -/
def signInputNew (chunk : Bytes → List Bytes) (t : Bytes) : Bytes :=
  hashedText (chunk (normalizedRead Gen.normalizedReaderWindow (unescapeTrim (dashEscape t))))

/-- what `new_many` hands to its `signer` callback:
`normalize_lines(&dash_unescape_and_trim(&dash_escape(text)), Crlf)` -/
def signInputMany (t : Bytes) : Bytes := replaceNewlines CRLF (unescapeTrim (dashEscape t))

/-- digest input of `verify` / `verify_many`: `signature.verify(key, signed_text().as_bytes())`
with a text signature reads `signed_text()` through `NormalizedReader::new(data, Crlf)` and copies
that into the hash (`Signature::verify`, `hash_data_to_sign`). -/
def verifyInput (csf : Bytes) : Bytes :=
  normalizedRead Gen.normalizedReaderWindow (signedText csf)

/-! ## `read_cleartext_body` -/

/-- `str::rfind(pat)`: byte index of the last occurrence -/
def findLast (pat : Bytes) : Bytes → Option Nat
  | [] => if pat.isPrefixOf [] then some 0 else none
  | b :: r =>
    match findLast pat r with
    | some i => some (i + 1)
    | none => if pat.isPrefixOf (b :: r) then some 0 else none

/-- `s.ends_with("\r\n")` -/
def endsCRLF : Bytes → Bool
  | [] => false
  | [_] => false
  | [a, b] => a == CR && b == LF
  | _ :: b :: c :: r => endsCRLF (b :: c :: r)

/-- "remove trailing line break": `out.truncate(out.len() - 2)` if `out.ends_with("\r\n")`,
else `out.truncate(out.len() - 1)` -/
def stripLineBreak (o : Bytes) : Bytes :=
  if endsCRLF o then o.take (o.length - Gen.csfStripCrLf) else o.take (o.length - Gen.csfStripLf)

/-- the `loop { b.read_line(&mut out) … }` of `read_cleartext_body` over the successive
`read_line` results.  `none` = "unexpected early end"; `some (text, prefix, unread lines)`. -/
def readBodyLoop (out : Bytes) : List Bytes → Option (Bytes × Bytes × List Bytes)
  | [] => none
  | l :: ls =>
    let out' := out ++ l
    -- "Empty CSF message body"
    if fiveDashes.isPrefixOf out' then some ([], out', ls)
    else
      -- "Look for header start in the last line"
      match findLast bodyEndPat out' with
      | some pos => some (stripLineBreak (out'.take (pos + 1)), out'.drop (pos + 1), ls)
      | none => readBodyLoop out' ls

/-- the loop as repaired (D19c): `search_from = out.len().saturating_sub(1)` is taken before
`read_line`, and the pattern is looked for in `out[search_from..]` only — the line break in front
of the line just read, and that line.  (`RpgpProofs/CleartextIncr.lean`: on the successive results of
`read_line` this is the same function as `readBodyLoop`, which the rest of the model keeps using.) -/
def readBodyLoopIncr (out : Bytes) : List Bytes → Option (Bytes × Bytes × List Bytes)
  | [] => none
  | l :: ls =>
    let searchFrom := out.length - 1
    let out' := out ++ l
    if fiveDashes.isPrefixOf out' then some ([], out', ls)
    else
      match (findLast bodyEndPat (out'.drop searchFrom)).map (· + searchFrom) with
      | some pos => some (stripLineBreak (out'.take (pos + 1)), out'.drop (pos + 1), ls)
      | none => readBodyLoopIncr out' ls

/-- octets the `rfind` of one run of the loop looks at, summed over the run: the whole text read so
far after every line (before the repair) … -/
def searchWorkFull (out : Bytes) : List Bytes → Nat
  | [] => 0
  | l :: ls => (out ++ l).length + searchWorkFull (out ++ l) ls

/-- … or the line just read and the line break in front of it (repaired) -/
def searchWorkIncr (out : Bytes) : List Bytes → Nat
  | [] => 0
  | l :: ls => ((out ++ l).drop (out.length - 1)).length + searchWorkIncr (out ++ l) ls

/-- `read_cleartext_body(b)` followed by `Cursor::new(prefix).chain(b)`:
`(csf_encoded_text, everything that is left for the signature dearmor)` -/
def readBodyLines (ls : List Bytes) : Option (Bytes × Bytes) :=
  (readBodyLoop [] ls).map fun r => (r.1, r.2.1 ++ r.2.2.flatten)

/-- the same through the loop the tree has (the translator reports which one that is) -/
def readBodyLinesCur (ls : List Bytes) : Option (Bytes × Bytes) :=
  ((if Gen.fixD19cCleartextSearchLastLineOnly = 1 then readBodyLoopIncr [] ls else readBodyLoop [] ls)).map
    fun r => (r.1, r.2.1 ++ r.2.2.flatten)

def readCleartextBody (inp : Bytes) : Option (Bytes × Bytes) := readBodyLines (splitInclusive inp)

/-! ## header section (`armor/reader.rs`, cleartext type) and `validate_headers` -/

/-- `HashAlgorithm` display names (`to_armored_writer`: `hash.to_string()`), by id -/
def hashName (id : Nat) : Option Bytes :=
  if id = Gen.hashIdNone then some [78, 79, 78, 69]
  else if id = Gen.hashIdMd5 then some [77, 68, 53]
  else if id = Gen.hashIdSha1 then some [83, 72, 65, 49]
  else if id = Gen.hashIdRipemd160 then some [82, 73, 80, 69, 77, 68, 49, 54, 48]
  else if id = Gen.hashIdSha256 then some [83, 72, 65, 50, 53, 54]
  else if id = Gen.hashIdSha384 then some [83, 72, 65, 51, 56, 52]
  else if id = Gen.hashIdSha512 then some [83, 72, 65, 53, 49, 50]
  else if id = Gen.hashIdSha224 then some [83, 72, 65, 50, 50, 52]
  else if id = Gen.hashIdSha3_256 then some [83, 72, 65, 51, 45, 50, 53, 54]
  else if id = Gen.hashIdSha3_512 then some [83, 72, 65, 51, 45, 53, 49, 50]
  else if id = Gen.hashIdPrivate10 then some [80, 114, 105, 118, 97, 116, 101, 49, 48]
  else none

/-- ASCII `to_lowercase` -/
def lowerByte (b : Byte) : Byte := if 65 ≤ b.toNat ∧ b.toNat ≤ 90 then (b.toNat + 32).toUInt8 else b

/-- `HashAlgorithm::from_str` (`match s.to_lowercase().as_str()`) -/
def hashOfName (n : Bytes) : Option Nat :=
  let l := n.map lowerByte
  if l = [110, 111, 110, 101] then some Gen.hashIdNone
  else if l = [109, 100, 53] then some Gen.hashIdMd5
  else if l = [115, 104, 97, 49] then some Gen.hashIdSha1
  else if l = [114, 105, 112, 101, 109, 100, 49, 54, 48] then some Gen.hashIdRipemd160
  else if l = [115, 104, 97, 50, 53, 54] then some Gen.hashIdSha256
  else if l = [115, 104, 97, 51, 56, 52] then some Gen.hashIdSha384
  else if l = [115, 104, 97, 53, 49, 50] then some Gen.hashIdSha512
  else if l = [115, 104, 97, 50, 50, 52] then some Gen.hashIdSha224
  else if l = [115, 104, 97, 51, 45, 50, 53, 54] then some Gen.hashIdSha3_256
  else if l = [115, 104, 97, 51, 45, 53, 49, 50] then some Gen.hashIdSha3_512
  else if l = [112, 114, 105, 118, 97, 116, 101, 49, 48] then some Gen.hashIdPrivate10
  else none

/-- `alphanumeric1_or_dash` item predicate: `is_alphanum() || '-'` -/
def isAlnumDash (b : Byte) : Bool :=
  (48 ≤ b.toNat && b.toNat ≤ 57) || (65 ≤ b.toNat && b.toNat ≤ 90) ||
  (97 ≤ b.toNat && b.toNat ≤ 122) || b == DASH

/-- split on a separator byte (pieces may be empty) -/
def splitOnByte (sep : Byte) : Bytes → List Bytes
  | [] => [[]]
  | b :: r =>
    match splitOnByte sep r with
    | [] => [[]]   -- unreachable
    | l :: ls => if b = sep then [] :: l :: ls else (b :: l) :: ls

/-- nom `line_ending` at the end of a `read_line` piece: content before `\n` or `\r\n`;
`none` when the piece does not end with LF (end of input: the streaming parser is incomplete) -/
def lineContent (l : Bytes) : Option Bytes :=
  let p := splitEnd l
  if p.2 = [] then none else some p.1

/-- `hash_header_line`: `"Hash: " v ("," v)* line_ending`, every `v` a non-empty
`alphanumeric1_or_dash` span -/
def hashHeaderLine (l : Bytes) : Option (List Bytes) :=
  if hashTag.isPrefixOf l then
    match lineContent (l.drop hashTag.length) with
    | none => none
    | some c =>
      let vals := splitOnByte COMMA c
      if vals.all (fun v => !v.isEmpty && v.all isAlnumDash) then some vals else none
  else none

/-- "A blank (zero length or containing only whitespace) line": `pair(space0, line_ending)` -/
def isBlankLine (l : Bytes) : Bool :=
  match lineContent l with
  | none => false
  | some c => c.all isBlank

/-- `armor_headers_hash` (`many0(complete(hash_header_line))`) then the blank line: returns the
`Hash` values and the unread lines -/
def readHashHeaders : List Bytes → Option (List Bytes × List Bytes)
  | [] => none
  | l :: ls =>
    match hashHeaderLine l with
    | some vs => (readHashHeaders ls).map fun r => (vs ++ r.1, r.2)
    | none => if isBlankLine l then some ([], ls) else none

/-- `validate_headers`: every value must name a hash algorithm (the only header name the
cleartext header parser produces is `Hash`) -/
def validateHeaders (vals : List Bytes) : Option (List Nat) := vals.mapM hashOfName

/-- `CleartextSignedMessage::from_armor_buf` up to the signature block:
`(hashes, csf_encoded_text, input left for the signature dearmor)`.
`none` = any error before the signature block is reached. -/
def readDoc (doc : Bytes) : Option (List Nat × Bytes × Bytes) :=
  match splitInclusive doc with
  | [] => none
  | h :: ls =>
    -- no leading data; `armor_header_line` must give `BlockType::CleartextMessage`
    if lineContent h = some csfHeaderLine then
      match readHashHeaders ls with
      | none => none
      | some (vals, body) =>
        match validateHeaders vals with
        | none => none
        | some hs => (readBodyLines body).map fun r => (hs, r.1, r.2)
    else none

/-- `to_armored_writer` with the armored signature block `sig` (written by `armor::write`) -/
def writeDoc (hashNames : List Bytes) (csf sig : Bytes) : Bytes :=
  csfHeaderLine ++ [LF] ++ (hashNames.map fun n => hashTag ++ n ++ [LF]).flatten ++ [LF] ++
    csf ++ (if endsCR csf then [CR, LF] else [LF]) ++ sig

/-! ## the message type over abstract signature primitives -/

/-- signature primitives, as parameters: `sign k d` signs digest input `d` (the bytes the
text-mode hasher hands to the hash function, before salt/trailer framing which is C11's
subject); `verify k d s` checks it. -/
structure SigPrims (Key Sig : Type) where
  sign : Key → Bytes → Sig
  verify : Key → Bytes → Sig → Bool

/-- correctness law of the primitive (a hypothesis of the theorems that use it, never an axiom) -/
def VerifySign {Key Sig : Type} (P : SigPrims Key Sig) : Prop :=
  ∀ k d, P.verify k d (P.sign k d) = true

/-- binding assumption of the primitive (what unforgeability gives for an honest signature): a
signature made over `d` verifies over no other digest input -/
def Binds {Key Sig : Type} (P : SigPrims Key Sig) : Prop :=
  ∀ k d d', d ≠ d' → P.verify k d' (P.sign k d) = false

/-- toy primitives that satisfy both laws (non-vacuity of the hypotheses; witnesses) -/
def toy : SigPrims Unit Bytes := { sign := fun _ d => d, verify := fun _ d s => d == s }

/-- `CleartextSignedMessage` -/
structure Csm (Sig : Type) where
  csf : Bytes
  hashes : List Nat
  sigs : List Sig

variable {Key Sig : Type}

/-- `CleartextSignedMessage::new` (and `sign`, which only builds the config) -/
def Csm.new (P : SigPrims Key Sig) (chunk : Bytes → List Bytes) (hash : Nat) (k : Key)
    (t : Bytes) : Csm Sig :=
  { csf := dashEscape t, hashes := [hash], sigs := [P.sign k (signInputNew chunk t)] }

/-- `CleartextSignedMessage::new_many` with a signer that makes one text-mode signature per key
over the string it is given -/
def Csm.newMany (P : SigPrims Key Sig) (chunk : Bytes → List Bytes) (ks : List (Nat × Key))
    (t : Bytes) : Csm Sig :=
  { csf := dashEscape t, hashes := ks.map (·.1),
    sigs := ks.map fun k => P.sign k.2 (hashedText (chunk (signInputMany t))) }

/-- `CleartextSignedMessage::verify` -/
def Csm.verify (P : SigPrims Key Sig) (m : Csm Sig) (k : Key) : Bool :=
  m.sigs.any fun s => P.verify k (verifyInput m.csf) s

/-- `to_armored_string → from_string` on the text part: what `text()` returns afterwards
(`armorSig` is the armored signature block, which starts with a `-----BEGIN` line) -/
def Csm.reparsedText (m : Csm Sig) (names : List Bytes) (armorSig : Bytes) : Option Bytes :=
  (readDoc (writeDoc names m.csf armorSig)).map (·.2.1)

end Rpgp
