//! C13 — fingerprints and key ids are the RFC-defined hashes and are stable.
//!
//! Correspondence ops (model: RpgpModel/Fingerprint.lean, driver: RpgpModel/Ops/C13.lean).  The
//! driver never hashes: `pubkey` returns the *pre-image*, compared byte for byte with what the
//! real `imprint()` feeds to its digest (observed through a recording `KnownDigest`); ops that
//! sit behind the digest take `digest=` = RustCrypto hash of that recorded pre-image.
//!   pubkey strict=<0|1> body=<hex> digest=<hex>   wire body of a key packet (tags 6/14: strict=0,
//!                                                 tags 5/7: strict=1) -> version, pre-image, key id
//!   pubkey_pat ver= created= alg= seed= len=      opaque material (bodies >= 64 KiB)
//!   keyid ver= fp=                                key-id rule on a digest / v3 modulus
//!   mpi_ser raw= / mpi_parse data=                types/mpi.rs
//!   issuer_fp / issuer_kid / issuer_fp_parse / issuer_kid_parse   subpackets as written / read
//!   sign_issuers body= digest=                    issuers found in fresh signatures of that key
//!   match_sig kids= fps= kid= fp=                 Signature::verify's identity test
//!   rcpt_ser / rcpt_parse / rcpt_for / match_pkesk   PKESK recipient field
//!
//! Oracles (written from the property text only, no model involved):
//!   fp_is_rfc_hash        fingerprint = MD5(n||e) / SHA1(99 len16 body) / SHA256(9B len32 body),
//!                         body = the key's own serialized public-key packet body
//!   fp_over_wire_body     same over the octets found on the wire, whenever they are canonical
//!   keyid_is_fp_bits      key id = low 64 bits (v4) / high 64 bits (v6) / low 64 bits of n (v3)
//!   secret_public_reparsed_same   secret key, public half, re-parsed copies, Signed* wrappers
//!   leading_zero_same_fp  padded MPI encodings of a key have the fingerprint of the key
//!   embedded_issuer       issuer fingerprint / key id / OPS fields of fresh signatures
//!   embedded_recipient    PKESK v3 key id / v6 fingerprint of fresh messages, match_identity

use std::cell::RefCell;
use std::io::Read;

use digest::Digest;
use pgp::composed::{
    CleartextSignedMessage, Deserializable, DetachedSignature, EncryptionCaps, Esk, KeyType, Message, MessageBuilder,
    SecretKeyParamsBuilder, SignedPublicKey, SignedSecretKey, SubkeyParamsBuilder,
};
use pgp::crypto::ecc_curve::ECCCurve;
use pgp::crypto::hash::{HashAlgorithm, KnownDigest};
use pgp::crypto::sym::SymmetricKeyAlgorithm;
use pgp::packet::{
    PacketHeader, PacketParser, PacketTrait, PublicKey, PublicKeyEncryptedSessionKey, PublicSubkey, SecretKey,
    SecretSubkey, Signature, SignatureConfig, SignatureType, Subpacket, SubpacketData,
};
use pgp::ser::Serialize;
use pgp::types::{
    Fingerprint, Imprint, KeyDetails, KeyId, KeyVersion, Mpi, PacketLength, Password, PublicParams, SigningKey, Tag,
    Timestamp, VerifyingKey,
};
use rand::{Rng, SeedableRng};
use rand_chacha::ChaCha8Rng;

use crate::ctx::{guarded, hx, hx_list, Ctx};
use crate::frame::{cksum, pattern};

// ---------------------------------------------------------------------------------------------
// recording digest: what `imprint()` hashes
// ---------------------------------------------------------------------------------------------

thread_local! {
    static SEEN: RefCell<Vec<u8>> = const { RefCell::new(Vec::new()) };
}

#[derive(Clone, Default)]
pub struct Rec;

impl digest::HashMarker for Rec {}
impl digest::OutputSizeUser for Rec {
    type OutputSize = digest::typenum::U32;
}
impl digest::Update for Rec {
    fn update(&mut self, data: &[u8]) {
        SEEN.with(|s| s.borrow_mut().extend_from_slice(data));
    }
}
impl digest::FixedOutput for Rec {
    fn finalize_into(self, out: &mut digest::Output<Self>) {
        out.fill(0);
    }
}
impl KnownDigest for Rec {
    const HASH_ALGORITHM: HashAlgorithm = HashAlgorithm::Sha256;
}

/// the octets the key's `imprint()` feeds to its digest
fn recorded_preimage<K: Imprint>(k: &K) -> Option<Vec<u8>> {
    SEEN.with(|s| s.borrow_mut().clear());
    let r = guarded(|| k.imprint::<Rec>().is_ok());
    let v = SEEN.with(|s| std::mem::take(&mut *s.borrow_mut()));
    match r {
        Ok(true) => Some(v),
        _ => None,
    }
}

fn md5(d: &[u8]) -> Vec<u8> {
    md5::Md5::digest(d).to_vec()
}
fn sha1(d: &[u8]) -> Vec<u8> {
    sha1::Sha1::digest(d).to_vec()
}
fn sha256(d: &[u8]) -> Vec<u8> {
    sha2::Sha256::digest(d).to_vec()
}

fn ver_num(v: KeyVersion) -> u8 {
    u8::from(v)
}

fn digest_for(ver: u8, pre: &[u8]) -> Vec<u8> {
    match ver {
        2 | 3 => md5(pre),
        4 => sha1(pre),
        _ => sha256(pre),
    }
}

fn fp_str(fp: &Fingerprint) -> String {
    let v = fp.version().map(ver_num).unwrap_or(0);
    format!("{}:{}", v, hx(fp.as_bytes()))
}

// ---------------------------------------------------------------------------------------------
// one key packet, however obtained
// ---------------------------------------------------------------------------------------------

/// a parsed key packet of any of the four kinds
enum AnyKey {
    Pub(PublicKey),
    Sub(PublicSubkey),
    Sec(SecretKey),
    SecSub(SecretSubkey),
}

impl AnyKey {
    fn parse(tag: Tag, body: &[u8]) -> Option<AnyKey> {
        let header = PacketHeader::from_parts(
            pgp::types::PacketHeaderVersion::New,
            tag,
            PacketLength::Fixed(body.len() as u32),
        )
        .ok()?;
        let r = guarded(|| match tag {
            Tag::PublicKey => PublicKey::try_from_reader(header, body).ok().map(AnyKey::Pub),
            Tag::PublicSubkey => PublicSubkey::try_from_reader(header, body).ok().map(AnyKey::Sub),
            Tag::SecretKey => SecretKey::try_from_reader(header, body).ok().map(AnyKey::Sec),
            Tag::SecretSubkey => SecretSubkey::try_from_reader(header, body).ok().map(AnyKey::SecSub),
            _ => None,
        });
        r.ok().flatten()
    }
    fn is_secret(&self) -> bool {
        matches!(self, AnyKey::Sec(_) | AnyKey::SecSub(_))
    }
    fn fingerprint(&self) -> Option<Fingerprint> {
        guarded(|| match self {
            AnyKey::Pub(k) => k.fingerprint(),
            AnyKey::Sub(k) => k.fingerprint(),
            AnyKey::Sec(k) => k.fingerprint(),
            AnyKey::SecSub(k) => k.fingerprint(),
        })
        .ok()
    }
    fn key_id(&self) -> Option<KeyId> {
        guarded(|| match self {
            AnyKey::Pub(k) => k.legacy_key_id(),
            AnyKey::Sub(k) => k.legacy_key_id(),
            AnyKey::Sec(k) => k.legacy_key_id(),
            AnyKey::SecSub(k) => k.legacy_key_id(),
        })
        .ok()
    }
    fn version(&self) -> KeyVersion {
        match self {
            AnyKey::Pub(k) => k.version(),
            AnyKey::Sub(k) => k.version(),
            AnyKey::Sec(k) => k.version(),
            AnyKey::SecSub(k) => k.version(),
        }
    }
    fn alg(&self) -> u8 {
        u8::from(match self {
            AnyKey::Pub(k) => k.algorithm(),
            AnyKey::Sub(k) => k.algorithm(),
            AnyKey::Sec(k) => k.algorithm(),
            AnyKey::SecSub(k) => k.algorithm(),
        })
    }
    fn params(&self) -> &PublicParams {
        match self {
            AnyKey::Pub(k) => k.public_params(),
            AnyKey::Sub(k) => k.public_params(),
            AnyKey::Sec(k) => k.public_params(),
            AnyKey::SecSub(k) => k.public_params(),
        }
    }
    fn preimage(&self) -> Option<Vec<u8>> {
        match self {
            AnyKey::Pub(k) => recorded_preimage(k),
            AnyKey::Sub(k) => recorded_preimage(k),
            AnyKey::Sec(k) => recorded_preimage(k),
            AnyKey::SecSub(k) => recorded_preimage(k),
        }
    }
    /// serialized body of the *public* packet of this key
    fn public_body(&self) -> Option<Vec<u8>> {
        guarded(|| match self {
            AnyKey::Pub(k) => k.to_bytes().ok(),
            AnyKey::Sub(k) => k.to_bytes().ok(),
            AnyKey::Sec(k) => k.public_key().to_bytes().ok(),
            AnyKey::SecSub(k) => k.public_key().to_bytes().ok(),
        })
        .ok()
        .flatten()
    }
    /// serialized body of this very packet (secret packets include the secret part)
    fn own_body(&self) -> Option<Vec<u8>> {
        guarded(|| match self {
            AnyKey::Pub(k) => k.to_bytes().ok(),
            AnyKey::Sub(k) => k.to_bytes().ok(),
            AnyKey::Sec(k) => k.to_bytes().ok(),
            AnyKey::SecSub(k) => k.to_bytes().ok(),
        })
        .ok()
        .flatten()
    }
    fn tag(&self) -> Tag {
        match self {
            AnyKey::Pub(_) => Tag::PublicKey,
            AnyKey::Sub(_) => Tag::PublicSubkey,
            AnyKey::Sec(_) => Tag::SecretKey,
            AnyKey::SecSub(_) => Tag::SecretSubkey,
        }
    }
    fn public_tag(&self) -> Tag {
        match self {
            AnyKey::Pub(_) | AnyKey::Sec(_) => Tag::PublicKey,
            _ => Tag::PublicSubkey,
        }
    }
}

/// RFC 9580 section 5.5.4, from the text: fingerprint of a key whose public packet body is `body`
/// (v3: MD5 over the MPI *values* n, e taken from the RSA key itself).
fn rfc_fingerprint(ver: u8, body: &[u8], params: &PublicParams) -> Option<Vec<u8>> {
    match ver {
        2 | 3 => {
            let PublicParams::RSA(p) = params else { return None };
            use rsa::traits::PublicKeyParts;
            let mut d = p.key.n().to_bytes_be();
            d.extend_from_slice(&p.key.e().to_bytes_be());
            Some(md5(&d))
        }
        4 => {
            if body.len() > 0xFFFF {
                return None; // two-octet length: not defined by the RFC
            }
            let mut d = vec![0x99];
            d.extend_from_slice(&(body.len() as u16).to_be_bytes());
            d.extend_from_slice(body);
            Some(sha1(&d))
        }
        6 => {
            let mut d = vec![0x9B];
            d.extend_from_slice(&(body.len() as u32).to_be_bytes());
            d.extend_from_slice(body);
            Some(sha256(&d))
        }
        _ => None,
    }
}

/// RFC 9580 section 5.5.4: key id from the fingerprint (v3: from the modulus)
fn rfc_key_id(ver: u8, fp: &[u8], params: &PublicParams) -> Option<Vec<u8>> {
    match ver {
        2 | 3 => {
            let PublicParams::RSA(p) = params else { return None };
            use rsa::traits::PublicKeyParts;
            let n = p.key.n().to_bytes_be();
            let mut padded = vec![0u8; 8usize.saturating_sub(n.len())];
            padded.extend_from_slice(&n);
            Some(padded[padded.len() - 8..].to_vec())
        }
        4 => Some(fp[fp.len() - 8..].to_vec()),
        6 => Some(fp[..8].to_vec()),
        _ => None,
    }
}

struct Seen {
    /// (request, answer) of `pubkey` cases already emitted, keyed by wire body
    bodies: std::collections::HashSet<Vec<u8>>,
}

/// everything the property says about one key packet found on the wire
fn check_key_packet(ctx: &mut Ctx, seen: &mut Seen, tag: Tag, wire: &[u8], origin: &str) -> Option<AnyKey> {
    let key = AnyKey::parse(tag, wire)?;
    let strict = if key.is_secret() { 1 } else { 0 };
    let ver = ver_num(key.version());
    let fresh = seen.bodies.insert(wire.to_vec());
    if !fresh {
        ctx.stat("key:duplicate_body");
        return Some(key);
    }
    ctx.stat(&format!("key:{origin}:v{ver}:alg{}:{}", key.alg(), if strict == 1 { "sec" } else { "pub" }));
    let input = format!("tag={} body={}", u8::from(tag), hx(wire));
    let (Some(fp), Some(kid)) = (key.fingerprint(), key.key_id()) else {
        ctx.oracle("fp_is_rfc_hash", "KeyDetails::fingerprint/legacy_key_id", &input, false, "panicked");
        return Some(key);
    };
    let Some(pre) = key.preimage() else {
        ctx.oracle("fp_is_rfc_hash", "Imprint::imprint", &input, false, "imprint failed");
        return Some(key);
    };
    let digest = digest_for(ver, &pre);
    // ---- correspondence: model parses the same wire octets
    ctx.case(
        format!("pubkey strict={strict} body={} digest={}", hx(wire), hx(&digest)),
        format!("ok:{ver}:{}:{}", hx(&pre), hx(kid.as_ref())),
    );
    ctx.case(format!("keyid ver={} fp={}", if ver == 2 { 3 } else { ver }, hx(if ver <= 3 { n_of(key.params()) } else { digest.clone() }.as_slice())),
             format!("ok:{}", hx(kid.as_ref())));
    // the recording digest sees the same code path as fingerprint(): check that too
    ctx.oracle("fp_is_hash_of_imprint", "PubKeyInner::fingerprint vs imprint", &input, fp.as_bytes() == digest.as_slice(),
               &format!("fingerprint {} hash(imprint pre-image) {}", hx(fp.as_bytes()), hx(&digest)));

    // ---- oracle: the RFC definition over the key's own serialized public body
    let Some(pub_body) = key.public_body() else {
        ctx.oracle("fp_is_rfc_hash", "Serialize for PublicKey", &input, false, "public body does not serialize");
        return Some(key);
    };
    if pub_body.len() > 255 {
        ctx.stat("key:body_gt_255");
    }
    match rfc_fingerprint(ver, &pub_body, key.params()) {
        Some(want) => {
            let ok = fp.as_bytes() == want.as_slice() && fp.version().map(ver_num) == Some(ver);
            ctx.oracle("fp_is_rfc_hash", "KeyDetails::fingerprint", &input, ok,
                       &format!("reported {} RFC {}", fp_str(&fp), hx(&want)));
            if let Some(wk) = rfc_key_id(ver, &want, key.params()) {
                ctx.oracle("keyid_is_fp_bits", "KeyDetails::legacy_key_id", &input, kid.as_ref() == wk.as_slice(),
                           &format!("reported {} RFC {}", hx(kid.as_ref()), hx(&wk)));
            }
        }
        None => ctx.stat("key:rfc_undefined(len>65535 or non-RSA v3)"),
    }
    // ---- oracle: over the octets on the wire, when they are what the library would write
    let wire_pub = if key.is_secret() { wire.get(..pub_body.len()).unwrap_or(&[]) } else { wire };
    if origin == "synthetic-canonical" {
        // bodies built here in the one form the RFC allows (no MPI with leading zeros, minimal
        // OID arcs): the fingerprint is the hash of the key AS PUBLISHED, and writing it back
        // changes nothing
        ctx.oracle("canonical_wire_kept", "Serialize for PublicKey (after parse)", &input, wire_pub == pub_body.as_slice(),
                   &format!("written back as {}", hx(&pub_body)));
        if let Some(want) = rfc_fingerprint(ver, wire, key.params()) {
            ctx.oracle("fp_over_wire_body", "KeyDetails::fingerprint", &input, fp.as_bytes() == want.as_slice(),
                       &format!("reported {} RFC over wire {}", fp_str(&fp), hx(&want)));
        }
    }
    if wire_pub == pub_body.as_slice() {
        ctx.stat("key:wire_canonical");
        if let Some(want) = rfc_fingerprint(ver, wire_pub, key.params()) {
            ctx.oracle("fp_over_wire_body", "KeyDetails::fingerprint", &input, fp.as_bytes() == want.as_slice(),
                       &format!("reported {} RFC over wire {}", fp_str(&fp), hx(&want)));
        }
    } else {
        ctx.stat("key:wire_noncanonical");
        if origin == "fixture" {
            let d = wire_pub.iter().zip(pub_body.iter()).position(|(a, b)| a != b).unwrap_or(wire_pub.len().min(pub_body.len()));
            ctx.stat(&format!("fixture_noncanonical:v{ver}:alg{}:{}:wire_len{}_ser_len{}_first_diff{}", key.alg(), if strict == 1 { "sec" } else { "pub" }, wire_pub.len(), pub_body.len(), d));
        }
    }
    // ---- oracle: identical for the secret key, its public half and any re-parsed copy
    let mut same = true;
    let mut detail = String::new();
    let mut cmp = |what: &str, k: Option<AnyKey>| match k {
        Some(k2) => {
            if k2.fingerprint().as_ref() != Some(&fp) || k2.key_id().as_ref() != Some(&kid) {
                same = false;
                detail.push_str(&format!("{what}: {:?}/{:?}; ", k2.fingerprint(), k2.key_id()));
            }
        }
        None => {
            same = false;
            detail.push_str(&format!("{what}: does not re-parse; "));
        }
    };
    cmp("public half re-parsed", AnyKey::parse(key.public_tag(), &pub_body));
    if let Some(own) = key.own_body() {
        cmp("own packet re-parsed", AnyKey::parse(key.tag(), &own));
    } else {
        same = false;
        detail.push_str("own packet does not serialize; ");
    }
    match &key {
        AnyKey::Sec(k) => {
            let p = k.public_key();
            if p.fingerprint() != fp || p.legacy_key_id() != kid {
                same = false;
                detail.push_str("SecretKey::public_key differs; ");
            }
        }
        AnyKey::SecSub(k) => {
            let p = k.public_key();
            if p.fingerprint() != fp || p.legacy_key_id() != kid {
                same = false;
                detail.push_str("SecretSubkey::public_key differs; ");
            }
        }
        _ => {}
    }
    ctx.oracle("secret_public_reparsed_same", "fingerprint/legacy_key_id across secret, public, re-parsed", &input, same, &detail);
    Some(key)
}

fn n_of(p: &PublicParams) -> Vec<u8> {
    use rsa::traits::PublicKeyParts;
    match p {
        PublicParams::RSA(p) => p.key.n().to_bytes_be(),
        _ => vec![],
    }
}

/// split a binary OpenPGP stream into (tag, body) with the crate's own packet reader
fn packets_of(data: &[u8]) -> Vec<(Tag, Vec<u8>)> {
    let mut out = Vec::new();
    let r = guarded(|| {
        let mut v = Vec::new();
        let mut src: &[u8] = data;
        let mut parser = PacketParser::new(&mut src);
        loop {
            match parser.next_ref() {
                None => break,
                Some(Err(_)) => break,
                Some(Ok(mut body)) => {
                    let tag = body.packet_header().tag();
                    let mut b = Vec::new();
                    if body.read_to_end(&mut b).is_err() {
                        break;
                    }
                    v.push((tag, b));
                }
            }
        }
        v
    });
    if let Ok(v) = r {
        out = v;
    }
    out
}

/// binary content of a file: as is, or every armored block in it
fn binary_blocks(raw: &[u8]) -> Vec<Vec<u8>> {
    let text = String::from_utf8_lossy(raw);
    if !text.contains("-----BEGIN PGP") {
        return vec![raw.to_vec()];
    }
    let mut out = Vec::new();
    let mut pos = 0;
    while let Some(off) = text[pos..].find("-----BEGIN PGP") {
        let start = pos + off;
        let chunk = &text[start..];
        if chunk.starts_with("-----BEGIN PGP SIGNED MESSAGE") {
            pos = start + 10;
            continue;
        }
        let r = guarded(|| {
            let mut d = pgp::armor::Dearmor::new(std::io::BufReader::new(chunk.as_bytes()));
            let mut v = Vec::new();
            let _ = d.read_to_end(&mut v);
            v
        });
        if let Ok(v) = r {
            if !v.is_empty() {
                out.push(v);
            }
        }
        pos = start + 10;
    }
    out
}

fn is_key_tag(t: Tag) -> bool {
    matches!(t, Tag::PublicKey | Tag::PublicSubkey | Tag::SecretKey | Tag::SecretSubkey)
}

fn walk(dir: &std::path::Path, out: &mut Vec<std::path::PathBuf>) {
    let Ok(rd) = std::fs::read_dir(dir) else { return };
    let mut es: Vec<_> = rd.filter_map(|e| e.ok()).map(|e| e.path()).collect();
    es.sort();
    for p in es {
        if p.is_dir() {
            walk(&p, out);
        } else {
            out.push(p);
        }
    }
}

// ---------------------------------------------------------------------------------------------
// leading-zero MPI encodings
// ---------------------------------------------------------------------------------------------

/// offsets (start, end) of every MPI inside the algorithm-specific part of a public key body, for
/// the algorithms whose layout is a known sequence of MPIs / OID + MPI.  Generator logic only.
fn mpi_spans(alg: u8, mat: &[u8]) -> Option<Vec<(usize, usize)>> {
    let mut spans = Vec::new();
    let mut pos = 0usize;
    let mut one = |pos: &mut usize| -> Option<()> {
        let bits = u16::from_be_bytes([*mat.get(*pos)?, *mat.get(*pos + 1)?]) as usize;
        let n = (bits + 7) / 8;
        if *pos + 2 + n > mat.len() {
            return None;
        }
        spans.push((*pos, *pos + 2 + n));
        *pos += 2 + n;
        Some(())
    };
    match alg {
        1 | 2 | 3 => {
            one(&mut pos)?;
            one(&mut pos)?;
        }
        17 => {
            for _ in 0..4 {
                one(&mut pos)?;
            }
        }
        16 | 20 => {
            for _ in 0..3 {
                one(&mut pos)?;
            }
        }
        18 | 19 | 22 => {
            let l = *mat.first()? as usize;
            pos = 1 + l;
            one(&mut pos)?;
        }
        _ => return None,
    }
    Some(spans)
}

/// re-encode the public body with `pad` extra zero octets in front of MPI number `which`
/// (bit count raised accordingly, or left as it is when `keep_bits`: then the last `pad` octets of
/// the value would be cut off, so that variant is only used with pad = 0 and a *larger* bit count).
fn pad_mpi(body: &[u8], which: usize, pad: usize, bits_slack: usize) -> Option<Vec<u8>> {
    let ver = *body.first()?;
    let (alg_pos, mat_pos) = match ver {
        2 | 3 => (7, 8),
        4 => (5, 6),
        6 => (5, 10),
        _ => return None,
    };
    let alg = *body.get(alg_pos)?;
    let mat = body.get(mat_pos..)?;
    let spans = mpi_spans(alg, mat)?;
    let (s, e) = *spans.get(which)?;
    let bits = u16::from_be_bytes([mat[s], mat[s + 1]]) as usize;
    let value = &mat[s + 2..e];
    // declared bit count: value bits rounded up to whole octets, plus 8 per padding octet, minus slack
    let new_bits = value.len() * 8 + pad * 8 - bits_slack.min(7);
    if new_bits > 0xFFFF || (pad == 0 && new_bits == bits) {
        return None;
    }
    let mut m = Vec::new();
    m.extend_from_slice(&mat[..s]);
    m.extend_from_slice(&(new_bits as u16).to_be_bytes());
    m.extend(std::iter::repeat(0u8).take(pad));
    m.extend_from_slice(value);
    m.extend_from_slice(&mat[e..]);
    let mut out = body[..mat_pos].to_vec();
    if ver == 6 {
        let l = m.len() as u32;
        out[6..10].copy_from_slice(&l.to_be_bytes());
    }
    out.extend_from_slice(&m);
    Some(out)
}

fn leading_zero_variants(ctx: &mut Ctx, seen: &mut Seen, key: &AnyKey, origin: &str) {
    if key.is_secret() {
        return;
    }
    let (Some(body), Some(fp), Some(kid)) = (key.public_body(), key.fingerprint(), key.key_id()) else { return };
    for which in 0..4 {
        for (pad, slack) in [(1usize, 0usize), (2, 0), (1, 3), (0, 0), (3, 7)] {
            let Some(v) = pad_mpi(&body, which, pad, slack) else { continue };
            if seen.bodies.contains(&v) {
                continue;
            }
            let input = format!("tag={} body={} (mpi {which} pad {pad} slack {slack} of {})", u8::from(key.tag()), hx(&v), hx(&body));
            match check_key_packet(ctx, seen, key.tag(), &v, &format!("{origin}+lz")) {
                Some(k2) => {
                    let ok = k2.fingerprint().as_ref() == Some(&fp) && k2.key_id().as_ref() == Some(&kid);
                    ctx.oracle("leading_zero_same_fp", "public_key_parser + Mpi::try_from_reader + fingerprint", &input, ok,
                               &format!("padded {:?} original {}", k2.fingerprint(), fp_str(&fp)));
                    ctx.stat("lz:accepted");
                }
                None => {
                    // the real parser refused the padded encoding (e.g. size limits): both sides
                    // must refuse or the model must at least not be compared; record it
                    ctx.stat("lz:rejected_by_parser");
                }
            }
        }
    }
}

// ---------------------------------------------------------------------------------------------
// signatures and PKESKs
// ---------------------------------------------------------------------------------------------

fn issuers_answer(sig: &Signature) -> String {
    let kids: Vec<Vec<u8>> = sig.issuer_key_id().iter().map(|k| k.as_ref().to_vec()).collect();
    let fps: Vec<String> = sig.issuer_fingerprint().iter().map(|f| fp_str(f)).collect();
    format!("ok:kids={};fps={}", hx_list(&kids), if fps.is_empty() { "-".to_string() } else { fps.join(",") })
}

/// the property's sentence about issuers, on one fresh signature made by `signer`
fn check_fresh_signature<K: KeyDetails + Imprint + Serialize>(ctx: &mut Ctx, sig: &Signature, signer: &K, how: &str) {
    let fp = signer.fingerprint();
    let kid = signer.legacy_key_id();
    let ver = ver_num(signer.version());
    let fps = sig.issuer_fingerprint();
    let kids = sig.issuer_key_id();
    let input = format!("{how} signer={} sig={}", fp_str(&fp), sig.to_bytes().map(|b| hx(&b)).unwrap_or_default());
    let ok = !fps.is_empty()
        && fps.iter().all(|f| **f == fp)
        && kids.iter().all(|k| **k == kid)
        && (ver > 4 || !kids.is_empty());
    ctx.oracle("embedded_issuer", how, &input, ok, &format!("issuer fps {:?} kids {:?} signer {} {}", fps, kids, fp_str(&fp), hx(kid.as_ref())));
    // correspondence: the model's signIssuers for this key
    if let (Ok(body), Some(pre)) = (signer.to_bytes(), recorded_preimage(signer)) {
        let digest = digest_for(ver, &pre);
        ctx.case(format!("sign_issuers body={} digest={}", hx(&body), hx(&digest)), issuers_answer(sig));
    }
    ctx.stat(&format!("sig:{how}:v{ver}"));
}

/// `Signature::verify`'s identity test, observed through its error text
fn observed_match(sig: &Signature, key: &impl VerifyingKey, data: &[u8]) -> Option<bool> {
    let r = guarded(|| sig.verify(key, data));
    match r {
        Ok(Ok(())) => Some(true),
        Ok(Err(e)) => {
            let s = e.to_string();
            if s.contains("No matching issuer") {
                Some(false)
            } else if s.contains("not allowed") {
                None // version alignment is tested before the identity
            } else {
                Some(true)
            }
        }
        Err(_) => None,
    }
}

fn match_sig_case(ctx: &mut Ctx, sig: &Signature, key: &(impl VerifyingKey + KeyDetails), data: &[u8]) {
    let Some(m) = observed_match(sig, key, data) else {
        ctx.stat("match_sig:not_observable");
        return;
    };
    let kids: Vec<Vec<u8>> = sig.issuer_key_id().iter().map(|k| k.as_ref().to_vec()).collect();
    let fps: Vec<String> = sig.issuer_fingerprint().iter().map(|f| fp_str(f)).collect();
    ctx.case(
        format!(
            "match_sig kids={} fps={} kid={} fp={}",
            hx_list(&kids),
            if fps.is_empty() { "-".to_string() } else { fps.join(",") },
            hx(key.legacy_key_id().as_ref()),
            fp_str(&key.fingerprint())
        ),
        format!("ok:{}", if m { 1 } else { 0 }),
    );
    ctx.stat(&format!("match_sig:{}", if m { "match" } else { "nomatch" }));
}

fn rc_str(p: &PublicKeyEncryptedSessionKey) -> String {
    match p {
        PublicKeyEncryptedSessionKey::V3 { id, .. } => format!("3:{}", hx(id.as_ref())),
        PublicKeyEncryptedSessionKey::V6 { fingerprint: None, .. } => "6:anon".to_string(),
        PublicKeyEncryptedSessionKey::V6 { fingerprint: Some(f), .. } => format!("6:{}", fp_str(f)),
        PublicKeyEncryptedSessionKey::Other { version, .. } => format!("other:{version}"),
    }
}

fn pkesks_of(msg: &[u8]) -> Vec<PublicKeyEncryptedSessionKey> {
    let mut out = Vec::new();
    for (tag, body) in packets_of(msg) {
        if tag == Tag::PublicKeyEncryptedSessionKey {
            if let Some(p) = parse_pkesk(&body) {
                out.push(p);
            }
        }
    }
    out
}

fn parse_pkesk(body: &[u8]) -> Option<PublicKeyEncryptedSessionKey> {
    let header = PacketHeader::from_parts(
        pgp::types::PacketHeaderVersion::New,
        Tag::PublicKeyEncryptedSessionKey,
        PacketLength::Fixed(body.len() as u32),
    )
    .ok()?;
    guarded(|| PublicKeyEncryptedSessionKey::try_from_reader(header, body).ok()).ok().flatten()
}

/// length of version octet + recipient field of a serialized PKESK body
fn rcpt_len(body: &[u8]) -> usize {
    match body.first() {
        Some(3) => 9,
        Some(6) => 2 + *body.get(1).unwrap_or(&0) as usize,
        _ => 1,
    }
}

// ---------------------------------------------------------------------------------------------

struct GenKey {
    name: String,
    sec: SignedSecretKey,
    public: SignedPublicKey,
}

fn generate(ctx: &mut Ctx, version: KeyVersion, primary: KeyType, sub: Option<KeyType>, name: &str) -> Option<GenKey> {
    let seed: u64 = ctx.rng.gen();
    let r = guarded(|| {
        let mut rng = ChaCha8Rng::seed_from_u64(seed);
        let mut b = SecretKeyParamsBuilder::default();
        b.version(version).key_type(primary).can_certify(true).can_sign(true).primary_user_id("c13 <c13@example.org>".into());
        if let Some(sk) = sub {
            if name.ends_with("+signsub") {
                b.subkey(SubkeyParamsBuilder::default().version(version).key_type(sk).can_sign(true).build().ok()?);
            } else {
                b.subkey(SubkeyParamsBuilder::default().version(version).key_type(sk).can_encrypt(EncryptionCaps::All).build().ok()?);
            }
        }
        let params = b.build().ok()?;
        params.generate(&mut rng).ok()
    });
    match r {
        Ok(Some(sec)) => {
            let public = sec.to_public_key();
            ctx.stat(&format!("generated:{name}"));
            Some(GenKey { name: name.to_string(), sec, public })
        }
        _ => {
            ctx.stat(&format!("generate_failed:{name}"));
            ctx.note(&format!("key generation failed for {name}"));
            None
        }
    }
}

fn key_plan(thorough: bool) -> Vec<(KeyVersion, KeyType, Option<KeyType>, String)> {
    use pgp::composed::DsaKeySize;
    let mut v: Vec<(KeyVersion, KeyType, Option<KeyType>, String)> = Vec::new();
    for ver in [KeyVersion::V4, KeyVersion::V6] {
        let vn = ver_num(ver);
        v.push((ver, KeyType::Ed25519, Some(KeyType::X25519), format!("v{vn}-ed25519+x25519")));
        v.push((ver, KeyType::Ed448, Some(KeyType::X448), format!("v{vn}-ed448+x448")));
        v.push((ver, KeyType::ECDSA(ECCCurve::P256), Some(KeyType::ECDH(ECCCurve::P256)), format!("v{vn}-p256")));
        v.push((ver, KeyType::ECDSA(ECCCurve::P384), Some(KeyType::ECDH(ECCCurve::P384)), format!("v{vn}-p384")));
        v.push((ver, KeyType::ECDSA(ECCCurve::P521), Some(KeyType::ECDH(ECCCurve::P521)), format!("v{vn}-p521")));
        v.push((ver, KeyType::ECDSA(ECCCurve::Secp256k1), None, format!("v{vn}-secp256k1")));
        v.push((ver, KeyType::Rsa(2048), Some(KeyType::Rsa(2048)), format!("v{vn}-rsa2048")));
        v.push((ver, KeyType::Dsa(DsaKeySize::B1024), None, format!("v{vn}-dsa1024")));
        if thorough {
            v.push((ver, KeyType::Rsa(3072), Some(KeyType::Rsa(2048)), format!("v{vn}-rsa3072")));
            v.push((ver, KeyType::Dsa(DsaKeySize::B2048), None, format!("v{vn}-dsa2048")));
        }
    }
    v.push((KeyVersion::V4, KeyType::Ed25519Legacy, Some(KeyType::ECDH(ECCCurve::Curve25519Legacy)), "v4-ed25519legacy+cv25519".to_string()));
    v.push((KeyVersion::V4, KeyType::Ed25519Legacy, Some(KeyType::Ed25519Legacy), "v4-ed25519legacy+signsub".to_string()));
    v.push((KeyVersion::V6, KeyType::Ed25519, Some(KeyType::ECDSA(ECCCurve::P256)), "v6-ed25519+signsub".to_string()));
    v
}

pub fn run(ctx: &mut Ctx) {
    let mut seen = Seen { bodies: std::collections::HashSet::new() };
    let repo = std::env::var("VERIF_REPO").unwrap_or_else(|_| "/repo".to_string());

    // ---- 1. every key packet in every fixture file ------------------------------------------
    let mut files = Vec::new();
    walk(std::path::Path::new(&format!("{repo}/tests")), &mut files);
    let mut fixture_keys: Vec<AnyKey> = Vec::new();
    for f in &files {
        let ext = f.extension().and_then(|e| e.to_str()).unwrap_or("");
        if !matches!(ext, "asc" | "pgp" | "key" | "gpg" | "sec" | "pub" | "priv" | "cert") {
            continue;
        }
        let Ok(raw) = std::fs::read(f) else { continue };
        if raw.len() > 4_000_000 {
            continue;
        }
        ctx.stat("fixture:files_read");
        let mut any = false;
        for bin in binary_blocks(&raw) {
            for (tag, body) in packets_of(&bin) {
                if !is_key_tag(tag) {
                    continue;
                }
                match check_key_packet(ctx, &mut seen, tag, &body, "fixture") {
                    Some(k) => {
                        any = true;
                        fixture_keys.push(k);
                    }
                    None => ctx.stat("fixture:key_packet_rejected_by_parser"),
                }
            }
            // composed level: Signed*Key report the primary's identity
            let r = guarded(|| {
                let mut v: Vec<(Fingerprint, KeyId, Fingerprint, KeyId)> = Vec::new();
                if let Ok(it) = SignedPublicKey::from_bytes_many(&bin[..]) {
                    for k in it.flatten() {
                        v.push((k.fingerprint(), k.legacy_key_id(), k.primary_key.fingerprint(), k.primary_key.legacy_key_id()));
                        for s in &k.public_subkeys {
                            v.push((s.fingerprint(), s.legacy_key_id(), s.key.fingerprint(), s.key.legacy_key_id()));
                        }
                    }
                }
                if let Ok(it) = SignedSecretKey::from_bytes_many(&bin[..]) {
                    for k in it.flatten() {
                        v.push((k.fingerprint(), k.legacy_key_id(), k.primary_key.fingerprint(), k.primary_key.legacy_key_id()));
                        let p = k.to_public_key();
                        v.push((p.fingerprint(), p.legacy_key_id(), k.primary_key.fingerprint(), k.primary_key.legacy_key_id()));
                        for s in &k.secret_subkeys {
                            v.push((s.fingerprint(), s.legacy_key_id(), s.key.public_key().fingerprint(), s.key.public_key().legacy_key_id()));
                        }
                    }
                }
                v
            });
            if let Ok(v) = r {
                for (a, b, c, d) in v {
                    ctx.oracle("secret_public_reparsed_same", "Signed*Key::fingerprint/legacy_key_id vs packet",
                               &format!("file={}", f.display()), a == c && b == d, &format!("{a:?}/{b:?} vs {c:?}/{d:?}"));
                    ctx.stat("fixture:signed_key_wrappers");
                }
            }
        }
        if any {
            ctx.stat("fixture:files_with_keys");
        }
    }

    // ---- 2. freshly generated keys of every algorithm, both versions --------------------------
    let mut gens: Vec<GenKey> = Vec::new();
    let rounds = ctx.pick(2, 10);
    for round in 0..rounds {
        for (ver, primary, sub, name) in key_plan(ctx.thorough() && round < 2) {
            // slow generators only in the first round
            if round > 0 && (name.contains("rsa") || name.contains("dsa")) && round % 4 != 0 {
                continue;
            }
            if let Some(g) = generate(ctx, ver, primary, sub, &name) {
                gens.push(g);
            }
        }
    }
    let mut gen_packets: Vec<AnyKey> = Vec::new();
    for g in &gens {
        for (what, bytes) in [("sec", g.sec.to_bytes()), ("pub", g.public.to_bytes())] {
            let Ok(bytes) = bytes else {
                ctx.oracle("secret_public_reparsed_same", "Serialize for Signed*Key", &g.name, false, "does not serialize");
                continue;
            };
            let mut ids: Vec<(Fingerprint, KeyId)> = Vec::new();
            for (tag, body) in packets_of(&bytes) {
                if !is_key_tag(tag) {
                    continue;
                }
                match check_key_packet(ctx, &mut seen, tag, &body, "generated") {
                    Some(k) => {
                        if let (Some(f), Some(i)) = (k.fingerprint(), k.key_id()) {
                            ids.push((f, i));
                        }
                        gen_packets.push(k);
                    }
                    None => ctx.oracle("secret_public_reparsed_same", "key packet parser", &format!("{} {what} body={}", g.name, hx(&body)), false,
                                       "generated key packet does not re-parse"),
                }
            }
            // the serialized copy lists the same identities as the in-memory key
            let mut want = vec![(g.sec.fingerprint(), g.sec.legacy_key_id())];
            for s in &g.sec.secret_subkeys {
                want.push((s.fingerprint(), s.legacy_key_id()));
            }
            ctx.oracle("secret_public_reparsed_same", "generated key vs serialized packets", &format!("{} {what}", g.name), ids == want,
                       &format!("{ids:?} vs {want:?}"));
        }
    }

    // ---- 3. leading-zero MPI encodings of all those keys --------------------------------------
    let lz_budget = ctx.pick(60, 100000);
    let mut n_lz = 0;
    let all_keys: Vec<&AnyKey> = gen_packets.iter().chain(fixture_keys.iter()).collect();
    let mut per_alg: std::collections::BTreeMap<(u8, u8), usize> = Default::default();
    for k in all_keys {
        if k.is_secret() {
            continue;
        }
        let slot = per_alg.entry((ver_num(k.version()), k.alg())).or_insert(0);
        if *slot >= ctx.pick(3, 1000) || n_lz >= lz_budget {
            continue;
        }
        *slot += 1;
        n_lz += 1;
        leading_zero_variants(ctx, &mut seen, k, "variant");
    }

    // ---- 3b. observation only (no oracle, no correspondence): other non-canonical encodings the
    //          parser accepts and silently re-encodes (the fingerprint is then that of the
    //          re-encoded key, i.e. stable, but not the hash of the octets received)
    for k in gen_packets.iter() {
        if k.is_secret() {
            continue;
        }
        let (Some(body), Some(fp)) = (k.public_body(), k.fingerprint()) else { continue };
        let ver = ver_num(k.version());
        let mat_pos = if ver == 6 { 10 } else { 6 };
        let mut variants: Vec<(&str, Vec<u8>)> = Vec::new();
        match (k.alg(), k.params()) {
            (18, PublicParams::ECDH(pgp::types::EcdhPublicParams::Curve25519Legacy { .. })) => {
                // native point prefix 0x40 -> 0x41 (same bit count)
                let oid_len = body[mat_pos] as usize;
                let p = mat_pos + 1 + oid_len + 2;
                if body.get(p) == Some(&0x40) {
                    let mut v = body.clone();
                    v[p] = 0x41;
                    variants.push(("cv25519_prefix_0x41", v));
                }
            }
            (19, PublicParams::ECDSA(pgp::types::EcdsaPublicParams::P256 { .. })) => {
                // SEC1 compressed point instead of the uncompressed one
                let oid_len = body[mat_pos] as usize;
                let p = mat_pos + 1 + oid_len;
                if body.len() == p + 2 + 65 && body[p + 2] == 4 {
                    let x = &body[p + 3..p + 35];
                    let y_odd = body[p + 66] & 1;
                    let mut v = body[..p].to_vec();
                    v.extend_from_slice(&(8u16 * 33 - 6).to_be_bytes());
                    v.push(2 + y_odd);
                    v.extend_from_slice(x);
                    if ver == 6 {
                        let l = (v.len() - 10) as u32;
                        v[6..10].copy_from_slice(&l.to_be_bytes());
                    }
                    variants.push(("p256_compressed_point", v));
                }
            }
            _ => {}
        }
        for (what, v) in variants {
            match AnyKey::parse(Tag::PublicKey, &v) {
                Some(k2) => {
                    let same = k2.fingerprint().as_ref() == Some(&fp);
                    ctx.stat(&format!("noncanonical_observed:{what}:accepted:fp_{}", if same { "of_reencoded_key" } else { "differs" }));
                    ctx.note(&format!("observation: {what} is accepted by the key parser and re-encoded; its fingerprint is that of the re-encoded key (stable, but not the hash of the received octets)"));
                }
                None => ctx.stat(&format!("noncanonical_observed:{what}:rejected")),
            }
        }
    }

    // ---- 4. bodies of 64 KiB and more (opaque material of an unknown algorithm) ---------------
    for (i, (ver, len)) in [(4u8, 300usize), (4, 65529), (4, 65530), (4, 65531), (4, 70000), (4, 131072 + 5), (6, 300), (6, 65536), (6, 70000)]
        .into_iter()
        .enumerate()
    {
        let alg = 100u8 + (i as u8 % 3);
        let created = 0x5000_0000u32 + i as u32;
        let mat = pattern(900 + i, len);
        let mut body = vec![ver];
        body.extend_from_slice(&created.to_be_bytes());
        body.push(alg);
        if ver == 6 {
            body.extend_from_slice(&(len as u32).to_be_bytes());
        }
        body.extend_from_slice(&mat);
        let Some(k) = AnyKey::parse(Tag::PublicKey, &body) else {
            ctx.stat("big:rejected");
            continue;
        };
        let (Some(pre), Some(fp)) = (k.preimage(), k.fingerprint()) else { continue };
        ctx.case(format!("pubkey_pat ver={ver} created={created} alg={alg} seed={} len={len}", 900 + i), format!("ok:{}", cksum(&pre)));
        let input = format!("ver={ver} alg={alg} created={created} material=pattern({},{len})", 900 + i);
        ctx.oracle("fp_is_hash_of_imprint", "PubKeyInner::fingerprint vs imprint", &input, fp.as_bytes() == digest_for(ver, &pre).as_slice(), "");
        match rfc_fingerprint(ver, &body, k.params()) {
            Some(want) => ctx.oracle("fp_is_rfc_hash", "KeyDetails::fingerprint (opaque material)", &input, fp.as_bytes() == want.as_slice(),
                                     &format!("reported {} RFC {}", fp_str(&fp), hx(&want))),
            None => {
                // RFC 9580 defines a two-octet length; what the code does instead is fixed by the model
                // (`as u16`): low 16 bits, then the whole body
                let mut d = vec![0x99];
                d.extend_from_slice(&((body.len() & 0xFFFF) as u16).to_be_bytes());
                d.extend_from_slice(&body);
                ctx.stat(&format!("big:v4_len_wraps:{}", fp.as_bytes() == sha1(&d).as_slice()));
            }
        }
        ctx.stat(&format!("big:v{ver}:{len}"));
    }

    // ---- 5. MPI codec ---------------------------------------------------------------------------
    let mut raws: Vec<Vec<u8>> = vec![vec![], vec![0], vec![0, 0], vec![0, 0, 1], vec![0, 0x80], vec![0xFF], vec![1], vec![0, 0, 0]];
    for first in [1u8, 2, 3, 4, 7, 8, 15, 16, 31, 32, 63, 64, 127, 128, 255] {
        for len in [1usize, 2, 32, 255, 256, 2047, 2048, 2049] {
            for zeros in [0usize, 1, 3] {
                let mut v = vec![0u8; zeros];
                v.push(first);
                v.extend(pattern(first as usize, len - 1));
                raws.push(v);
            }
        }
    }
    // bit counts that no longer fit 16 bits: `size as u16`
    for len in [8191usize, 8192, 8193, 16384] {
        let mut v = vec![0x80u8];
        v.extend(pattern(len, len - 1));
        raws.push(v);
        let mut v = vec![0x01u8];
        v.extend(pattern(len + 1, len - 1));
        raws.push(v);
    }
    for raw in &raws {
        let r = guarded(|| Mpi::from_slice(raw).to_bytes().ok());
        let ans = match r {
            Ok(Some(b)) => format!("ok:{}", hx(&b)),
            Ok(None) => "err".to_string(),
            Err(_) => "panic".to_string(),
        };
        ctx.case(format!("mpi_ser raw={}", hx(raw)), ans);
    }
    let n_parse = ctx.pick(600, 6000);
    for i in 0..n_parse {
        let data: Vec<u8> = match i % 6 {
            0 => crate::gen::random_bytes(&mut ctx.rng, i % 9),
            1 => {
                // well formed, with trailing octets
                let n = ctx.rng.gen_range(0..40usize);
                let mut v = Mpi::from_slice(&crate::gen::random_bytes(&mut ctx.rng, n)).to_bytes().unwrap_or_default();
                let t = ctx.rng.gen_range(0..4);
                v.extend(crate::gen::random_bytes(&mut ctx.rng, t));
                v
            }
            2 => {
                // declared bits vs available octets around the boundary
                let bits = [0u16, 1, 7, 8, 9, 15, 16, 17, 16383, 16384, 16385, 65535][ctx.rng.gen_range(0..12)];
                let n = ((bits as usize + 7) / 8).min(2100);
                let avail = n.saturating_sub(ctx.rng.gen_range(0..3)) + ctx.rng.gen_range(0..3);
                let mut v = bits.to_be_bytes().to_vec();
                v.extend(pattern(i, avail));
                v
            }
            3 => {
                // leading zero octets inside the value
                let z = ctx.rng.gen_range(1..5usize);
                let n = ctx.rng.gen_range(0..6usize);
                let mut v = (((z + n) * 8) as u16).to_be_bytes().to_vec();
                v.extend(std::iter::repeat(0u8).take(z));
                v.extend(crate::gen::random_bytes(&mut ctx.rng, n));
                v
            }
            4 => {
                // all-zero values
                let z = ctx.rng.gen_range(0..6usize);
                let mut v = ((z * 8) as u16).to_be_bytes().to_vec();
                v.extend(std::iter::repeat(0u8).take(z + 1));
                v
            }
            _ => {
                let bits = ctx.rng.gen_range(0..80u16);
                let mut v = bits.to_be_bytes().to_vec();
                let n = ctx.rng.gen_range(0..14usize);
                v.extend(crate::gen::random_bytes(&mut ctx.rng, n));
                v
            }
        };
        let r = guarded(|| {
            let mut src: &[u8] = &data;
            match Mpi::try_from_reader(&mut src) {
                Ok(m) => Some((m.as_ref().to_vec(), src.len())),
                Err(_) => None,
            }
        });
        let ans = match r {
            Ok(Some((b, rest))) => format!("ok:{}:{}", hx(&b), rest),
            Ok(None) => "err".to_string(),
            Err(_) => "panic".to_string(),
        };
        ctx.case(format!("mpi_parse data={}", hx(&data)), ans);
    }

    // ---- 6. truncated / mutated key bodies (syntax only: Elgamal and opaque material have no
    //         cryptographic admission test, RSA/DSA/ECC only where the real parser accepts) -------
    let mut syn: Vec<Vec<u8>> = Vec::new();
    for ver in [4u8, 6, 3] {
        for alg in [16u8, 20, 100] {
            let n_mpi = if alg == 100 { 0 } else { 3 };
            for variant in 0..ctx.pick(6, 40) {
                let mut mat = Vec::new();
                for j in 0..n_mpi {
                    let z = if variant % 2 == 1 && j == variant % 3 { 1 + variant % 3 } else { 0 };
                    let n = ctx.rng.gen_range(0..20usize);
                    let val = crate::gen::random_bytes(&mut ctx.rng, n);
                    let mut m = (((z + n) * 8) as u16).to_be_bytes().to_vec();
                    m.extend(std::iter::repeat(0u8).take(z));
                    m.extend(val);
                    mat.extend(m);
                }
                if alg == 100 {
                    mat = pattern(variant, 1 + variant * 7);
                }
                let mut body = vec![ver];
                body.extend_from_slice(&(0x4000_0000u32 + variant as u32).to_be_bytes());
                if ver == 3 {
                    body.extend_from_slice(&[0, 30]);
                }
                body.push(alg);
                if ver == 6 {
                    let declared = match variant % 5 {
                        3 => mat.len() + 2,
                        4 => mat.len().saturating_sub(1),
                        _ => mat.len(),
                    };
                    body.extend_from_slice(&(declared as u32).to_be_bytes());
                }
                body.extend_from_slice(&mat);
                syn.push(body.clone());
                // every truncation of the first few
                if variant < 2 {
                    for cut in 0..body.len() {
                        syn.push(body[..cut].to_vec());
                    }
                }
            }
        }
    }
    // version/algorithm admission (`PubKeyInner::new`): v4 bodies of generated keys re-labelled v6 / v3
    for k in gen_packets.iter() {
        if k.is_secret() || ver_num(k.version()) != 4 || !matches!(k.alg(), 18 | 19 | 22 | 27) {
            continue;
        }
        let Some(body) = k.public_body() else { continue };
        let mut b6 = vec![6u8];
        b6.extend_from_slice(&body[1..6]);
        b6.extend_from_slice(&((body.len() - 6) as u32).to_be_bytes());
        b6.extend_from_slice(&body[6..]);
        syn.push(b6);
        let mut b3 = vec![3u8];
        b3.extend_from_slice(&body[1..5]);
        b3.extend_from_slice(&[0, 0]);
        b3.extend_from_slice(&body[5..]);
        syn.push(b3);
    }
    // RSA with very short moduli (key id of a v3 key = low 64 bits of n, left-padded)
    for ver in [2u8, 3, 4] {
        for nlen in 1..=9usize {
            let mut n = pattern(nlen + ver as usize, nlen);
            n[0] |= 0x81;
            n[nlen - 1] |= 1;
            let mut b = vec![ver];
            b.extend_from_slice(&(0x3000_0000u32 + nlen as u32).to_be_bytes());
            if ver < 4 {
                b.extend_from_slice(&[0, 0]);
            }
            b.push(1);
            b.extend_from_slice(&((nlen * 8) as u16).to_be_bytes());
            b.extend_from_slice(&n);
            b.extend_from_slice(&[0, 17, 1, 0, 1]);
            syn.push(b);
        }
    }
    // canonical bodies the generator and the fixtures never contain: curves the library has no name
    // for, with OID arcs whose base-128 form has zero groups inside; native public keys with every
    // bit pattern in the top octet
    let mut canon: Vec<Vec<u8>> = Vec::new();
    for oid in [
        vec![0x2bu8, 0x06, 0x01, 0x04, 0x01, 0x81, 0x80, 0x01, 0x01], // 1.3.6.1.4.1.16385.1
        vec![0x2b, 0x81, 0x80, 0x00, 0x05],                          // arc 16384 then 5
        vec![0x2b, 0x06, 0xc0, 0x80, 0x80, 0x01],                    // arc with two zero groups
        vec![0x2b, 0x06, 0x01, 0x87, 0x80, 0x7f],
        vec![0x2a, 0x03, 0x04],
    ] {
        for (alg, tail) in [(19u8, vec![]), (22, vec![]), (18, vec![0x03, 0x01, 0x08, 0x07])] {
            let mut b = vec![4u8, 0x60, 0x00, 0x00, 0x01, alg, oid.len() as u8];
            b.extend_from_slice(&oid);
            // an uncompressed-point-shaped MPI: 0x04 followed by 64 octets (515 bits)
            b.extend_from_slice(&[0x02, 0x03, 0x04]);
            b.extend_from_slice(&pattern(oid.len() + alg as usize, 64));
            b.extend_from_slice(&tail);
            canon.push(b);
        }
    }
    for (alg, n) in [(25u8, 32usize), (27, 32), (26, 56), (28, 57)] {
        for top in [0x00u8, 0x7f, 0x80, 0xff, 0x01] {
            for ver in [4u8, 6] {
                let mut key = pattern(alg as usize + top as usize, n);
                key[n - 1] = top;
                key[0] |= 1;
                let mut b = vec![ver, 0x60, 0x00, 0x00, 0x02, alg];
                if ver == 6 {
                    b.extend_from_slice(&(n as u32).to_be_bytes());
                }
                b.extend_from_slice(&key);
                canon.push(b);
            }
        }
    }
    // elliptic-curve keys over curves the library knows by name but does not implement (brainpool),
    // the RFC 8410 OIDs and arbitrary OIDs: the fingerprint is the hash of the packet as it was read
    {
        let oids: Vec<Vec<u8>> = vec![
            vec![0x2B, 0x24, 0x03, 0x03, 0x02, 0x08, 0x01, 0x01, 0x07],
            vec![0x2B, 0x24, 0x03, 0x03, 0x02, 0x08, 0x01, 0x01, 0x0B],
            vec![0x2B, 0x24, 0x03, 0x03, 0x02, 0x08, 0x01, 0x01, 0x0D],
            vec![0x2B, 0x65, 0x6E],
            vec![0x2B, 0x65, 0x70],
            vec![0x2B, 0x81, 0x04, 0x00, 0x21],
            pattern(9, 7),
        ];
        for (oi, oid) in oids.iter().enumerate() {
            for alg in [18u8, 19, 22] {
                for (pi, plen) in [64usize, 96, 128, 32].into_iter().enumerate() {
                    let mut pt = vec![if plen == 32 { 0x40 } else { 0x04 }];
                    pt.extend(pattern(oi * 7 + pi, plen));
                    let mut mat = vec![oid.len() as u8];
                    mat.extend_from_slice(oid);
                    mat.extend(crate::wire::mpi(&pt));
                    if alg == 18 {
                        mat.extend([3, 1, 8, 7]);
                    }
                    for ver in [4u8, 6] {
                        let mut b = vec![ver, 0x60, 0x00, 0x00, 0x03, alg];
                        if ver == 6 {
                            b.extend_from_slice(&(mat.len() as u32).to_be_bytes());
                        }
                        b.extend_from_slice(&mat);
                        canon.push(b);
                    }
                }
            }
        }
    }
    for body in canon {
        if seen.bodies.contains(&body) {
            continue;
        }
        for tag in [Tag::PublicKey, Tag::PublicSubkey] {
            if check_key_packet(ctx, &mut seen, tag, &body, "synthetic-canonical").is_none() {
                ctx.stat("synthetic_canonical:rejected");
            }
            seen.bodies.remove(&body);
        }
        seen.bodies.insert(body);
    }
    // unsupported versions
    for v in [0u8, 1, 2, 5, 7, 255] {
        let mut b = vec![v];
        b.extend_from_slice(&[0x40, 0, 0, 1, 0, 9, 1, 0, 9, 1, 0xFF, 0, 2, 3]);
        syn.push(b);
    }
    for body in syn {
        if seen.bodies.contains(&body) {
            continue;
        }
        // RSA material passes a cryptographic admission test (rsa crate) that the model does not
        // have: a rejection there is not comparable
        let alg_pos = if matches!(body.first(), Some(2) | Some(3)) { 7 } else { 5 };
        let syntactic = !matches!(body.get(alg_pos), Some(1) | Some(2) | Some(3));
        if check_key_packet(ctx, &mut seen, Tag::PublicKey, &body, "synthetic").is_none() {
            if syntactic {
                // the model must refuse it too
                ctx.case(format!("pubkey strict=0 body={} digest=-", hx(&body)), "err".to_string());
                ctx.stat("synthetic:rejected");
            } else {
                ctx.stat("synthetic:rsa_rejected_by_crypto_admission");
            }
        }
    }

    // the secret-key parser insists that the announced v6 material length is consumed exactly
    for k in gen_packets.iter() {
        if !k.is_secret() || ver_num(k.version()) != 6 {
            continue;
        }
        let Some(body) = k.own_body() else { continue };
        let declared = u32::from_be_bytes([body[6], body[7], body[8], body[9]]);
        for d in [declared + 1, declared - 1, declared + 2] {
            let mut b = body.clone();
            b[6..10].copy_from_slice(&d.to_be_bytes());
            if seen.bodies.contains(&b) {
                continue;
            }
            if check_key_packet(ctx, &mut seen, k.tag(), &b, "synthetic-sec").is_none() {
                ctx.case(format!("pubkey strict=1 body={} digest=-", hx(&b)), "err".to_string());
                ctx.stat("synthetic:secret_v6_window_rejected");
            }
        }
    }

    // ---- 7. identities embedded in fresh signatures ---------------------------------------------
    let data = b"C13 signed payload\r\nline two\n";
    for g in &gens {
        let key = &g.sec.primary_key;
        let seed: u64 = ctx.rng.gen();
        // self-signatures written during key generation (certifications, bindings, back signatures)
        for u in &g.sec.details.users {
            for s in &u.signatures {
                check_fresh_signature(ctx, s, key.public_key(), "SecretKeyParams::generate certification");
            }
        }
        for s in &g.sec.details.direct_signatures {
            check_fresh_signature(ctx, s, key.public_key(), "SecretKeyParams::generate direct");
        }
        for sk in &g.sec.secret_subkeys {
            for s in &sk.signatures {
                check_fresh_signature(ctx, s, key.public_key(), "SecretKeyParams::generate subkey binding");
                for emb in s.config().map(|c| c.subpackets().collect::<Vec<_>>()).unwrap_or_default() {
                    if let SubpacketData::EmbeddedSignature(e) = &emb.data {
                        check_fresh_signature(ctx, e, sk.key.public_key(), "embedded primary-key binding");
                    }
                }
            }
        }
        // detached
        let det = guarded(|| {
            let mut rng = ChaCha8Rng::seed_from_u64(seed);
            DetachedSignature::sign_binary_data(&mut rng, key, &Password::empty(), key.hash_alg(), &data[..]).ok()
        });
        let mut fresh: Vec<Signature> = Vec::new();
        match det {
            Ok(Some(d)) => {
                check_fresh_signature(ctx, &d.signature, key.public_key(), "DetachedSignature::sign_binary_data");
                fresh.push(d.signature);
            }
            _ => ctx.oracle("embedded_issuer", "DetachedSignature::sign_binary_data", &g.name, false, "signing failed"),
        }
        // cleartext
        let ct = guarded(|| {
            let rng = ChaCha8Rng::seed_from_u64(seed ^ 1);
            CleartextSignedMessage::sign(rng, "hello\n- dash\n", key, &Password::empty()).ok()
        });
        match ct {
            Ok(Some(m)) => {
                for s in m.signatures() {
                    check_fresh_signature(ctx, s, key.public_key(), "CleartextSignedMessage::sign");
                }
            }
            _ => ctx.oracle("embedded_issuer", "CleartextSignedMessage::sign", &g.name, false, "signing failed"),
        }
        // third-party certifications: the signer is a DIFFERENT key than the certified one; the issuer
        // fields must name the signer (every other key generated in this run is certified once)
        for (oi, other) in gens.iter().enumerate() {
            if std::ptr::eq(other, g) || (oi + (seed as usize)) % 3 != 0 {
                continue;
            }
            let signee = other.sec.primary_key.public_key();
            let uid = pgp::packet::UserId::from_str(pgp::types::PacketHeaderVersion::New, "third party <tp@example.org>");
            let r = guarded(|| {
                let mut rng = ChaCha8Rng::seed_from_u64(seed ^ 7);
                uid.ok()?.sign_third_party(&mut rng, key, &Password::empty(), signee, SignatureType::CertGeneric).ok()
            });
            match r {
                Ok(Some(su)) => {
                    for s in &su.signatures {
                        check_fresh_signature(ctx, s, key.public_key(), "UserId::sign_third_party");
                    }
                }
                _ => ctx.stat("sig:UserId::sign_third_party:refused"),
            }
            let r = guarded(|| {
                let mut rng = ChaCha8Rng::seed_from_u64(seed ^ 8);
                let attr = pgp::packet::UserAttribute::new_image(vec![0xFFu8, 0xD8, 0xFF, 0xD9].into()).ok()?;
                attr.sign_third_party(&mut rng, key, &Password::empty(), signee, SignatureType::CertGeneric).ok()
            });
            match r {
                Ok(Some(sa)) => {
                    for s in &sa.signatures {
                        check_fresh_signature(ctx, s, key.public_key(), "UserAttribute::sign_third_party");
                    }
                }
                _ => ctx.stat("sig:UserAttribute::sign_third_party:refused"),
            }
        }
        // inline: one-pass signature packet + signature
        let inline = guarded(|| {
            let mut rng = ChaCha8Rng::seed_from_u64(seed ^ 2);
            let mut b = MessageBuilder::from_bytes("", data.to_vec());
            b.sign(key, Password::empty(), key.hash_alg());
            b.to_vec(&mut rng).ok()
        });
        match inline {
            Ok(Some(bytes)) => {
                let fp = key.fingerprint();
                let kid = key.legacy_key_id();
                for (tag, body) in packets_of(&bytes) {
                    if tag == Tag::OnePassSignature {
                        // v3 OPS: ... key id (8) nested(1) at the end; v6 OPS: salt, then 32 octets fingerprint, nested
                        let ok = match body.first() {
                            Some(3) => body.len() >= 13 && body[body.len() - 9..body.len() - 1] == *kid.as_ref(),
                            Some(6) => body.len() >= 34 && body[body.len() - 33..body.len() - 1] == *fp.as_bytes(),
                            _ => false,
                        };
                        ctx.oracle("embedded_issuer", "MessageBuilder::sign one-pass signature packet", &format!("{} ops={}", g.name, hx(&body)), ok,
                                   &format!("signer {} {}", fp_str(&fp), hx(kid.as_ref())));
                    }
                    if tag == Tag::Signature {
                        let header = PacketHeader::from_parts(pgp::types::PacketHeaderVersion::New, Tag::Signature, PacketLength::Fixed(body.len() as u32));
                        if let Ok(h) = header {
                            if let Ok(Ok(s)) = guarded(|| Signature::try_from_reader(h, &body[..])) {
                                check_fresh_signature(ctx, &s, key.public_key(), "MessageBuilder::sign");
                            }
                        }
                    }
                }
            }
            _ => ctx.oracle("embedded_issuer", "MessageBuilder::sign", &g.name, false, "signing failed"),
        }
        // several distinct signers in one message: OPS #i names signer #i, and so does the signature it
        // is paired with (the trailing signatures come in reverse order)
        {
            let same_v: Vec<&GenKey> = gens.iter().filter(|o| o.sec.version() == g.sec.version()).collect();
            let me0 = same_v.iter().position(|o| std::ptr::eq(*o, g)).unwrap_or(0);
            if same_v.len() >= 3 && me0 % ctx.pick(5, 1) == 0 {
                let trio: Vec<&GenKey> = (0..3).map(|d| same_v[(me0 + d) % same_v.len()]).collect();
                let built = guarded(|| {
                    let mut rng = ChaCha8Rng::seed_from_u64(seed ^ 3);
                    let mut b = MessageBuilder::from_bytes("", data.to_vec());
                    for k in &trio {
                        b.sign(&k.sec.primary_key, Password::empty(), k.sec.primary_key.hash_alg());
                    }
                    b.to_vec(&mut rng).ok()
                });
                if let Ok(Some(bytes)) = built {
                    let pk = packets_of(&bytes);
                    let ops: Vec<&Vec<u8>> = pk.iter().filter(|(t, _)| *t == Tag::OnePassSignature).map(|(_, b)| b).collect();
                    let sigs: Vec<&Vec<u8>> = pk.iter().filter(|(t, _)| *t == Tag::Signature).map(|(_, b)| b).collect();
                    let input = format!("signers=[{}]", trio.iter().map(|k| fp_str(&k.sec.fingerprint())).collect::<Vec<_>>().join(","));
                    let mut ok = ops.len() == 3 && sigs.len() == 3;
                    let mut detail = format!("{} OPS, {} signatures", ops.len(), sigs.len());
                    for (i, body) in ops.iter().enumerate().take(3) {
                        let (fp, kid) = (trio[i].sec.fingerprint(), trio[i].sec.legacy_key_id());
                        let good = match body.first() {
                            Some(3) => body.len() >= 13 && body[body.len() - 9..body.len() - 1] == *kid.as_ref(),
                            Some(6) => body.len() >= 34 && body[body.len() - 33..body.len() - 1] == *fp.as_bytes(),
                            _ => false,
                        };
                        if !good {
                            ok = false;
                            detail.push_str(&format!("; OPS #{i} does not name signer #{i}: {}", hx(body)));
                        }
                        // the signature this OPS is paired with: position n-1-i
                        if let Some(sb) = sigs.get(2 - i) {
                            if let Ok(h) = PacketHeader::from_parts(pgp::types::PacketHeaderVersion::New, Tag::Signature, PacketLength::Fixed(sb.len() as u32)) {
                                if let Ok(Ok(sg)) = guarded(|| Signature::try_from_reader(h, &sb[..])) {
                                    if !sg.issuer_fingerprint().iter().all(|f| **f == fp) || sg.issuer_fingerprint().is_empty() {
                                        ok = false;
                                        detail.push_str(&format!("; signature paired with OPS #{i} names {:?}", sg.issuer_fingerprint()));
                                    }
                                }
                            }
                        }
                    }
                    ctx.oracle("embedded_issuer", "MessageBuilder::sign x3 (one-pass signature packets of distinct signers)", &input, ok, &detail);
                    ctx.stat("sig:multi_signer_ops");
                }
            }
        }
        // signatures with hand-chosen issuer subpackets, to drive match_identity through every branch
        // same-version keys to try the signatures against: the signer itself and a window of others
        let same: Vec<&GenKey> = gens.iter().filter(|o| o.sec.version() == g.sec.version()).collect();
        let me = same.iter().position(|o| std::ptr::eq(*o, g)).unwrap_or(0);
        let others: Vec<&GenKey> = (0..same.len().min(16)).map(|d| same[(me + d) % same.len()]).collect();
        let variants = ctx.pick(4, 8);
        for v in 0..variants {
            let other = others[(v * 3 + 1) % others.len()];
            let (ofp, okid) = (other.sec.fingerprint(), other.sec.legacy_key_id());
            let (mfp, mkid) = (key.fingerprint(), key.legacy_key_id());
            let made = guarded(|| {
                let mut rng = ChaCha8Rng::seed_from_u64(seed ^ (10 + v as u64));
                let mut cfg = SignatureConfig::from_key(&mut rng, key, SignatureType::Binary).ok()?;
                let created = Subpacket::regular(SubpacketData::SignatureCreationTime(Timestamp::now())).ok()?;
                let sp_fp = |f: &Fingerprint| Subpacket::regular(SubpacketData::IssuerFingerprint(f.clone())).ok();
                let sp_kid = |k: &KeyId| Subpacket::regular(SubpacketData::IssuerKeyId(*k)).ok();
                let (h, u): (Vec<Subpacket>, Vec<Subpacket>) = match v {
                    0 => (vec![created], vec![]),                                  // no issuer at all
                    1 => (vec![created, sp_fp(&ofp)?], vec![sp_kid(&mkid)?]),      // fingerprint wrong, key id right
                    2 => (vec![created, sp_fp(&mfp)?], vec![sp_kid(&okid)?]),      // fingerprint right, key id wrong
                    3 => (vec![created, sp_fp(&ofp)?], vec![sp_kid(&okid)?]),      // both somebody else's
                    4 => (vec![created], vec![sp_kid(&okid)?, sp_kid(&mkid)?]),    // two key ids, second matches
                    5 => (vec![created, sp_fp(&ofp)?, sp_fp(&mfp)?], vec![]),      // two fingerprints
                    6 => (vec![created], vec![sp_kid(&okid)?]),                    // only a foreign key id
                    _ => (vec![created, sp_fp(&ofp)?], vec![]),                    // only a foreign fingerprint
                };
                cfg.hashed_subpackets = h;
                cfg.unhashed_subpackets = u;
                cfg.sign(key, &Password::empty(), &data[..]).ok()
            });
            if let Ok(Some(s)) = made {
                fresh.push(s);
            } else {
                ctx.stat("match_sig:custom_sign_failed");
            }
        }
        for s in &fresh {
            for o in &others {
                match_sig_case(ctx, s, &o.public.primary_key, data);
            }
        }
    }
    // subpackets as written / as read
    let mut fps: Vec<Fingerprint> = gens.iter().map(|g| g.sec.fingerprint()).collect();
    fps.extend(fixture_keys.iter().filter_map(|k| k.fingerprint()).take(ctx.pick(20, 200)));
    for fp in &fps {
        let r = guarded(|| Subpacket::regular(SubpacketData::IssuerFingerprint(fp.clone())).ok().and_then(|s| s.to_bytes().ok()));
        let ans = match r {
            Ok(Some(b)) => format!("ok:{}", hx(&b)),
            _ => "err".to_string(),
        };
        ctx.case(format!("issuer_fp fp={}", fp_str(fp)), ans);
    }
    for k in gens.iter().map(|g| g.sec.legacy_key_id()).chain(fixture_keys.iter().filter_map(|k| k.key_id()).take(20)) {
        let r = guarded(|| Subpacket::regular(SubpacketData::IssuerKeyId(k)).ok().and_then(|s| s.to_bytes().ok()));
        let ans = match r {
            Ok(Some(b)) => format!("ok:{}", hx(&b)),
            _ => "err".to_string(),
        };
        ctx.case(format!("issuer_kid kid={}", hx(k.as_ref())), ans);
    }
    // reading: splice a subpacket into the unhashed area of a real v4 signature
    if let Some(base) = gens.iter().find(|g| g.sec.version() == KeyVersion::V4).and_then(|g| {
        let key = &g.sec.primary_key;
        guarded(|| DetachedSignature::sign_binary_data(rand::thread_rng(), key, &Password::empty(), key.hash_alg(), &data[..]).ok())
            .ok()
            .flatten()
            .and_then(|d| d.signature.to_bytes().ok())
    }) {
        let hashed_len = u16::from_be_bytes([base[4], base[5]]) as usize;
        let un_pos = 6 + hashed_len;
        let un_len = u16::from_be_bytes([base[un_pos], base[un_pos + 1]]) as usize;
        let splice = |typ: u8, body: &[u8]| -> Vec<u8> {
            let mut sp = vec![(body.len() + 1) as u8, typ];
            sp.extend_from_slice(body);
            let mut out = base[..un_pos].to_vec();
            out.extend_from_slice(&(sp.len() as u16).to_be_bytes());
            out.extend_from_slice(&sp);
            out.extend_from_slice(&base[un_pos + 2 + un_len..]);
            out
        };
        let parse_sig = |bytes: &[u8]| -> Option<Signature> {
            let h = PacketHeader::from_parts(pgp::types::PacketHeaderVersion::New, Tag::Signature, PacketLength::Fixed(bytes.len() as u32)).ok()?;
            guarded(|| Signature::try_from_reader(h, bytes).ok()).ok().flatten()
        };
        let mut bodies: Vec<Vec<u8>> = Vec::new();
        for ver in [0u8, 2, 3, 4, 5, 6, 7] {
            for len in [0usize, 15, 16, 19, 20, 21, 31, 32, 33] {
                let mut b = vec![ver];
                b.extend(pattern(ver as usize + len, len));
                bodies.push(b);
            }
        }
        bodies.push(vec![]);
        for b in &bodies {
            let ans = match parse_sig(&splice(33, b)) {
                Some(s) => match s.issuer_fingerprint().last() {
                    Some(f) => format!("ok:{}", fp_str(f)),
                    None => "err".to_string(),
                },
                None => "err".to_string(),
            };
            ctx.case(format!("issuer_fp_parse data={}", hx(b)), ans);
        }
        for len in [0usize, 7, 8, 9] {
            let b = pattern(len, len);
            let ans = match parse_sig(&splice(16, &b)) {
                Some(s) => match s.issuer_key_id().last() {
                    Some(k) => format!("ok:{}", hx(k.as_ref())),
                    None => "err".to_string(),
                },
                None => "err".to_string(),
            };
            ctx.case(format!("issuer_kid_parse data={}", hx(&b)), ans);
        }
    } else {
        ctx.note("no v4 base signature for subpacket parsing cases");
    }

    // ---- 8. recipients embedded in fresh messages -----------------------------------------------
    struct EncKey<'a> {
        name: String,
        sub: &'a pgp::composed::SignedPublicSubKey,
    }
    let mut enc_keys: Vec<EncKey> = Vec::new();
    for g in &gens {
        for s in &g.public.public_subkeys {
            enc_keys.push(EncKey { name: g.name.clone(), sub: s });
        }
    }
    // several recipients in one message, named and hidden ones mixed in every order: the k-th PKESK
    // names (or hides) the k-th recipient, nobody else's identity
    for start in (0..enc_keys.len().saturating_sub(2)).step_by(ctx.pick(7, 2)) {
        let trio = &enc_keys[start..start + 3];
        for mask in 0u8..8 {
            for pv in [3u8, 6] {
                let seed: u64 = ctx.rng.gen();
                let msg = guarded(|| {
                    let mut rng = ChaCha8Rng::seed_from_u64(seed);
                    macro_rules! add {
                        ($b:expr) => {{
                            let mut b = $b;
                            for (i, ek) in trio.iter().enumerate() {
                                if mask & (1 << i) != 0 {
                                    b.encrypt_to_key_anonymous(&mut rng, &ek.sub.key).ok()?;
                                } else {
                                    b.encrypt_to_key(&mut rng, &ek.sub.key).ok()?;
                                }
                            }
                            b.to_vec(&mut rng).ok()
                        }};
                    }
                    if pv == 3 {
                        add!(MessageBuilder::from_bytes("", b"c13".to_vec()).seipd_v1(&mut rng, SymmetricKeyAlgorithm::AES128))
                    } else {
                        add!(MessageBuilder::from_bytes("", b"c13".to_vec()).seipd_v2(&mut rng, SymmetricKeyAlgorithm::AES128, pgp::crypto::aead::AeadAlgorithm::Ocb, pgp::crypto::aead::ChunkSize::default()))
                    }
                });
                let Ok(Some(msg)) = msg else {
                    ctx.stat("pkesk_multi:encrypt_failed");
                    continue;
                };
                let ps = pkesks_of(&msg);
                let input = format!("recipients=[{}] hidden_mask={mask:03b} pv={pv}", trio.iter().map(|e| fp_str(&e.sub.fingerprint())).collect::<Vec<_>>().join(","));
                let mut ok = ps.len() == 3;
                let mut detail = format!("{} PKESK packets", ps.len());
                for (i, (p, ek)) in ps.iter().zip(trio.iter()).enumerate() {
                    let anon = mask & (1 << i) != 0;
                    let good = match (p, anon) {
                        (PublicKeyEncryptedSessionKey::V3 { id, .. }, false) => *id == ek.sub.legacy_key_id(),
                        (PublicKeyEncryptedSessionKey::V3 { id, .. }, true) => id.is_wildcard(),
                        (PublicKeyEncryptedSessionKey::V6 { fingerprint, .. }, false) => fingerprint.as_ref() == Some(&ek.sub.fingerprint()),
                        (PublicKeyEncryptedSessionKey::V6 { fingerprint, .. }, true) => fingerprint.is_none(),
                        _ => false,
                    };
                    if !good {
                        ok = false;
                        detail.push_str(&format!("; PKESK #{i} carries {} (recipient #{i} hidden={anon})", rc_str(p)));
                    }
                }
                ctx.oracle("embedded_recipient", "MessageBuilder::encrypt_to_key / encrypt_to_key_anonymous, several recipients", &input, ok, &detail);
                ctx.stat("pkesk_multi");
            }
        }
    }
    let mut all_pkesk: Vec<(PublicKeyEncryptedSessionKey, usize)> = Vec::new();
    for (idx, ek) in enc_keys.iter().enumerate() {
        let seed: u64 = ctx.rng.gen();
        let fp = ek.sub.fingerprint();
        let kid = ek.sub.legacy_key_id();
        let ver = ver_num(ek.sub.version());
        let Some(pre) = recorded_preimage(&ek.sub.key) else { continue };
        let digest = digest_for(ver, &pre);
        let body = ek.sub.key.to_bytes().unwrap_or_default();
        for (pv, anon) in [(3u8, false), (6, false), (3, true), (6, true)] {
            let msg = guarded(|| {
                let mut rng = ChaCha8Rng::seed_from_u64(seed ^ pv as u64 ^ ((anon as u64) << 8));
                if pv == 3 {
                    let mut b = MessageBuilder::from_bytes("", b"c13".to_vec()).seipd_v1(&mut rng, SymmetricKeyAlgorithm::AES128);
                    if anon { b.encrypt_to_key_anonymous(&mut rng, &ek.sub.key).ok()?; } else { b.encrypt_to_key(&mut rng, &ek.sub.key).ok()?; }
                    b.to_vec(&mut rng).ok()
                } else {
                    let mut b = MessageBuilder::from_bytes("", b"c13".to_vec()).seipd_v2(
                        &mut rng,
                        SymmetricKeyAlgorithm::AES128,
                        pgp::crypto::aead::AeadAlgorithm::Ocb,
                        pgp::crypto::aead::ChunkSize::default(),
                    );
                    if anon { b.encrypt_to_key_anonymous(&mut rng, &ek.sub.key).ok()?; } else { b.encrypt_to_key(&mut rng, &ek.sub.key).ok()?; }
                    b.to_vec(&mut rng).ok()
                }
            });
            let Ok(Some(msg)) = msg else {
                ctx.stat(&format!("pkesk:encrypt_failed:{}:pv{pv}", ek.name));
                continue;
            };
            let ps = pkesks_of(&msg);
            let input = format!("{} pv={pv} anon={anon} recipient={} msg={}", ek.name, fp_str(&fp), hx(&msg[..msg.len().min(120)]));
            if ps.len() != 1 {
                ctx.oracle("embedded_recipient", "MessageBuilder::encrypt_to_key", &input, false, "no PKESK found in the message");
                continue;
            }
            let p = &ps[0];
            let ok = match (p, anon) {
                (PublicKeyEncryptedSessionKey::V3 { id, .. }, false) => *id == kid,
                (PublicKeyEncryptedSessionKey::V3 { id, .. }, true) => id.is_wildcard(),
                (PublicKeyEncryptedSessionKey::V6 { fingerprint, .. }, false) => fingerprint.as_ref() == Some(&fp),
                (PublicKeyEncryptedSessionKey::V6 { fingerprint, .. }, true) => fingerprint.is_none(),
                _ => false,
            };
            ctx.oracle("embedded_recipient", "MessageBuilder::encrypt_to_key PKESK recipient field", &input, ok && p.match_identity(&ek.sub.key),
                       &format!("pkesk {} recipient {} {}", rc_str(p), fp_str(&fp), hx(kid.as_ref())));
            ctx.stat(&format!("pkesk:v{pv}:{}:keyv{ver}", if anon { "anon" } else { "named" }));
            if let Ok(pb) = p.to_bytes() {
                let n = rcpt_len(&pb);
                if !anon {
                    ctx.case(format!("rcpt_for body={} digest={} pv={pv}", hx(&body), hx(&digest)), format!("ok:{}", hx(&pb[..n.min(pb.len())])));
                }
                ctx.case(format!("rcpt_ser rc={}", rc_str(p)), format!("ok:{}", hx(&pb[..n.min(pb.len())])));
                ctx.case(format!("rcpt_parse data={}", hx(&pb)), format!("ok:{}", rc_str(p)));
                // mutated recipient fields, re-parsed by the real parser
                let mut muts: Vec<Vec<u8>> = Vec::new();
                if pb[0] == 6 && !anon {
                    let l = pb[1] as usize;
                    for newver in [0u8, 3, 4, 5, 6, 7] {
                        let mut m = pb.clone();
                        m[2] = newver;
                        muts.push(m);
                    }
                    // declare another length: move the boundary between fingerprint and the rest
                    for nl in [1usize, 17, 21, 33, l + 1] {
                        let mut m = vec![6u8, nl as u8, pb[2]];
                        m.extend(pattern(idx, nl - 1));
                        m.extend_from_slice(&pb[2 + l..]);
                        muts.push(m);
                    }
                    let mut m = vec![6u8, 0];
                    m.extend_from_slice(&pb[2 + l..]);
                    muts.push(m);
                }
                if pb[0] == 3 {
                    let mut m = pb.clone();
                    m[1..9].copy_from_slice(&[0u8; 8]);
                    muts.push(m);
                    let mut m = pb.clone();
                    m[0] = 4;
                    muts.push(m);
                    muts.push(pb[..5].to_vec());
                }
                for m in muts {
                    let ans = match parse_pkesk(&m) {
                        Some(q) => format!("ok:{}", rc_str(&q)),
                        None => "err".to_string(),
                    };
                    // only the recipient part is modelled: an error of the real parser may come from
                    // the algorithm-specific values; compare only when the model's verdict is decisive
                    if ans != "err" || m.len() < 9 || (m[0] == 6 && m.len() > 2 && m[1] != 0) {
                        ctx.case(format!("rcpt_parse data={}", hx(&m)), ans);
                    }
                }
            }
            all_pkesk.push((p.clone(), idx));
        }
    }
    for (p, idx) in &all_pkesk {
        for (j, ek) in enc_keys.iter().enumerate() {
            if j.abs_diff(*idx) > 12 {
                continue;
            }
            let m = p.match_identity(&ek.sub.key);
            ctx.case(
                format!("match_pkesk rc={} kid={} fp={}", rc_str(p), hx(ek.sub.legacy_key_id().as_ref()), fp_str(&ek.sub.fingerprint())),
                format!("ok:{}", if m { 1 } else { 0 }),
            );
            // a key that is not the recipient of a named PKESK must not match
            let named = !matches!(p, PublicKeyEncryptedSessionKey::V6 { fingerprint: None, .. })
                && !matches!(p, PublicKeyEncryptedSessionKey::V3 { id, .. } if id.is_wildcard());
            if named {
                ctx.oracle("embedded_recipient", "PublicKeyEncryptedSessionKey::match_identity", &format!("rc={} key={}", rc_str(p), fp_str(&ek.sub.fingerprint())),
                           m == (j == *idx), &format!("match={m} recipient={}", j == *idx));
            }
        }
    }
}
