# ---- normalize_lines.rs -------------------------------------------------------------------
item("normalizedReaderBufSize", "src/normalize_lines.rs", r"const BUF_SIZE: usize = ([^;]+);",
     "normalize_lines.rs BUF_SIZE")
item("normalizedReaderWindowDiv", "src/normalize_lines.rs", r"in_buffer: \[u8; BUF_SIZE / (\d+)\]",
     "normalize_lines.rs in_buffer: [u8; BUF_SIZE / k]")



derived("""
/-- window of `NormalizedReader` (`in_buffer` length) -/
def normalizedReaderWindow : Nat := normalizedReaderBufSize / normalizedReaderWindowDiv
""")

# ---- util.rs fill_buffer: interrupted reads (D14c) ------------------------------------------
flag("fixD14cFillBufferRetriesInterrupted", "src/util.rs", r"pub\(crate\) fn fill_buffer<R: std::io::Read>\(.*?Err\(err\) if err\.kind\(\) == std::io::ErrorKind::Interrupted => continue,.*?pub\(crate\) fn fill_buffer_bytes",
     "D14c repaired: fill_buffer retries a read that was interrupted instead of returning the error and forgetting what it had read")
