#!/usr/bin/env python3
"""regenerate DESIGN.md section 12 (between the markers) from tools/seeded_table.json + seeded/*/meta.json"""
import json, os, re
T = json.load(open('/verif/tools/seeded_table.json'))
rows = []
for e in T:
    m = {}
    p = f"/verif/seeded/{e['id']}/meta.json"
    if os.path.exists(p):
        m = json.load(open(p))
    conf = m.get('confirmed_by_me', {}).get('result') or []
    c = "yes" if any('demo_with_patch_rc=101' in x for x in conf) and any('demo_without_patch_rc=0' in x for x in conf) and any('suite_with_patch_rc=0' in x for x in conf) else ("pending" if not conf else "see meta.json")
    first = "missed → strengthened" if e.get('missed_first') else "caught"
    caught = '; '.join(e['caught_by'])
    if e.get('neutralised_by'):
        first = "missed → made harmless by a repair"
        caught = f"— (no longer breaks the property since /repo `{e['neutralised_by']}`: {e.get('neutralised_note', '')})"
    rows.append(f"| {e['id']} | {e['summary']} | {e['needs']} | {c} | {first} | {caught} |")
missed = sum(1 for e in T if e.get('missed_first'))
txt = f"""## 12. Seeded changes: which checks catch which changes

Independent sub-agents, given only a property's text and a scratch worktree of `/repo` (nothing from
`/verif`), were asked for changes that break the property, still compile and pass all 491 tests, and need
something specific to manifest; each delivered a patch, a demonstration test and notes. Each change was
confirmed here in a scratch worktree (`tools/confirm_seeded.sh`: suite green with the patch, demo fails
with it and passes without it) and then run against the checks on a private copy
(`tools/try_seeded.sh`), never in `/repo`. Stored under `seeded/<id>/` (`patch.diff`, `demo.rs`,
`notes.md`, `meta.json`). Of {len(T)} changes so far, {len(T) - missed} were caught by the first version of
the check that faced them and {missed} were missed, after which the generators were strengthened (column
"first run"; what was added is in each `meta.json`) — all are caught now, except {sum(1 for e in T if e.get('neutralised_by'))} that a
later repair of a genuine defect in `/repo` made harmless (the change relied on the defect; marked in the table). Lessons that were
generalised beyond the single change: lengths on internal windows (512/1024/8192) with every kind of
line end as the last octet; every reader-taking entry point driven with piecewise delivery, including
"last octet alone"; near-miss values for every comparison (prefix, empty, extended); every container
kind for every rule (public subkey inside a secret key); third-party as well as self signatures;
a translator item used by a property's model that can no longer be re-extracted is itself a violation
(`no-failing-input-found` unless the search finds an input).

| id | change | needs | confirmed | first run | caught by |
|---|---|---|---|---|---|
""" + "\n".join(rows) + "\n"
s = open('/verif/DESIGN.md').read()
B, E = "<!-- seeded:begin -->", "<!-- seeded:end -->"
if B in s:
    s = s[:s.index(B) + len(B)] + "\n" + txt + s[s.index(E):]
else:
    s = s.rstrip("\n") + "\n\n" + B + "\n" + txt + E + "\n"
open('/verif/DESIGN.md', 'w').write(s)
print("section 12:", len(rows), "rows")
