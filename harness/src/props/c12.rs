//! C12 — symmetric and KDF constructions are the RFC's (interoperable ciphertext).
//!
//! Model: lean/RpgpModel/{Plan,S2k,SymEnc,Kdf}.lean, ops in lean/RpgpModel/Ops/C12.lean.
//!
//! Two kinds of correspondence cases:
//!  * *plan* ops (`s2k.derive`, `seipd1.enc`, `seipd2.enc`, `skesk4.enc`, `skesk6.enc`, `seckey.cfb`,
//!    `seckey.aead`, `ecdh.kek`, `ecdh.wrap`, `x25519.*`, `x448.*`): the model answers with the
//!    primitive calls the construction makes (a `PExpr`); this harness asks the native driver in
//!    batches, evaluates the plan with the RustCrypto crates (`src/plan.rs`, no OpenPGP logic) and
//!    compares with the bytes rpgp emitted for the same inputs (random values — prefix, salt, IV,
//!    ephemeral key — are read back from the artefact).  The implementation's answer recorded for
//!    the case is the plan itself iff its value equals rpgp's bytes, else `impl:<rpgp bytes>`;
//!    `err` when rpgp refuses.  The value of the plan is also handed back to rpgp's reader
//!    (decryptor / unlock / unwrap), which must recover the input.
//!  * *direct* ops (`s2k.spec`, `seipd2.info`, `seipd2.split`, `seipd1.open`, `ecdh.param`,
//!    `ecdh.pad`, `ecdh.unpad`, `sum16`, `sum16c`, `pkesk.plain`): the model's answer is compared
//!    with the value observed on the real code.
//!
//! Oracles (property text, independent of the model; `rfc` submodule is written from RFC 9580 /
//! RFC 3394 / RFC 5869 / RFC 9106 only): byte equality of every artefact with the RFC
//! construction, and RFC-built artefacts are accepted by rpgp and yield the input.

use crate::ctx::{guarded, hx, Ctx};
use crate::plan::{self, Model};

mod ecdh;
mod rfc;
mod s2k;
mod seckey;
mod seipd;
mod skesk;

/// a request for the model plus the continuation that consumes its answer (and may queue
/// follow-up requests for the next batch)
pub struct Job {
    pub req: String,
    pub then: Box<dyn FnOnce(&mut Ctx, &str, &mut Vec<Job>)>,
}

pub fn job(req: String, f: impl FnOnce(&mut Ctx, &str, &str, &mut Vec<Job>) + 'static) -> Job {
    let r = req.clone();
    Job { req, then: Box::new(move |ctx, ans, next| f(ctx, &r, ans, next)) }
}

pub fn run_jobs(ctx: &mut Ctx, model: &mut Model, mut jobs: Vec<Job>) {
    while !jobs.is_empty() {
        let reqs: Vec<String> = jobs.iter().map(|j| j.req.clone()).collect();
        let answers = model.ask(&reqs);
        let mut next = Vec::new();
        for (j, ans) in jobs.into_iter().zip(answers) {
            (j.then)(ctx, &ans, &mut next);
        }
        jobs = next;
    }
}

/// map in parallel (the heavy evaluations are pure)
pub fn par_map<T: Sync, R: Send>(items: &[T], f: impl Fn(&T) -> R + Sync) -> Vec<R> {
    let n = items.len();
    let workers = std::thread::available_parallelism().map(|n| n.get()).unwrap_or(4).min(12).max(1);
    let next = std::sync::atomic::AtomicUsize::new(0);
    let out: Vec<std::sync::Mutex<Option<R>>> = (0..n).map(|_| std::sync::Mutex::new(None)).collect();
    std::thread::scope(|s| {
        for _ in 0..workers.min(n.max(1)) {
            s.spawn(|| loop {
                let i = next.fetch_add(1, std::sync::atomic::Ordering::SeqCst);
                if i >= n {
                    break;
                }
                let r = f(&items[i]);
                *out[i].lock().unwrap() = Some(r);
            });
        }
    });
    out.into_iter().map(|m| m.into_inner().unwrap().expect("worker result")).collect()
}

fn clip(b: &[u8]) -> String {
    if b.len() > 48 { format!("{}..({})", hex::encode(&b[..48]), b.len()) } else { hx(b) }
}

/// The implementation's answer for a plan case: the plan itself iff it evaluates to every one of
/// the byte strings rpgp produced; `err` iff rpgp refused.
pub fn plan_answer(model_ans: &str, real: &Result<Vec<Vec<u8>>, String>) -> (String, Option<Vec<u8>>) {
    match real {
        // rpgp refused.  Agreement is either the model's `err`, or a plan whose evaluation fails
        // inside a primitive (the refusal is the primitive's: key-wrap input/key size, cipher key size)
        Err(_) => match plan::eval_answer(model_ans) {
            Err(_) if model_ans.starts_with("ok:") => (model_ans.to_string(), None),
            _ => ("err".to_string(), None),
        },
        Ok(outs) => match plan::eval_answer(model_ans) {
            Ok(v) if outs.iter().all(|o| *o == v) => (model_ans.to_string(), Some(v)),
            Ok(v) => (format!("impl:{} plan-value:{}", outs.first().map(|o| clip(o)).unwrap_or_default(), clip(&v)), Some(v)),
            Err(e) => (format!("impl:{} plan-error:{}", outs.first().map(|o| clip(o)).unwrap_or_default(), e.replace(' ', "_")), None),
        },
    }
}

pub fn run(ctx: &mut Ctx) {
    let mut model = Model::locate(ctx.out_dir());
    if !model.available() {
        ctx.note("model driver not found: plan cases are recorded with the answer `nodriver`");
    }
    s2k::run(ctx, &mut model);
    seipd::run_v1(ctx, &mut model);
    seipd::run_v2(ctx, &mut model);
    skesk::run(ctx, &mut model);
    seckey::run(ctx, &mut model);
    ecdh::run(ctx, &mut model);
    ctx.note(&format!("driver batches: {}", model.batches));
    let _ = guarded(|| ());
}
