# ---- normalize_lines.rs -------------------------------------------------------------------
item("normalizedReaderBufSize", "src/normalize_lines.rs", r"const BUF_SIZE: usize = ([^;]+);",
     "normalize_lines.rs BUF_SIZE")
item("normalizedReaderWindowDiv", "src/normalize_lines.rs", r"in_buffer: \[u8; BUF_SIZE / (\d+)\]",
     "normalize_lines.rs in_buffer: [u8; BUF_SIZE / k]")



derived("""
/-- window of `NormalizedReader` (`in_buffer` length) -/
def normalizedReaderWindow : Nat := normalizedReaderBufSize / normalizedReaderWindowDiv
""")
