import RpgpModel.Armor
/-!
# base64 lemmas (model: `RpgpModel/Armor.lean`)
-/
namespace Rpgp.Armor

theorem b64val_char : ∀ n, n < 64 → b64val (b64char n) = some n := by decide

theorem b64char_ne_eqs : ∀ n, n < 64 → b64char n ≠ EQS := by decide

theorem b64val_eqs : b64val EQS = none := by decide

theorem toUInt8_toNat (a : Byte) : a.toNat.toUInt8 = a := by
  simp [Nat.toUInt8]

theorem byte_lt (a : Byte) : a.toNat < 256 := UInt8.toNat_lt a

/-- symbols of the alphabet proper -/
def isB64Sym (c : Byte) : Bool := (b64val c).isSome

theorem isB64Sym_char (n : Nat) (h : n < 64) : isB64Sym (b64char n) = true := by
  simp [isB64Sym, b64val_char n h]

theorem dec4_enc3 (a b c : Byte) :
    ∃ w x y z, enc3 a b c = [w, x, y, z] ∧ dec4 w x y z = some [a, b, c] ∧ z ≠ EQS ∧
      isB64Sym w ∧ isB64Sym x ∧ isB64Sym y ∧ isB64Sym z := by
  have ha := byte_lt a; have hb := byte_lt b; have hc := byte_lt c
  refine ⟨_, _, _, _, rfl, ?_, b64char_ne_eqs _ (by omega), isB64Sym_char _ (by omega), isB64Sym_char _ (by omega),
    isB64Sym_char _ (by omega), isB64Sym_char _ (by omega)⟩
  simp only [dec4]
  rw [b64val_char _ (by omega), b64val_char _ (by omega), b64val_char _ (by omega), b64val_char _ (by omega)]
  simp only [Option.bind_eq_bind, Option.bind_some, Option.pure_def, Option.some.injEq, List.cons.injEq, and_true]
  refine ⟨?_, ?_, ?_⟩
  · rw [← toUInt8_toNat a]; congr 1; simp only [toUInt8_toNat]; omega
  · rw [← toUInt8_toNat b]; congr 1; simp only [toUInt8_toNat]; omega
  · rw [← toUInt8_toNat c]; congr 1; simp only [toUInt8_toNat]; omega

theorem decLast_enc2 (a b : Byte) :
    ∃ w x y, enc2 a b = [w, x, y, EQS] ∧ decLast w x y EQS = some [a, b] ∧ y ≠ EQS ∧
      isB64Sym w ∧ isB64Sym x ∧ isB64Sym y := by
  have ha := byte_lt a; have hb := byte_lt b
  have hy : b64char ((a.toNat * 256 + b.toNat) * 4 % 64) ≠ EQS := b64char_ne_eqs _ (by omega)
  refine ⟨_, _, _, rfl, ?_, hy, isB64Sym_char _ (by omega), isB64Sym_char _ (by omega), isB64Sym_char _ (by omega)⟩
  simp only [decLast, if_true, hy, if_false]
  rw [b64val_char _ (by omega), b64val_char _ (by omega), b64val_char _ (by omega)]
  simp only [Option.bind_eq_bind, Option.bind_some, Option.pure_def]
  rw [if_pos (by omega)]
  simp only [Option.some.injEq, List.cons.injEq, and_true]
  refine ⟨?_, ?_⟩
  · rw [← toUInt8_toNat a]; congr 1; simp only [toUInt8_toNat]; omega
  · rw [← toUInt8_toNat b]; congr 1; simp only [toUInt8_toNat]; omega

theorem decLast_enc1 (a : Byte) :
    ∃ w x, enc1 a = [w, x, EQS, EQS] ∧ decLast w x EQS EQS = some [a] ∧ isB64Sym w ∧ isB64Sym x := by
  have ha := byte_lt a
  refine ⟨_, _, rfl, ?_, isB64Sym_char _ (by omega), isB64Sym_char _ (by omega)⟩
  simp only [decLast, if_true]
  rw [b64val_char _ (by omega), b64val_char _ (by omega)]
  simp only [Option.bind_eq_bind, Option.bind_some, Option.pure_def]
  rw [if_pos (by omega)]
  simp only [Option.some.injEq, List.cons.injEq, and_true]
  rw [← toUInt8_toNat a]; congr 1; simp only [toUInt8_toNat]; omega

/-- a full quantum in front of anything that decodes -/
theorem b64dec_cons4 (w x y z : Byte) (r q o : Bytes) (hz : z ≠ EQS)
    (hq : dec4 w x y z = some q) (hr : b64dec r = some o) :
    b64dec (w :: x :: y :: z :: r) = some (q ++ o) := by
  cases r with
  | nil =>
    simp only [b64dec] at hr
    cases hr
    simp [b64dec, decLast, hz, hq]
  | cons c r' =>
    simp [b64dec, hq, hr]

/-- **b64 round trip**, every length -/
theorem b64dec_b64enc (d : Bytes) : b64dec (b64enc d) = some d := by
  fun_induction b64enc d with
  | case1 => simp [b64dec]
  | case2 a =>
    obtain ⟨w, x, he, hd, _⟩ := decLast_enc1 a
    rw [he]; simpa [b64dec] using hd
  | case3 a b =>
    obtain ⟨w, x, y, he, hd, _⟩ := decLast_enc2 a b
    rw [he]; simpa [b64dec] using hd
  | case4 a b c r ih =>
    obtain ⟨w, x, y, z, he, hd, hz, _⟩ := dec4_enc3 a b c
    rw [he]
    exact b64dec_cons4 w x y z _ _ _ hz hd ih

theorem b64enc_length (d : Bytes) : (b64enc d).length = 4 * ((d.length + 2) / 3) := by
  fun_induction b64enc d with
  | case1 => rfl
  | case2 a => simp [enc1]
  | case3 a b => simp [enc2]
  | case4 a b c r ih =>
    simp only [List.length_append, ih, enc3, List.length_cons, List.length_nil]
    omega

theorem b64enc_length_mod4 (d : Bytes) : (b64enc d).length % 4 = 0 := by
  rw [b64enc_length]; omega

/-- every character of an encoding is an alphabet symbol or `=` -/
theorem b64enc_chars (d : Bytes) : ∀ c ∈ b64enc d, isB64Sym c = true ∨ c = EQS := by
  fun_induction b64enc d with
  | case1 => simp
  | case2 a =>
    obtain ⟨w, x, he, _, hw, hx⟩ := decLast_enc1 a
    rw [he]; intro c hc; simp at hc; rcases hc with rfl | rfl | rfl | rfl <;> simp [*]
  | case3 a b =>
    obtain ⟨w, x, y, he, _, _, hw, hx, hy⟩ := decLast_enc2 a b
    rw [he]; intro c hc; simp at hc; rcases hc with rfl | rfl | rfl | rfl <;> simp [*]
  | case4 a b c r ih =>
    obtain ⟨w, x, y, z, he, _, _, hw, hx, hy, hz⟩ := dec4_enc3 a b c
    rw [he]; intro c hc
    simp only [List.cons_append, List.nil_append, List.mem_cons] at hc
    rcases hc with rfl | rfl | rfl | rfl | hc
    · simp [*]
    · simp [*]
    · simp [*]
    · simp [*]
    · exact ih c hc

/-- encoding distributes over a split at a multiple of three octets -/
theorem b64enc_append (a b : Bytes) (h : a.length % 3 = 0) : b64enc (a ++ b) = b64enc a ++ b64enc b := by
  fun_induction b64enc a with
  | case1 => simp [b64enc]
  | case2 x => simp at h
  | case3 x y => simp at h
  | case4 x y z r ih =>
    have : r.length % 3 = 0 := by simp at h; omega
    simp [b64enc, ih this]

/-- padding is only at the end: everything but the last quantum consists of alphabet symbols -/
theorem b64enc_body_syms (d : Bytes) :
    ∀ c ∈ (b64enc d).take ((b64enc d).length - 4), isB64Sym c = true := by
  fun_induction b64enc d with
  | case1 => simp
  | case2 a => simp [enc1]
  | case3 a b => simp [enc2]
  | case4 a b c r ih =>
    obtain ⟨w, x, y, z, he, _, _, hw, hx, hy, hz⟩ := dec4_enc3 a b c
    rw [he]
    have hl := b64enc_length_mod4 r
    intro ch hc
    by_cases hr : (b64enc r).length = 0
    · have : b64enc r = [] := List.eq_nil_of_length_eq_zero hr
      simp [this] at hc
    · have h4 : 4 ≤ (b64enc r).length := by omega
      have e : ([w, x, y, z] ++ b64enc r).length - 4 = ((b64enc r).length - 4) + 1 + 1 + 1 + 1 := by simp; omega
      rw [e] at hc
      simp only [List.cons_append, List.nil_append, List.take_succ_cons, List.mem_cons] at hc
      rcases hc with rfl | rfl | rfl | rfl | hc
      · exact hw
      · exact hx
      · exact hy
      · exact hz
      · exact ih ch hc

/-- unfolding of `b64dec` on a quantum that is not the last one -/
theorem b64dec_quad (w x y z : Byte) (r : Bytes) (hr : r ≠ []) :
    b64dec (w :: x :: y :: z :: r) =
      (dec4 w x y z).bind fun q => (b64dec r).bind fun rest => some (q ++ rest) := by
  cases r with
  | nil => exact absurd rfl hr
  | cons c r' => simp [b64dec]

/-- a quantum that starts with `=` never decodes, wherever it stands -/
theorem b64dec_eqs_quantum (n : Nat) : ∀ (p : Bytes) (x y z : Byte) (s : Bytes), p.length = 4 * n →
    b64dec (p ++ EQS :: x :: y :: z :: s) = none := by
  induction n with
  | zero =>
    intro p x y z s hp
    have : p = [] := List.eq_nil_of_length_eq_zero (by omega)
    subst this
    cases s with
    | nil => simp [b64dec, decLast, dec4, b64val_eqs]
    | cons c s' => simp [b64dec, dec4, b64val_eqs]
  | succ n ih =>
    intro p x y z s hp
    match p, hp with
    | a :: b :: c :: d :: p', hp =>
      have hl : p'.length = 4 * n := by simp at hp; omega
      have hne : p' ++ EQS :: x :: y :: z :: s ≠ [] := by simp
      simp only [List.cons_append]
      rw [b64dec_quad a b c d _ hne, ih p' x y z s hl]
      cases dec4 a b c d <;> simp

end Rpgp.Armor
